//go:build verif

// Package verifenv is the environment of the reconcilers under test: an
// in-memory API store implementing the part of controller-runtime's
// client.Client the reconcilers use (Get, List), and a work-queue automaton.
// It is a model of the Kubernetes side (DESIGN.md section 3): objects are
// returned as deep copies; list order is sorted by key unless a list-order
// choice is being explored.
package verifenv

import (
	"context"
	"fmt"
	"sort"
	"strings"

	frrv1beta1 "github.com/metallb/frr-k8s/api/v1beta1"
	metallbv1beta1 "go.universe.tf/metallb/api/v1beta1"
	metallbv1beta2 "go.universe.tf/metallb/api/v1beta2"
	"go.universe.tf/metallb/internal/verifrt"
	corev1 "k8s.io/api/core/v1"
	discovery "k8s.io/api/discovery/v1"
	apierrors "k8s.io/apimachinery/pkg/api/errors"
	"k8s.io/apimachinery/pkg/runtime/schema"
	"sigs.k8s.io/controller-runtime/pkg/client"
)

// Store implements client.Client for Get and List; every other method of the
// embedded (nil) interface panics, which exposes unexpected client usage.
type Store struct {
	client.Client
	objs map[string]map[string]client.Object // kind -> namespace/name -> object
	// ListFail, when set, makes List/Get fail (environment fault).
	Fail func(op, kind string) error
	// Writes counts successful Create/Update/Delete calls.
	Writes int
}

func NewStore() *Store {
	return &Store{objs: map[string]map[string]client.Object{}}
}

func kindOf(o interface{}) string {
	switch o.(type) {
	case *corev1.Service, *corev1.ServiceList:
		return "Service"
	case *corev1.Node, *corev1.NodeList:
		return "Node"
	case *corev1.Namespace, *corev1.NamespaceList:
		return "Namespace"
	case *corev1.Secret, *corev1.SecretList:
		return "Secret"
	case *corev1.ConfigMap, *corev1.ConfigMapList:
		return "ConfigMap"
	case *discovery.EndpointSlice, *discovery.EndpointSliceList:
		return "EndpointSlice"
	case *metallbv1beta1.IPAddressPool, *metallbv1beta1.IPAddressPoolList:
		return "IPAddressPool"
	case *metallbv1beta1.L2Advertisement, *metallbv1beta1.L2AdvertisementList:
		return "L2Advertisement"
	case *metallbv1beta1.BGPAdvertisement, *metallbv1beta1.BGPAdvertisementList:
		return "BGPAdvertisement"
	case *metallbv1beta1.Community, *metallbv1beta1.CommunityList:
		return "Community"
	case *metallbv1beta1.BFDProfile, *metallbv1beta1.BFDProfileList:
		return "BFDProfile"
	case *metallbv1beta2.BGPPeer, *metallbv1beta2.BGPPeerList:
		return "BGPPeer"
	case *frrv1beta1.FRRConfiguration, *frrv1beta1.FRRConfigurationList:
		return "FRRConfiguration"
	}
	panic(fmt.Sprintf("verifenv: unsupported type %T", o))
}

func objKey(o client.Object) string { return o.GetNamespace() + "/" + o.GetName() }

// Put creates or replaces an object (stored as a deep copy).
func (s *Store) Put(o client.Object) {
	k := kindOf(o)
	if s.objs[k] == nil {
		s.objs[k] = map[string]client.Object{}
	}
	s.objs[k][objKey(o)] = o.DeepCopyObject().(client.Object)
}

func (s *Store) Remove(kind, namespace, name string) {
	delete(s.objs[kind], namespace+"/"+name)
}

// DeleteAll removes every object of a kind.
func (s *Store) RemoveAll(kind string) { delete(s.objs, kind) }

// Peek returns the stored object itself (harness side, read only), or nil.
func (s *Store) Peek(kind, namespace, name string) client.Object {
	return s.objs[kind][namespace+"/"+name]
}

// Keys returns the sorted keys of a kind.
func (s *Store) Keys(kind string) []string {
	var ks []string
	for k := range s.objs[kind] {
		ks = append(ks, k)
	}
	sort.Strings(ks)
	return ks
}

func (s *Store) Get(ctx context.Context, key client.ObjectKey, obj client.Object, opts ...client.GetOption) error {
	k := kindOf(obj)
	if s.Fail != nil {
		if err := s.Fail("get", k); err != nil {
			return err
		}
	}
	o := s.objs[k][key.Namespace+"/"+key.Name]
	if o == nil {
		return apierrors.NewNotFound(schema.GroupResource{Resource: strings.ToLower(k)}, key.Name)
	}
	switch dst := obj.(type) {
	case *corev1.Service:
		o.(*corev1.Service).DeepCopyInto(dst)
	case *corev1.Node:
		o.(*corev1.Node).DeepCopyInto(dst)
	case *corev1.ConfigMap:
		o.(*corev1.ConfigMap).DeepCopyInto(dst)
	case *corev1.Secret:
		o.(*corev1.Secret).DeepCopyInto(dst)
	case *corev1.Namespace:
		o.(*corev1.Namespace).DeepCopyInto(dst)
	case *frrv1beta1.FRRConfiguration:
		o.(*frrv1beta1.FRRConfiguration).DeepCopyInto(dst)
	default:
		panic(fmt.Sprintf("verifenv: Get of %T not supported", obj))
	}
	return nil
}

// Create / Update / Delete: the write half used by the frr-k8s reconciler. Fail("create"|"update"|"delete", kind) injects errors.
func (s *Store) Create(ctx context.Context, obj client.Object, opts ...client.CreateOption) error {
	k := kindOf(obj)
	if s.Fail != nil {
		if err := s.Fail("create", k); err != nil {
			return err
		}
	}
	if s.objs[k][objKey(obj)] != nil {
		return apierrors.NewAlreadyExists(schema.GroupResource{Resource: strings.ToLower(k)}, obj.GetName())
	}
	s.Put(obj)
	s.Writes++
	return nil
}

func (s *Store) Update(ctx context.Context, obj client.Object, opts ...client.UpdateOption) error {
	k := kindOf(obj)
	if s.Fail != nil {
		if err := s.Fail("update", k); err != nil {
			return err
		}
	}
	if s.objs[k][objKey(obj)] == nil {
		return apierrors.NewNotFound(schema.GroupResource{Resource: strings.ToLower(k)}, obj.GetName())
	}
	s.Put(obj)
	s.Writes++
	return nil
}

func (s *Store) Delete(ctx context.Context, obj client.Object, opts ...client.DeleteOption) error {
	k := kindOf(obj)
	if s.Fail != nil {
		if err := s.Fail("delete", k); err != nil {
			return err
		}
	}
	if s.objs[k][objKey(obj)] == nil {
		return apierrors.NewNotFound(schema.GroupResource{Resource: strings.ToLower(k)}, obj.GetName())
	}
	s.Remove(k, obj.GetNamespace(), obj.GetName())
	s.Writes++
	return nil
}

// ordered returns the objects of a kind in the order the "API server" lists
// them: sorted by key by default; a list-order choice point otherwise.
func (s *Store) ordered(kind, namespace string, fieldSel map[string]string) []client.Object {
	var out []client.Object
	for _, k := range s.Keys(kind) {
		o := s.objs[kind][k]
		if namespace != "" && o.GetNamespace() != namespace {
			continue
		}
		if len(fieldSel) > 0 {
			if es, ok := o.(*discovery.EndpointSlice); ok {
				want := ""
				for _, v := range fieldSel {
					want = v
				}
				if es.Namespace+"/"+es.Labels[discovery.LabelServiceName] != want {
					continue
				}
			}
		}
		out = append(out, o)
	}
	if n := len(out); n >= 2 {
		c := verifrt.Choose("listorder", listOrders(n))
		out = applyListOrder(out, c)
	}
	return out
}

func listOrders(n int) int {
	switch {
	case n <= 1:
		return 1
	case n == 2:
		return 2
	case n == 3:
		return 6
	}
	return n + 1
}

var perms3 = [6][3]int{{0, 1, 2}, {0, 2, 1}, {1, 0, 2}, {1, 2, 0}, {2, 0, 1}, {2, 1, 0}}

func applyListOrder(in []client.Object, c int) []client.Object {
	n := len(in)
	if c == 0 {
		return in
	}
	out := make([]client.Object, n)
	switch {
	case n == 2:
		out[0], out[1] = in[1], in[0]
	case n == 3:
		for i, j := range perms3[c] {
			out[i] = in[j]
		}
	case c == n:
		for i := range in {
			out[i] = in[n-1-i]
		}
	default:
		for i := range in {
			out[i] = in[(i+c)%n]
		}
	}
	return out
}

func (s *Store) List(ctx context.Context, list client.ObjectList, opts ...client.ListOption) error {
	kind := kindOf(list)
	if s.Fail != nil {
		if err := s.Fail("list", kind); err != nil {
			return err
		}
	}
	lo := client.ListOptions{}
	lo.ApplyOptions(opts)
	fields := map[string]string{}
	if lo.FieldSelector != nil {
		for _, r := range lo.FieldSelector.Requirements() {
			fields[r.Field] = r.Value
		}
	}
	objs := s.ordered(kind, lo.Namespace, fields)
	switch l := list.(type) {
	case *corev1.ServiceList:
		l.Items = nil
		for _, o := range objs {
			l.Items = append(l.Items, *o.(*corev1.Service).DeepCopy())
		}
	case *corev1.NodeList:
		l.Items = nil
		for _, o := range objs {
			l.Items = append(l.Items, *o.(*corev1.Node).DeepCopy())
		}
	case *corev1.NamespaceList:
		l.Items = nil
		for _, o := range objs {
			l.Items = append(l.Items, *o.(*corev1.Namespace).DeepCopy())
		}
	case *corev1.SecretList:
		l.Items = nil
		for _, o := range objs {
			l.Items = append(l.Items, *o.(*corev1.Secret).DeepCopy())
		}
	case *discovery.EndpointSliceList:
		l.Items = nil
		for _, o := range objs {
			l.Items = append(l.Items, *o.(*discovery.EndpointSlice).DeepCopy())
		}
	case *metallbv1beta1.IPAddressPoolList:
		l.Items = nil
		for _, o := range objs {
			l.Items = append(l.Items, *o.(*metallbv1beta1.IPAddressPool).DeepCopy())
		}
	case *metallbv1beta1.L2AdvertisementList:
		l.Items = nil
		for _, o := range objs {
			l.Items = append(l.Items, *o.(*metallbv1beta1.L2Advertisement).DeepCopy())
		}
	case *metallbv1beta1.BGPAdvertisementList:
		l.Items = nil
		for _, o := range objs {
			l.Items = append(l.Items, *o.(*metallbv1beta1.BGPAdvertisement).DeepCopy())
		}
	case *metallbv1beta1.CommunityList:
		l.Items = nil
		for _, o := range objs {
			l.Items = append(l.Items, *o.(*metallbv1beta1.Community).DeepCopy())
		}
	case *metallbv1beta1.BFDProfileList:
		l.Items = nil
		for _, o := range objs {
			l.Items = append(l.Items, *o.(*metallbv1beta1.BFDProfile).DeepCopy())
		}
	case *metallbv1beta2.BGPPeerList:
		l.Items = nil
		for _, o := range objs {
			l.Items = append(l.Items, *o.(*metallbv1beta2.BGPPeer).DeepCopy())
		}
	default:
		panic(fmt.Sprintf("verifenv: List of %T not supported", list))
	}
	return nil
}

// Queue is the weakest consistent model of a controller-runtime work queue
// with one worker: a set of pending keys; any pending key may be delivered
// next; duplicate adds coalesce; a key whose reconcile asks for a retry is
// pending again.
type Queue struct {
	pending map[string]bool
}

func NewQueue() *Queue { return &Queue{pending: map[string]bool{}} }

func (q *Queue) Add(k string)      { q.pending[k] = true }
func (q *Queue) Take(k string)     { delete(q.pending, k) }
func (q *Queue) Has(k string) bool { return q.pending[k] }
func (q *Queue) Empty() bool       { return len(q.pending) == 0 }
func (q *Queue) Keys() []string {
	var ks []string
	for k := range q.pending {
		ks = append(ks, k)
	}
	sort.Strings(ks)
	return ks
}
