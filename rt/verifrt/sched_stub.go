//go:build verif

package verifrt

// placeholder until the controlled scheduler (sched.go) is in place
type schedT struct{}

var curSched *schedT

func (s *schedT) spawn(name string, f func()) { go f() }
