//go:build verif

package verifrt

import (
	"bytes"
	"runtime"
	"strings"
	"time"
)

// GoroutineState returns the scheduler state ("select", "chan send", "running", ...) of the first
// goroutine whose stack mentions fn, or "" if there is none.
func GoroutineState(fn string) string {
	buf := make([]byte, 1<<16)
	for {
		n := runtime.Stack(buf, true)
		if n < len(buf) {
			buf = buf[:n]
			break
		}
		buf = make([]byte, 2*len(buf))
	}
	for _, g := range bytes.Split(buf, []byte("\n\n")) {
		if !bytes.Contains(g, []byte(fn)) {
			continue
		}
		hdr := string(g[:bytes.IndexByte(g, '\n')])
		i, j := strings.Index(hdr, "["), strings.Index(hdr, "]")
		if i < 0 || j < i {
			return "?"
		}
		st := hdr[i+1 : j]
		if k := strings.Index(st, ","); k >= 0 {
			st = st[:k]
		}
		return st
	}
	return ""
}

// WaitParked polls until the goroutine running fn is parked in one of the given states. It is a
// quiescence test, not a timing oracle: the watchdog only turns a stuck hand-shake into a report.
var Polls int64

func WaitParked(fn string, watchdog time.Duration, states ...string) (string, bool) {
	deadline := time.Now().Add(watchdog)
	for i := 0; ; i++ {
		Polls++
		st := GoroutineState(fn)
		for _, s := range states {
			if st == s {
				return st, true
			}
		}
		if time.Now().After(deadline) {
			return st, false
		}
		if i < 2000 {
			runtime.Gosched()
		} else {
			time.Sleep(50 * time.Microsecond)
		}
	}
}
