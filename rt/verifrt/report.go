//go:build verif

// Package verifrt is the runtime injected (through go test -overlay) as
// go.universe.tf/metallb/internal/verifrt. It carries the reporting protocol
// between in-package harnesses and /verif/bin/vcheck, the explicit-state
// search helpers, the controlled scheduler and the owned-nondeterminism seams.
package verifrt

import (
	"encoding/json"
	"fmt"
	"os"
	"sort"
	"strconv"
	"sync"
	"time"
)

// Violation is one oracle failure. Sig is the cause signature (oracle clause +
// the features that make it fail, never incidental names); Case is whatever the
// harness needs to re-execute exactly this case (VERIF_REPLAY).
type Violation struct {
	Sig    string          `json:"sig"`
	Detail string          `json:"detail"`
	Case   json.RawMessage `json:"case"`
}

// Result is what one harness process writes to $VERIF_OUT.
type Result struct {
	Property   string                 `json:"property"`
	Tier       string                 `json:"tier"`
	Shard      int                    `json:"shard"`
	NShards    int                    `json:"nshards"`
	Counters   map[string]int64       `json:"counters"`
	Maxima     map[string]int64       `json:"maxima"`
	Outcomes   map[string]int64       `json:"outcomes"` // distinct oracle-relevant outcome classes -> count
	Samples    []json.RawMessage      `json:"samples"`
	Violations []Violation            `json:"violations"`
	NViol      int64                  `json:"nviolations"` // total number of violating cases (Violations holds the first per signature)
	SigCount   map[string]int64       `json:"sig_count"`
	Exhaustive bool                   `json:"exhaustive"`
	Notes      []string               `json:"notes"`
	Info       map[string]interface{} `json:"info"`
	WallS      float64                `json:"wall_s"`
	Replayed   bool                   `json:"replayed"`

	mu    sync.Mutex
	start time.Time
}

func NewResult(property string) *Result {
	return &Result{
		Property: property, Tier: Tier(), Shard: Shard(), NShards: NShards(),
		Counters: map[string]int64{}, Maxima: map[string]int64{}, Outcomes: map[string]int64{},
		SigCount: map[string]int64{}, Info: map[string]interface{}{},
		Exhaustive: true, start: time.Now(),
	}
}

func (r *Result) Count(name string, n int64) {
	r.mu.Lock()
	r.Counters[name] += n
	r.mu.Unlock()
}

func (r *Result) Max(name string, v int64) {
	r.mu.Lock()
	if v > r.Maxima[name] {
		r.Maxima[name] = v
	}
	r.mu.Unlock()
}

func (r *Result) Outcome(class string) {
	r.mu.Lock()
	r.Outcomes[class]++
	r.mu.Unlock()
}

func (r *Result) Note(format string, a ...interface{}) {
	r.mu.Lock()
	r.Notes = append(r.Notes, fmt.Sprintf(format, a...))
	r.mu.Unlock()
}

func (r *Result) NotExhaustive(why string) {
	r.mu.Lock()
	r.Exhaustive = false
	r.Notes = append(r.Notes, "not exhaustive: "+why)
	r.mu.Unlock()
}

// Sample records up to 6 example cases, spread: the first 3 and then every
// 10^k-th case.
func (r *Result) Sample(c interface{}) {
	r.mu.Lock()
	defer r.mu.Unlock()
	r.Counters["_sample_seen"]++
	n := r.Counters["_sample_seen"]
	if len(r.Samples) < 3 || (len(r.Samples) < 8 && (n == 100 || n == 10000 || n == 1000000 || n == 100000000)) {
		b, _ := json.Marshal(c)
		r.Samples = append(r.Samples, b)
	}
}

// Violate records a violating case; the first case of every signature is kept
// in full (the enumeration order is simplest-first, so it is the shortest).
func (r *Result) Violate(sig, detail string, c interface{}) {
	r.mu.Lock()
	defer r.mu.Unlock()
	r.NViol++
	r.SigCount[sig]++
	if r.SigCount[sig] > 1 {
		return
	}
	b, err := json.Marshal(c)
	if err != nil {
		b, _ = json.Marshal(fmt.Sprintf("unmarshalable case: %v", err))
	}
	r.Violations = append(r.Violations, Violation{Sig: sig, Detail: detail, Case: b})
}

func (r *Result) Write() {
	r.mu.Lock()
	defer r.mu.Unlock()
	r.WallS = time.Since(r.start).Seconds()
	delete(r.Counters, "_sample_seen")
	sort.Slice(r.Violations, func(i, j int) bool { return r.Violations[i].Sig < r.Violations[j].Sig })
	out := os.Getenv("VERIF_OUT")
	b, err := json.MarshalIndent(r, "", " ")
	if err != nil {
		panic(err)
	}
	if out == "" {
		os.Stderr.Write(b)
		return
	}
	if err := os.WriteFile(out+".tmp", b, 0o644); err != nil {
		panic(err)
	}
	if err := os.Rename(out+".tmp", out); err != nil {
		panic(err)
	}
}

func Tier() string {
	if t := os.Getenv("VERIF_TIER"); t != "" {
		return t
	}
	return "quick"
}

func Thorough() bool { return Tier() == "thorough" }

func envInt(name string, def int) int {
	if v := os.Getenv(name); v != "" {
		if n, err := strconv.Atoi(v); err == nil {
			return n
		}
	}
	return def
}

func Shard() int   { return envInt("VERIF_SHARD", 0) }
func NShards() int { return envInt("VERIF_NSHARDS", 1) }

// Mine reports whether work item i belongs to this shard.
func Mine(i int) bool { return i%NShards() == Shard() }

// Budget returns the wall-clock budget of this process (an internal deadline
// never produces a failure: the harness stops at a completed bound and reports
// exhaustive:false).
func Budget() time.Duration {
	return time.Duration(envInt("VERIF_BUDGET_S", 150)) * time.Second
}

// ReplayCase returns the raw case of a replay file if VERIF_REPLAY is set.
func ReplayCase() (json.RawMessage, bool) {
	p := os.Getenv("VERIF_REPLAY")
	if p == "" {
		return nil, false
	}
	b, err := os.ReadFile(p)
	if err != nil {
		panic(err)
	}
	var f struct {
		Case json.RawMessage `json:"case"`
	}
	if err := json.Unmarshal(b, &f); err != nil {
		panic(err)
	}
	return f.Case, true
}

// Perms calls f with every permutation of 0..n-1 (Heap's algorithm, identity first).
func Perms(n int, f func([]int)) {
	p := make([]int, n)
	for i := range p {
		p[i] = i
	}
	var rec func(k int)
	rec = func(k int) {
		if k == n {
			f(p)
			return
		}
		for i := k; i < n; i++ {
			p[k], p[i] = p[i], p[k]
			rec(k + 1)
			p[k], p[i] = p[i], p[k]
		}
	}
	rec(0)
}
