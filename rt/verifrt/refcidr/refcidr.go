//go:build verif

// Package refcidr is the reference model for address sets: sorted disjoint
// closed intervals over 128-bit integers. IPv4 addresses in any notation are
// mapped into ::ffff:0:0/96, so "10.0.0.0/25" and "::ffff:10.0.0.64/122"
// overlap (address-set semantics). It has its own parser for the notations
// MetalLB accepts (CIDR, start-end range with optional spaces, IPv4-mapped
// IPv6) built on net/netip, independent of net.ParseCIDR + ipaddr.Summarize.
package refcidr

import (
	"errors"
	"fmt"
	"math/big"
	"net"
	"net/netip"
	"sort"
	"strings"
)

type Interval struct{ Lo, Hi *big.Int }

type Set []Interval

var (
	ErrMixedFamilies = errors.New("range ends are of different families")
	ErrInverted      = errors.New("range start after end")
	ErrSyntax        = errors.New("not an address entry")
	one              = big.NewInt(1)
	v4lo             = new(big.Int).SetBytes([]byte{0, 0, 0, 0, 0, 0, 0, 0, 0, 0, 0xff, 0xff, 0, 0, 0, 0})
	v4hi             = new(big.Int).SetBytes([]byte{0, 0, 0, 0, 0, 0, 0, 0, 0, 0, 0xff, 0xff, 0xff, 0xff, 0xff, 0xff})
)

func addrInt(a netip.Addr) *big.Int {
	b := a.As16()
	return new(big.Int).SetBytes(b[:])
}

// IPInt maps a net.IP (4- or 16-byte form) into the 128-bit space.
func IPInt(ip net.IP) *big.Int {
	ip16 := ip.To16()
	if ip16 == nil {
		return nil
	}
	return new(big.Int).SetBytes(ip16)
}

func IntIP(x *big.Int) net.IP {
	b := x.FillBytes(make([]byte, 16))
	return net.IP(b)
}

func isV4(a netip.Addr) bool { return a.Is4() || a.Is4In6() }

func prefixRange(a netip.Addr, bits int) (Interval, error) {
	// bits is given in the notation of the address: /n on a dotted quad counts
	// from the IPv4 top bit, /n on any colon notation counts from the 128-bit top.
	if a.Is4() {
		if bits < 0 || bits > 32 {
			return Interval{}, ErrSyntax
		}
		bits += 96
	} else if bits < 0 || bits > 128 {
		return Interval{}, ErrSyntax
	}
	x := addrInt(a)
	hostBits := uint(128 - bits)
	lo := new(big.Int).Rsh(x, hostBits)
	lo.Lsh(lo, hostBits)
	span := new(big.Int).Lsh(one, hostBits)
	hi := new(big.Int).Add(lo, span)
	hi.Sub(hi, one)
	return Interval{lo, hi}, nil
}

// ParseEntry interprets one pool address entry as the user wrote it.
func ParseEntry(s string) (Set, error) {
	if strings.Contains(s, "-") {
		fs := strings.SplitN(s, "-", 2)
		a, err := netip.ParseAddr(strings.TrimSpace(fs[0]))
		if err != nil {
			return nil, ErrSyntax
		}
		b, err := netip.ParseAddr(strings.TrimSpace(fs[1]))
		if err != nil {
			return nil, ErrSyntax
		}
		if a.Zone() != "" || b.Zone() != "" {
			return nil, ErrSyntax
		}
		if isV4(a) != isV4(b) {
			return nil, ErrMixedFamilies
		}
		lo, hi := addrInt(a), addrInt(b)
		if lo.Cmp(hi) > 0 {
			return nil, ErrInverted
		}
		return Set{{lo, hi}}, nil
	}
	i := strings.LastIndexByte(s, '/')
	if i < 0 {
		return nil, ErrSyntax
	}
	a, err := netip.ParseAddr(s[:i])
	if err != nil || a.Zone() != "" {
		return nil, ErrSyntax
	}
	bits := 0
	if len(s[i+1:]) == 0 || len(s[i+1:]) > 3 {
		return nil, ErrSyntax
	}
	for _, c := range s[i+1:] {
		if c < '0' || c > '9' {
			return nil, ErrSyntax
		}
		bits = bits*10 + int(c-'0')
	}
	iv, err := prefixRange(a, bits)
	if err != nil {
		return nil, err
	}
	return Set{iv}, nil
}

// FromNet interprets a *net.IPNet (as returned by the code under test) with
// uniform 128-bit arithmetic.
func FromNet(n *net.IPNet) (Set, error) {
	if n == nil {
		return nil, errors.New("nil IPNet")
	}
	ones, bits := n.Mask.Size()
	if bits == 0 && ones == 0 {
		return nil, fmt.Errorf("non-canonical mask %v", n.Mask)
	}
	ip16 := n.IP.To16()
	if ip16 == nil {
		return nil, fmt.Errorf("bad IP %v", n.IP)
	}
	if bits == 32 {
		if n.IP.To4() == nil {
			return nil, fmt.Errorf("4-byte mask on IPv6 address %v", n)
		}
		ones += 96
	}
	x := new(big.Int).SetBytes(ip16)
	hostBits := uint(128 - ones)
	lo := new(big.Int).Rsh(x, hostBits)
	lo.Lsh(lo, hostBits)
	hi := new(big.Int).Add(lo, new(big.Int).Lsh(one, hostBits))
	hi.Sub(hi, one)
	return Set{{lo, hi}}, nil
}

func FromNets(ns []*net.IPNet) (Set, error) {
	var out Set
	for _, n := range ns {
		s, err := FromNet(n)
		if err != nil {
			return nil, err
		}
		out = Union(out, s)
	}
	return out, nil
}

// Union returns the normalised union (sorted, merged, adjacent intervals joined).
func Union(a, b Set) Set {
	all := append(append(Set{}, a...), b...)
	sort.Slice(all, func(i, j int) bool { return all[i].Lo.Cmp(all[j].Lo) < 0 })
	var out Set
	for _, iv := range all {
		if n := len(out); n > 0 {
			next := new(big.Int).Add(out[n-1].Hi, one)
			if iv.Lo.Cmp(next) <= 0 {
				if iv.Hi.Cmp(out[n-1].Hi) > 0 {
					out[n-1].Hi = iv.Hi
				}
				continue
			}
		}
		out = append(out, Interval{iv.Lo, iv.Hi})
	}
	return out
}

func Equal(a, b Set) bool {
	a, b = Union(a, nil), Union(b, nil)
	if len(a) != len(b) {
		return false
	}
	for i := range a {
		if a[i].Lo.Cmp(b[i].Lo) != 0 || a[i].Hi.Cmp(b[i].Hi) != 0 {
			return false
		}
	}
	return true
}

func Intersects(a, b Set) bool {
	for _, x := range a {
		for _, y := range b {
			if x.Lo.Cmp(y.Hi) <= 0 && y.Lo.Cmp(x.Hi) <= 0 {
				return true
			}
		}
	}
	return false
}

// Overlapping reports whether the intervals of a (not normalised) overlap each other.
func Overlapping(parts []Set) bool {
	for i := range parts {
		for j := i + 1; j < len(parts); j++ {
			if Intersects(parts[i], parts[j]) {
				return true
			}
		}
	}
	return false
}

func (s Set) ContainsInt(x *big.Int) bool {
	for _, iv := range s {
		if iv.Lo.Cmp(x) <= 0 && x.Cmp(iv.Hi) <= 0 {
			return true
		}
	}
	return false
}

func (s Set) ContainsIP(ip net.IP) bool {
	x := IPInt(ip)
	return x != nil && s.ContainsInt(x)
}

// Subset reports a ⊆ b.
func Subset(a, b Set) bool {
	b = Union(b, nil)
	for _, x := range a {
		ok := false
		for _, y := range b {
			if y.Lo.Cmp(x.Lo) <= 0 && x.Hi.Cmp(y.Hi) <= 0 {
				ok = true
				break
			}
		}
		if !ok {
			return false
		}
	}
	return true
}

// Size returns the number of addresses.
func (s Set) Size() *big.Int {
	n := new(big.Int)
	for _, iv := range Union(s, nil) {
		d := new(big.Int).Sub(iv.Hi, iv.Lo)
		d.Add(d, one)
		n.Add(n, d)
	}
	return n
}

// IsV4 reports whether the whole set lies in the IPv4-mapped block; IsV6 whether none of it does.
func (s Set) IsV4() bool {
	for _, iv := range s {
		if iv.Lo.Cmp(v4lo) < 0 || iv.Hi.Cmp(v4hi) > 0 {
			return false
		}
	}
	return true
}

func (s Set) IsV6() bool {
	for _, iv := range s {
		if iv.Lo.Cmp(v4hi) <= 0 && v4lo.Cmp(iv.Hi) <= 0 {
			return false
		}
	}
	return true
}

// V4Part / V6Part split a set by family.
func (s Set) V4Part() Set {
	var out Set
	for _, iv := range Union(s, nil) {
		lo, hi := iv.Lo, iv.Hi
		if lo.Cmp(v4lo) < 0 {
			lo = v4lo
		}
		if hi.Cmp(v4hi) > 0 {
			hi = v4hi
		}
		if lo.Cmp(hi) <= 0 {
			out = append(out, Interval{lo, hi})
		}
	}
	return out
}

func (s Set) V6Part() Set {
	var out Set
	below := new(big.Int).Sub(v4lo, one)
	above := new(big.Int).Add(v4hi, one)
	for _, iv := range Union(s, nil) {
		if iv.Lo.Cmp(v4lo) < 0 {
			hi := iv.Hi
			if hi.Cmp(below) > 0 {
				hi = below
			}
			out = append(out, Interval{iv.Lo, hi})
		}
		if iv.Hi.Cmp(v4hi) > 0 {
			lo := iv.Lo
			if lo.Cmp(above) < 0 {
				lo = above
			}
			out = append(out, Interval{lo, iv.Hi})
		}
	}
	return out
}

func (s Set) String() string {
	var parts []string
	for _, iv := range Union(s, nil) {
		lo, hi := IntIP(iv.Lo), IntIP(iv.Hi)
		if iv.Lo.Cmp(iv.Hi) == 0 {
			parts = append(parts, lo.String())
		} else {
			parts = append(parts, lo.String()+"-"+hi.String())
		}
	}
	return "{" + strings.Join(parts, ",") + "}"
}

// Each calls f for every address of the set (only for small sets; stops after max).
func (s Set) Each(max int, f func(net.IP)) {
	n := 0
	for _, iv := range Union(s, nil) {
		for x := new(big.Int).Set(iv.Lo); x.Cmp(iv.Hi) <= 0; x.Add(x, one) {
			if n >= max {
				return
			}
			f(IntIP(x))
			n++
		}
	}
}
