//go:build verif

// Package vsync replaces package sync in rewritten files (R-sync). Without a controlled
// scheduler every type behaves exactly like the original (pass-through: race pass, sequential
// harnesses). Under the scheduler, Lock / RLock / Wait are scheduling points whose enabledness is
// computed from the shim's state, so blocking is visible to the deadlock detector. Zero values are
// usable and may be copied before first use, like the originals.
package vsync

import (
	"sync"

	"go.universe.tf/metallb/internal/verifrt"
)

type Locker = sync.Locker

type Mutex struct {
	real sync.Mutex
	held bool
}

func (m *Mutex) Lock() {
	if s := verifrt.CurSched(); s != nil {
		s.Yield(func() bool { return !m.held }, "Mutex.Lock")
		m.held = true
		return
	}
	m.real.Lock()
}

func (m *Mutex) Unlock() {
	if verifrt.CurSched() != nil {
		if !m.held {
			panic("vsync: unlock of unlocked mutex")
		}
		m.held = false
		return
	}
	m.real.Unlock()
}

func (m *Mutex) TryLock() bool {
	if verifrt.CurSched() != nil {
		if m.held {
			return false
		}
		m.held = true
		return true
	}
	return m.real.TryLock()
}

// RWMutex: a write Lock is two steps - request (from then on new read locks are disabled, as in
// the Go runtime, so a recursive read lock behind a waiting writer shows up as a deadlock) and acquire.
type RWMutex struct {
	real          sync.RWMutex
	readers       int
	writer        bool
	writerWaiting int
}

func (m *RWMutex) RLock() {
	if s := verifrt.CurSched(); s != nil {
		s.Yield(func() bool { return !m.writer && m.writerWaiting == 0 }, "RWMutex.RLock")
		m.readers++
		return
	}
	m.real.RLock()
}

func (m *RWMutex) RUnlock() {
	if verifrt.CurSched() != nil {
		if m.readers <= 0 {
			panic("vsync: RUnlock of unlocked RWMutex")
		}
		m.readers--
		return
	}
	m.real.RUnlock()
}

func (m *RWMutex) Lock() {
	if s := verifrt.CurSched(); s != nil {
		s.Yield(nil, "RWMutex.Lock(request)")
		m.writerWaiting++
		s.Yield(func() bool { return !m.writer && m.readers == 0 }, "RWMutex.Lock(acquire)")
		m.writerWaiting--
		m.writer = true
		return
	}
	m.real.Lock()
}

func (m *RWMutex) Unlock() {
	if verifrt.CurSched() != nil {
		if !m.writer {
			panic("vsync: Unlock of unlocked RWMutex")
		}
		m.writer = false
		return
	}
	m.real.Unlock()
}

func (m *RWMutex) RLocker() Locker { return (*rlocker)(m) }

type rlocker RWMutex

func (r *rlocker) Lock()   { (*RWMutex)(r).RLock() }
func (r *rlocker) Unlock() { (*RWMutex)(r).RUnlock() }

type Cond struct {
	L    Locker
	real *sync.Cond
	gen  uint64
}

func NewCond(l Locker) *Cond { return &Cond{L: l, real: sync.NewCond(l)} }

func (c *Cond) Wait() {
	if s := verifrt.CurSched(); s != nil {
		g := c.gen
		c.L.Unlock()
		s.Yield(func() bool { return c.gen != g }, "Cond.Wait")
		c.L.Lock()
		return
	}
	c.real.Wait()
}

func (c *Cond) Broadcast() {
	if verifrt.CurSched() != nil {
		c.gen++
		return
	}
	c.real.Broadcast()
}

func (c *Cond) Signal() {
	if verifrt.CurSched() != nil {
		c.gen++ // wakes every waiter: allowed, waiters re-check their condition
		return
	}
	c.real.Signal()
}

type WaitGroup struct {
	real sync.WaitGroup
	n    int
}

func (w *WaitGroup) Add(d int) {
	if verifrt.CurSched() != nil {
		w.n += d
		return
	}
	w.real.Add(d)
}

func (w *WaitGroup) Done() { w.Add(-1) }

func (w *WaitGroup) Wait() {
	if s := verifrt.CurSched(); s != nil {
		s.Yield(func() bool { return w.n <= 0 }, "WaitGroup.Wait")
		return
	}
	w.real.Wait()
}

type Once struct {
	real sync.Once
	done bool
	m    Mutex
}

func (o *Once) Do(f func()) {
	if verifrt.CurSched() != nil {
		o.m.Lock()
		defer o.m.Unlock()
		if !o.done {
			o.done = true
			f()
		}
		return
	}
	o.real.Do(f)
}

type Map = sync.Map
type Pool = sync.Pool
