//go:build verif

package verifrt

import (
	"fmt"
	"sort"
)

// Chooser owns every environment answer that is not the default one: map
// iteration order, list order, write faults, crash points, timer order. A run
// replays Prefix and then answers 0 (the default) at every later point.
type Chooser struct {
	Prefix []int
	Trace  []int    // choices taken
	Ns     []int    // number of alternatives at each point
	Kinds  []string // kind of each point
	Active map[string]bool
}

var cur *Chooser

func SetChooser(c *Chooser) { cur = c }
func CurChooser() *Chooser  { return cur }

// Choose returns an index in [0,n). Without an attached chooser, or for a kind
// that is not being explored, it is the default answer 0.
func Choose(kind string, n int) int {
	c := cur
	if c == nil || n <= 1 || (c.Active != nil && !c.Active[kind]) {
		return 0
	}
	i := len(c.Trace)
	v := 0
	if i < len(c.Prefix) {
		v = c.Prefix[i]
		if v < 0 || v >= n {
			panic(fmt.Sprintf("verifrt: replay divergence at choice %d (%s): %d not in [0,%d)", i, kind, v, n))
		}
	}
	c.Trace = append(c.Trace, v)
	c.Ns = append(c.Ns, n)
	c.Kinds = append(c.Kinds, kind)
	return v
}

func deviations(t []int) int {
	d := 0
	for _, v := range t {
		if v != 0 {
			d++
		}
	}
	return d
}

// ExploreChoices runs f for every choice vector with at most maxDev non-default
// answers (depth-first, default vector first). f must be deterministic given
// the chooser. Returns the number of runs. stop (may be nil) aborts early.
func ExploreChoices(maxDev int, active []string, f func(c *Chooser), stop func() bool) int {
	runs := 0
	act := map[string]bool{}
	for _, a := range active {
		act[a] = true
	}
	var rec func(prefix []int)
	rec = func(prefix []int) {
		if stop != nil && stop() {
			return
		}
		c := &Chooser{Prefix: prefix, Active: act}
		SetChooser(c)
		f(c)
		SetChooser(nil)
		runs++
		trace, ns := c.Trace, c.Ns
		for i := len(prefix); i < len(trace); i++ {
			if deviations(trace[:i])+1 > maxDev {
				break
			}
			for alt := 1; alt < ns[i]; alt++ {
				np := append(append([]int{}, trace[:i]...), alt)
				rec(np)
			}
		}
	}
	rec(nil)
	return runs
}

// RunWithChoices runs f once under a fixed choice vector (replay).
func RunWithChoices(prefix []int, active []string, f func(c *Chooser)) *Chooser {
	act := map[string]bool{}
	for _, a := range active {
		act[a] = true
	}
	c := &Chooser{Prefix: prefix, Active: act}
	SetChooser(c)
	defer SetChooser(nil)
	f(c)
	return c
}

// ---- owned map iteration order (rewrite R-map) ----

// MapNative makes Keys/Entries return the runtime's own order (pass-through
// mode: race pass, confirmation of order-dependent candidates on the real order).
var MapNative = false

// MapSites counts Keys/Entries calls with >= 2 keys per site (coverage statistics).
var MapSites = map[string]int{}

func lessAny(a, b interface{}) bool {
	switch x := a.(type) {
	case string:
		return x < b.(string)
	case int:
		return x < b.(int)
	case int32:
		return x < b.(int32)
	case int64:
		return x < b.(int64)
	case uint32:
		return x < b.(uint32)
	case uint64:
		return x < b.(uint64)
	case uint16:
		return x < b.(uint16)
	case uint8:
		return x < b.(uint8)
	}
	return fmt.Sprintf("%#v", a) < fmt.Sprintf("%#v", b)
}

func nOrders(n int) int {
	switch {
	case n <= 1:
		return 1
	case n == 2:
		return 2
	case n == 3:
		return 6
	default:
		return n + 1 // rotations + reversal
	}
}

var perms3 = [6][3]int{{0, 1, 2}, {0, 2, 1}, {1, 0, 2}, {1, 2, 0}, {2, 0, 1}, {2, 1, 0}}

func applyOrder[K any](keys []K, c int) []K {
	n := len(keys)
	if c == 0 || n < 2 {
		return keys
	}
	out := make([]K, n)
	switch {
	case n == 2:
		out[0], out[1] = keys[1], keys[0]
	case n == 3:
		for i, j := range perms3[c] {
			out[i] = keys[j]
		}
	case c == n: // reversal
		for i := range keys {
			out[i] = keys[n-1-i]
		}
	default: // rotation by c
		for i := range keys {
			out[i] = keys[(i+c)%n]
		}
	}
	return out
}

// Keys returns the keys of m in the order owned by the harness: sorted by
// default, any explored order when the "maporder" choice kind is active.
func Keys[M ~map[K]V, K comparable, V any](m M, site string) []K {
	keys := make([]K, 0, len(m))
	for k := range m {
		keys = append(keys, k)
	}
	if MapNative || len(keys) < 2 {
		return keys
	}
	sort.Slice(keys, func(i, j int) bool { return lessAny(keys[i], keys[j]) })
	if cur != nil {
		MapSites[site]++
		return applyOrder(keys, Choose("maporder", nOrders(len(keys))))
	}
	return keys
}

type Entry[K comparable, V any] struct {
	K K
	V V
}

// Entries is the snapshot form used when the ranged expression is not a plain
// variable (evaluated once, like the original).
func Entries[M ~map[K]V, K comparable, V any](m M, site string) []Entry[K, V] {
	ks := Keys(m, site)
	out := make([]Entry[K, V], 0, len(ks))
	for _, k := range ks {
		out = append(out, Entry[K, V]{k, m[k]})
	}
	return out
}
