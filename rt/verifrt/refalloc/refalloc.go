//go:build verif

// Package refalloc is the reference model of the allocation group (C01, C02,
// C03, C06, C07, C11). It never chooses addresses: it only judges them, from
// the objects as the user wrote them (IPAddressPool and Namespace resources,
// Service objects), so it cannot share the allocator's bugs.
package refalloc

import (
	"fmt"
	"net"
	"sort"
	"strings"

	metallbv1beta1 "go.universe.tf/metallb/api/v1beta1"
	"go.universe.tf/metallb/internal/verifrt/refcidr"
	v1 "k8s.io/api/core/v1"
	metav1 "k8s.io/apimachinery/pkg/apis/meta/v1"
)

// World is the configuration as written by the user.
type World struct {
	Pools      []metallbv1beta1.IPAddressPool
	Namespaces []v1.Namespace
	sets       map[string]refcidr.Set
}

func (w *World) Pool(name string) *metallbv1beta1.IPAddressPool {
	for i := range w.Pools {
		if w.Pools[i].Name == name {
			return &w.Pools[i]
		}
	}
	return nil
}

func (w *World) Set(pool string) refcidr.Set {
	if w.sets == nil {
		w.sets = map[string]refcidr.Set{}
	}
	if s, ok := w.sets[pool]; ok {
		return s
	}
	var s refcidr.Set
	if p := w.Pool(pool); p != nil {
		for _, e := range p.Spec.Addresses {
			es, err := refcidr.ParseEntry(e)
			if err == nil {
				s = refcidr.Union(s, es)
			}
		}
	}
	w.sets[pool] = s
	return s
}

func Buggy(ip net.IP) bool {
	ip4 := ip.To4()
	return ip4 != nil && (ip4[3] == 0 || ip4[3] == 255)
}

// Usable: ip lies in the pool's written address set and is not an avoided buggy address.
func (w *World) Usable(pool string, ip net.IP) bool {
	p := w.Pool(pool)
	if p == nil || !w.Set(pool).ContainsIP(ip) {
		return false
	}
	return !(p.Spec.AvoidBuggyIPs && Buggy(ip))
}

// Owners returns the pools whose written address set contains ip.
func (w *World) Owners(ip net.IP) []string {
	var out []string
	for _, p := range w.Pools {
		if w.Set(p.Name).ContainsIP(ip) {
			out = append(out, p.Name)
		}
	}
	sort.Strings(out)
	return out
}

func matchLabels(sel metav1.LabelSelector, lbl map[string]string) bool {
	for k, v := range sel.MatchLabels {
		if lbl[k] != v {
			return false
		}
	}
	for _, e := range sel.MatchExpressions {
		val, has := lbl[e.Key]
		in := false
		for _, x := range e.Values {
			if x == val {
				in = true
			}
		}
		switch e.Operator {
		case metav1.LabelSelectorOpIn:
			if !has || !in {
				return false
			}
		case metav1.LabelSelectorOpNotIn:
			if has && in {
				return false
			}
		case metav1.LabelSelectorOpExists:
			if !has {
				return false
			}
		case metav1.LabelSelectorOpDoesNotExist:
			if has {
				return false
			}
		}
	}
	return true
}

// Pinned: the pool restricts its scope (has a serviceAllocation stanza).
func Pinned(p *metallbv1beta1.IPAddressPool) bool { return p.Spec.AllocateTo != nil }

func AutoAssign(p *metallbv1beta1.IPAddressPool) bool {
	return p.Spec.AutoAssign == nil || *p.Spec.AutoAssign
}

func Priority(p *metallbv1beta1.IPAddressPool) int {
	if p.Spec.AllocateTo == nil {
		return 0
	}
	return p.Spec.AllocateTo.Priority
}

// Admits: the pool's namespace / service selectors admit the service (documented
// semantics: namespace listed or matched by a namespace selector - when either is
// given - and matched by a service selector - when given).
func (w *World) Admits(pool string, svc *v1.Service) bool {
	p := w.Pool(pool)
	if p == nil {
		return false
	}
	a := p.Spec.AllocateTo
	if a == nil {
		return true
	}
	if len(a.Namespaces) > 0 || len(a.NamespaceSelectors) > 0 {
		ok := false
		for _, n := range a.Namespaces {
			if n == svc.Namespace {
				ok = true
			}
		}
		for _, ns := range w.Namespaces {
			if ns.Name != svc.Namespace {
				continue
			}
			for _, sel := range a.NamespaceSelectors {
				if matchLabels(sel, ns.Labels) {
					ok = true
				}
			}
		}
		if !ok {
			return false
		}
	}
	if len(a.ServiceSelectors) > 0 {
		ok := false
		for _, sel := range a.ServiceSelectors {
			if matchLabels(sel, svc.Labels) {
				ok = true
			}
		}
		if !ok {
			return false
		}
	}
	return true
}

// ---- services ----

const (
	annPool        = "metallb.io/address-pool"
	annPoolOld     = "metallb.universe.tf/address-pool"
	annIPs         = "metallb.io/loadBalancerIPs"
	annIPsOld      = "metallb.universe.tf/loadBalancerIPs"
	annShare       = "metallb.io/allow-shared-ip"
	annShareOld    = "metallb.universe.tf/allow-shared-ip"
	AnnFromPool    = "metallb.io/ip-allocated-from-pool"
	AnnFromPoolOld = "metallb.universe.tf/ip-allocated-from-pool"
)

func ann(svc *v1.Service, stable, old string) string {
	if v, ok := svc.Annotations[stable]; ok {
		return v
	}
	return svc.Annotations[old]
}

func SharingKey(svc *v1.Service) string { return ann(svc, annShare, annShareOld) }

type portKey struct {
	proto string
	port  int32
}

// ShareCompatible is the statement of C01: equal non-empty sharing key, disjoint
// (protocol, port) sets, both Cluster policy or identical selectors.
func ShareCompatible(a, b *v1.Service) (bool, string) {
	ka, kb := SharingKey(a), SharingKey(b)
	if ka == "" || kb == "" {
		return false, "missing-sharing-key"
	}
	if ka != kb {
		return false, "different-sharing-keys"
	}
	ports := map[portKey]bool{}
	for _, p := range a.Spec.Ports {
		ports[portKey{string(p.Protocol), p.Port}] = true
	}
	for _, p := range b.Spec.Ports {
		if ports[portKey{string(p.Protocol), p.Port}] {
			return false, "overlapping-ports"
		}
	}
	la := a.Spec.ExternalTrafficPolicy == v1.ServiceExternalTrafficPolicyTypeLocal
	lb := b.Spec.ExternalTrafficPolicy == v1.ServiceExternalTrafficPolicyTypeLocal
	if !la && !lb {
		return true, ""
	}
	if len(a.Spec.Selector) != len(b.Spec.Selector) {
		return false, policyPair(la, lb, a, b)
	}
	for k, v := range a.Spec.Selector {
		if bv, ok := b.Spec.Selector[k]; !ok || bv != v {
			return false, policyPair(la, lb, a, b)
		}
	}
	return true, ""
}

func policyPair(la, lb bool, a, b *v1.Service) string {
	desc := func(l bool, s *v1.Service) string {
		if !l {
			return "cluster"
		}
		if len(s.Spec.Selector) == 0 {
			return "local-empty-selector"
		}
		return "local"
	}
	x := []string{desc(la, a), desc(lb, b)}
	sort.Strings(x)
	return "policy=" + strings.Join(x, "|") + "-different-selectors"
}

// Families of the service from its cluster IPs: need4, need6, and whether one family suffices.
func Families(svc *v1.Service) (need4, need6, preferDual, ok bool) {
	ips := svc.Spec.ClusterIPs
	if len(ips) == 0 && svc.Spec.ClusterIP != "" {
		ips = []string{svc.Spec.ClusterIP}
	}
	if len(ips) == 0 || len(ips) > 2 {
		return false, false, false, false
	}
	for _, s := range ips {
		ip := net.ParseIP(s)
		if ip == nil {
			return false, false, false, false
		}
		if ip.To4() != nil {
			if need4 {
				return false, false, false, false
			}
			need4 = true
		} else {
			if need6 {
				return false, false, false, false
			}
			need6 = true
		}
	}
	if svc.Spec.IPFamilyPolicy != nil && *svc.Spec.IPFamilyPolicy == v1.IPFamilyPolicyPreferDualStack && need4 && need6 {
		preferDual = true
	}
	if svc.Spec.IPFamilyPolicy != nil && *svc.Spec.IPFamilyPolicy == v1.IPFamilyPolicyRequireDualStack && !(need4 && need6) {
		return need4, need6, false, false
	}
	return need4, need6, preferDual, true
}

type Request struct {
	Mode      string // auto | ips | pool | ips+pool | malformed
	IPs       []net.IP
	Pool      string
	Malformed string
}

func RequestOf(svc *v1.Service) Request {
	r := Request{Pool: ann(svc, annPool, annPoolOld)}
	ipsAnn := ann(svc, annIPs, annIPsOld)
	switch {
	case ipsAnn != "" && svc.Spec.LoadBalancerIP != "":
		r.Mode, r.Malformed = "malformed", "both annotation and spec.loadBalancerIP"
		return r
	case ipsAnn != "":
		for _, s := range strings.Split(ipsAnn, ",") {
			ip := net.ParseIP(strings.TrimSpace(s))
			if ip == nil {
				r.Mode, r.Malformed = "malformed", "unparsable address"
				return r
			}
			r.IPs = append(r.IPs, ip)
		}
	case svc.Spec.LoadBalancerIP != "":
		ip := net.ParseIP(svc.Spec.LoadBalancerIP)
		if ip == nil {
			r.Mode, r.Malformed = "malformed", "unparsable address"
			return r
		}
		r.IPs = []net.IP{ip}
	}
	switch {
	case len(r.IPs) > 0 && r.Pool != "":
		r.Mode = "ips+pool"
	case len(r.IPs) > 0:
		r.Mode = "ips"
	case r.Pool != "":
		r.Mode = "pool"
	default:
		r.Mode = "auto"
	}
	return r
}

// Holdings: address -> keys of the services holding it.
type Holdings map[string][]string

// SamePolicyClass: both Cluster, or both Local. The liveness oracles (C07, "could give") only count an
// address as shareable when, in addition to ShareCompatible, the two services use the same traffic
// policy: a Cluster and a Local service with identical selectors may share by the letter of C01, but
// the statement of C07 does not oblige the allocator to co-locate them (DESIGN F4).
func SamePolicyClass(a, b *v1.Service) bool {
	return (a.Spec.ExternalTrafficPolicy == v1.ServiceExternalTrafficPolicyTypeLocal) == (b.Spec.ExternalTrafficPolicy == v1.ServiceExternalTrafficPolicyTypeLocal)
}

// Placeable: svc may be put on ip given the other holders (free, or share-compatible with every holder).
func Placeable(svcKey string, svc *v1.Service, ip net.IP, h Holdings, svcs map[string]*v1.Service) bool {
	for _, other := range h[ip.String()] {
		if other == svcKey {
			continue
		}
		o := svcs[other]
		if o == nil {
			return false
		}
		if ok, _ := ShareCompatible(svc, o); !ok || !SamePolicyClass(svc, o) {
			return false
		}
	}
	return true
}

// CouldGive reports whether the pool has a usable, placeable address of the family for svc.
func (w *World) CouldGive(pool string, v6 bool, svcKey string, svc *v1.Service, h Holdings, svcs map[string]*v1.Service) bool {
	set := w.Set(pool)
	if v6 {
		set = set.V6Part()
	} else {
		set = set.V4Part()
	}
	found := false
	n := 0
	set.Each(2048, func(ip net.IP) {
		n++
		if found {
			return
		}
		if w.Usable(pool, ip) && Placeable(svcKey, svc, ip, h, svcs) {
			found = true
		}
	})
	if !found && n >= 2048 {
		return true // larger than anything the universes can fill
	}
	return found
}

// PoolCanServe: the pool could give svc an acceptable assignment (complete for the family policy,
// or one family under PreferDualStack); complete reports whether a complete one is possible.
func (w *World) PoolCanServe(pool string, svcKey string, svc *v1.Service, h Holdings, svcs map[string]*v1.Service) (acceptable, complete bool) {
	n4, n6, prefer, ok := Families(svc)
	if !ok {
		return false, false
	}
	g4 := !n4 || w.CouldGive(pool, false, svcKey, svc, h, svcs)
	g6 := !n6 || w.CouldGive(pool, true, svcKey, svc, h, svcs)
	complete = g4 && g6
	acceptable = complete
	if prefer && ((n4 && w.CouldGive(pool, false, svcKey, svc, h, svcs)) || (n6 && w.CouldGive(pool, true, svcKey, svc, h, svcs))) {
		acceptable = true
	}
	return
}

// AdmissibleExists is the C07 oracle: with the other services' holdings fixed, is there an
// admissible assignment for svc under its request mode?
func (w *World) AdmissibleExists(svcKey string, svc *v1.Service, h Holdings, svcs map[string]*v1.Service) (bool, string) {
	if svc.Spec.Type != v1.ServiceTypeLoadBalancer {
		return false, "not-loadbalancer"
	}
	n4, n6, _, ok := Families(svc)
	if !ok {
		return false, "invalid-cluster-ips"
	}
	r := RequestOf(svc)
	switch r.Mode {
	case "malformed":
		return false, "malformed-request"
	case "ips", "ips+pool":
		// families must match exactly, all addresses usable in ONE admitting pool, each placeable
		got4, got6 := false, false
		for _, ip := range r.IPs {
			if ip.To4() != nil {
				got4 = true
			} else {
				got6 = true
			}
		}
		if len(r.IPs) > 2 || got4 != n4 || got6 != n6 || (len(r.IPs) == 2 && !(got4 && got6)) {
			return false, "request-family-mismatch"
		}
		for _, p := range w.Pools {
			if r.Pool != "" && p.Name != r.Pool {
				continue
			}
			if !w.Admits(p.Name, svc) {
				continue
			}
			all := true
			for _, ip := range r.IPs {
				if !w.Usable(p.Name, ip) || !Placeable(svcKey, svc, ip, h, svcs) {
					all = false
				}
			}
			if all {
				return true, "request=ips"
			}
		}
		return false, "requested-ips-unavailable"
	case "pool":
		if w.Pool(r.Pool) == nil || !w.Admits(r.Pool, svc) {
			return false, "requested-pool-missing-or-not-admitting"
		}
		acc, _ := w.PoolCanServe(r.Pool, svcKey, svc, h, svcs)
		return acc, "request=pool"
	default:
		for i := range w.Pools {
			p := &w.Pools[i]
			if !AutoAssign(p) || !w.Admits(p.Name, svc) {
				continue
			}
			if acc, _ := w.PoolCanServe(p.Name, svcKey, svc, h, svcs); acc {
				return true, "request=auto"
			}
		}
		return false, "no-pool-can-serve"
	}
}

// JudgeAssignment checks the C02 clauses that do not depend on the search order for one
// service holding ips (recorded pool annotation = annPoolName; "" when not checked).
// It returns a list of violated clause names.
func (w *World) JudgeAssignment(svc *v1.Service, ips []net.IP, recordedPool string, checkAnnotation bool) []string {
	var bad []string
	if len(ips) == 0 {
		return nil
	}
	owner := ""
	for _, ip := range ips {
		owners := w.Owners(ip)
		switch {
		case len(owners) == 0:
			bad = append(bad, "address-in-no-pool")
			continue
		case len(owners) > 1:
			bad = append(bad, "address-in-several-pools")
		}
		if owner == "" {
			owner = owners[0]
		} else if owner != owners[0] {
			bad = append(bad, "addresses-from-different-pools")
		}
		if p := w.Pool(owners[0]); p != nil && p.Spec.AvoidBuggyIPs && Buggy(ip) {
			bad = append(bad, "buggy-address-from-avoiding-pool")
		}
	}
	if owner != "" && !w.Admits(owner, svc) {
		bad = append(bad, "pool-does-not-admit-service")
	}
	n4, n6, prefer, ok := Families(svc)
	if ok {
		g4, g6 := 0, 0
		for _, ip := range ips {
			if ip.To4() != nil {
				g4++
			} else {
				g6++
			}
		}
		famOK := g4 <= 1 && g6 <= 1 && (g4 == 0 || n4) && (g6 == 0 || n6)
		if famOK {
			if prefer {
				famOK = g4+g6 >= 1
			} else {
				famOK = (g4 == 1) == n4 && (g6 == 1) == n6
			}
		}
		if !famOK {
			bad = append(bad, "families-do-not-match-cluster-ips")
		}
	}
	r := RequestOf(svc)
	switch r.Mode {
	case "ips", "ips+pool":
		if !sameIPSet(ips, r.IPs) {
			bad = append(bad, "holds-other-than-requested-addresses")
		}
		if r.Mode == "ips+pool" && owner != "" && owner != r.Pool {
			bad = append(bad, "address-not-from-requested-pool")
		}
	case "pool":
		if owner != "" && owner != r.Pool {
			bad = append(bad, "address-not-from-requested-pool")
		}
	case "auto":
		if owner != "" {
			if p := w.Pool(owner); p != nil && !AutoAssign(p) {
				// an automatic allocation must not draw from such a pool; a service may still legitimately
				// hold such an address if it got it through an earlier explicit request - the caller
				// only reports this clause on allocation edges.
				bad = append(bad, "auto-from-non-autoassign-pool")
			}
		}
	}
	if checkAnnotation && owner != "" && recordedPool != owner {
		bad = append(bad, "pool-annotation-names-another-pool")
	}
	return bad
}

func sameIPSet(a, b []net.IP) bool {
	if len(a) != len(b) {
		return false
	}
	as, bs := []string{}, []string{}
	for _, x := range a {
		as = append(as, x.String())
	}
	for _, x := range b {
		bs = append(bs, x.String())
	}
	sort.Strings(as)
	sort.Strings(bs)
	return fmt.Sprint(as) == fmt.Sprint(bs)
}

// Capacity returns the number of usable IPv4 / IPv6 addresses of a pool, saturated at max.
func (w *World) Capacity(pool string, max int64) (c4, c6 int64) {
	p := w.Pool(pool)
	if p == nil {
		return 0, 0
	}
	s := w.Set(pool)
	sat := func(x interface{ IsInt64() bool; Int64() int64 }) int64 {
		if !x.IsInt64() || x.Int64() > max {
			return max
		}
		return x.Int64()
	}
	v4 := s.V4Part()
	c4 = sat(v4.Size())
	if p.Spec.AvoidBuggyIPs && c4 < max {
		// subtract .0 and .255 addresses inside the set
		var n int64
		for _, iv := range v4 {
			lo := iv.Lo.Uint64() & 0xffffffff
			hi := iv.Hi.Uint64() & 0xffffffff
			// count x in [lo,hi] with x%256 in {0,255}
			count := func(upto uint64) int64 { // numbers in [0,upto] ending in 0 or 255
				return int64(upto/256)*2 + 1 + func() int64 {
					if upto%256 == 255 {
						return 1
					}
					return 0
				}()
			}
			n += count(hi)
			if lo > 0 {
				n -= count(lo - 1)
			}
		}
		c4 -= n
	}
	c6 = sat(s.V6Part().Size())
	return
}
