//go:build verif

package verifrt

import (
	"fmt"
	"strings"
	"time"
)

// Sched is a cooperative scheduler: exactly one registered goroutine ("thread") runs at a
// time. A thread announces its next synchronisation operation before doing it (Yield with an
// enabledness predicate); the driver evaluates the predicates while every thread is parked,
// picks the next thread (replay prefix, else the default: keep running the current thread, else
// the lowest id) and records the choice. Stateless depth-first exploration of schedules with
// preemption bounding is in Explore.
type Sched struct {
	Prefix  []int
	Trace   []int  // choice taken at each scheduling point
	NEn     []int  // number of enabled threads at each point
	CurEn   []bool // whether the previously running thread was still enabled at that point
	Names   []string
	Horizon int

	Deadlock   bool
	HorizonHit bool
	Blocked    []string // descriptions of the blocked non-daemon threads at a deadlock
	Daemon     map[string]bool
	Panic      string

	threads []*schedThread
	cur     *schedThread
	yieldCh chan *schedThread
	steps   int
	aborting bool
	// Log, when non-nil, receives one line per scheduling decision (replay artefacts).
	Log *[]string
}

type schedThread struct {
	id     int
	name   string
	resume chan struct{}
	en     func() bool
	what   string
	done   bool
	daemon bool
}

var curSched *Sched

// CurSched returns the scheduler controlling the current execution, or nil (pass-through mode).
func CurSched() *Sched { return curSched }

func (s *Sched) spawn(name string, f func()) {
	t := &schedThread{id: len(s.threads), name: name, resume: make(chan struct{}), daemon: s.Daemon[name], what: "start"}
	s.threads = append(s.threads, t)
	go func() {
		<-t.resume
		defer func() {
			if r := recover(); r != nil && !s.aborting {
				s.Panic = fmt.Sprintf("thread %s: %v", t.name, r)
			}
			t.done = true
			s.yieldCh <- t
		}()
		if s.aborting {
			return
		}
		f()
	}()
}

type schedAbort struct{}

// Yield parks the running thread until the driver resumes it; en == nil means always enabled.
func (s *Sched) Yield(en func() bool, what string) {
	t := s.cur
	t.en, t.what = en, what
	s.yieldCh <- t
	<-t.resume
	if s.aborting {
		panic(schedAbort{})
	}
}

// abortAll unwinds every thread that is still parked, so that no goroutine outlives the execution.
func (s *Sched) abortAll() {
	s.aborting = true
	for _, t := range s.threads {
		for !t.done {
			s.cur = t
			t.resume <- struct{}{}
			<-s.yieldCh
		}
	}
}

// Run executes main as thread 0 under this scheduler until no thread is enabled.
func (s *Sched) Run(main func()) {
	if s.Horizon == 0 {
		s.Horizon = 20000
	}
	s.yieldCh = make(chan *schedThread)
	curSched = s
	defer func() {
		s.abortAll()
		curSched = nil
	}()
	s.spawn("main", main)
	s.cur = s.threads[0]
	s.cur.resume <- struct{}{}
	for {
		<-s.yieldCh // the running thread parked or finished
		if s.Panic != "" {
			return
		}
		var enabled []*schedThread
		curEnabled := false
		if !s.cur.done && (s.cur.en == nil || s.cur.en()) {
			enabled = append(enabled, s.cur)
			curEnabled = true
		}
		for _, t := range s.threads {
			if t == s.cur || t.done {
				continue
			}
			if t.en == nil || t.en() {
				enabled = append(enabled, t)
			}
		}
		if len(enabled) == 0 {
			for _, t := range s.threads {
				if !t.done && !t.daemon {
					s.Deadlock = true
					s.Blocked = append(s.Blocked, t.name+" blocked in "+t.what)
				}
			}
			return
		}
		s.steps++
		if s.steps > s.Horizon {
			s.HorizonHit = true
			return
		}
		choice := 0
		if len(enabled) > 1 {
			i := len(s.Trace)
			if i < len(s.Prefix) {
				choice = s.Prefix[i]
				if choice < 0 || choice >= len(enabled) {
					panic(fmt.Sprintf("verifrt.Sched: replay divergence at point %d: choice %d of %d enabled", i, choice, len(enabled)))
				}
			}
			s.Trace = append(s.Trace, choice)
			s.NEn = append(s.NEn, len(enabled))
			s.CurEn = append(s.CurEn, curEnabled)
			s.Names = append(s.Names, enabled[choice].name+":"+enabled[choice].what)
		}
		if s.Log != nil {
			*s.Log = append(*s.Log, fmt.Sprintf("%s:%s", enabled[choice].name, enabled[choice].what))
		}
		s.cur = enabled[choice]
		s.cur.resume <- struct{}{}
	}
}

func (s *Sched) preemptions(upto int) int {
	n := 0
	for i := 0; i < upto && i < len(s.Trace); i++ {
		if s.CurEn[i] && s.Trace[i] != 0 {
			n++
		}
	}
	return n
}

// Describe renders the schedule as the sequence of chosen threads at the points where a choice existed.
// CurName is the name of the thread that is running now ("" outside a controlled execution).
func (s *Sched) CurName() string {
	if s == nil || s.cur == nil {
		return ""
	}
	return s.cur.name
}

func (s *Sched) Describe() string { return strings.Join(s.Names, " ; ") }

// ExploreStats summarises an exploration.
type ExploreStats struct {
	Executions int64
	MaxPoints  int
	Cut        bool
}

// Explore runs body under fresh schedulers for every schedule with at most bound preemptions
// (depth-first, default schedule first). body builds the system and returns when its main thread
// is done; check is called after each execution with the finished scheduler. shardOK(k) decides
// whether the k-th subtree below the root belongs to this process.
func Explore(bound int, deadline time.Time, mk func() *Sched, body func(s *Sched), check func(s *Sched), shardOK func(k int) bool) ExploreStats {
	var st ExploreStats
	sub := 0
	var rec func(prefix []int, depth int)
	rec = func(prefix []int, depth int) {
		if st.Cut {
			return
		}
		if !deadline.IsZero() && time.Now().After(deadline) {
			st.Cut = true
			return
		}
		s := mk()
		s.Prefix = prefix
		s.Run(func() { body(s) })
		st.Executions++
		if len(s.Trace) > st.MaxPoints {
			st.MaxPoints = len(s.Trace)
		}
		check(s)
		for i := len(prefix); i < len(s.Trace); i++ {
			cost := s.preemptions(i)
			if s.CurEn[i] {
				cost++
			}
			if cost > bound {
				continue
			}
			for alt := 1; alt < s.NEn[i]; alt++ {
				if depth == 0 {
					sub++
					if shardOK != nil && !shardOK(sub) {
						continue
					}
				}
				np := append(append(make([]int, 0, i+1), s.Trace[:i]...), alt)
				rec(np, depth+1)
			}
		}
	}
	rec(nil, 0)
	return st
}

// ChanSend replaces `ch <- v` in files rewritten with R-chan: under the controlled scheduler the send is a
// scheduling point that is enabled while the channel's buffer has room (harnesses give such channels a buffer; an
// unbuffered channel without a scheduled receiver shows up as a deadlock); otherwise it is the plain send.
func ChanSend[T any](ch chan<- T, v T, site string) {
	if s := CurSched(); s != nil {
		s.Yield(func() bool { return len(ch) < cap(ch) }, "chan send "+site)
	}
	ch <- v
}
