//go:build verif

// Package frrinterp parses the FRR configuration text MetalLB generates and
// interprets it with FRR's documented semantics for prefix-lists (per address
// family namespace, first matching sequence decides), route-maps (sequence
// order, match ... prefix-list, set, on-match next, implicit deny) and router
// bgp blocks (network statements, neighbor parameters, per-family activation
// and route-map binding). A line inside a route-map, prefix-list or
// address-family context that it cannot interpret is a hard error - never
// silently ignored. Unknown global lines are ignored.
package frrinterp

import (
	"fmt"
	"sort"
	"strconv"
	"strings"
)

type PLEntry struct {
	Seq    int
	Permit bool
	Any    bool
	Prefix string
}

type RMEntry struct {
	Seq        int
	Permit     bool
	MatchAFI   string // "ip" | "ipv6" | "" (no match clause)
	MatchPL    string
	SetLP      *uint32
	SetComm    []string
	SetLarge   []string
	CommAdditive  bool
	LargeAdditive bool
	Continue   bool
}

type Neighbor struct {
	ID        string // address or interface name as written
	Interface bool
	RemoteAS  string
	Props     map[string]string // port, timers, timers-connect, password, update-source, ebgp-multihop, graceful-restart, bfd, bfd-profile, disable-connected-check
	Activated map[string]bool   // afi ("ipv4"/"ipv6") -> activated
	In        map[string]string // afi -> route-map name
	Out       map[string]string
}

type Router struct {
	ASN       string
	VRF       string
	RouterID  string
	Neighbors map[string]*Neighbor
	Networks  map[string][]string // afi -> prefixes
}

type Config struct {
	Routers     []*Router
	PrefixLists map[string]map[string][]PLEntry // "ip"/"ipv6" -> name -> entries
	RouteMaps   map[string][]*RMEntry
	BFDProfiles []string
}

func Parse(text string) (*Config, error) {
	c := &Config{PrefixLists: map[string]map[string][]PLEntry{"ip": {}, "ipv6": {}}, RouteMaps: map[string][]*RMEntry{}}
	var curRM *RMEntry
	var curRouter *Router
	curAF := ""
	inBFD := false
	lines := strings.Split(text, "\n")
	for ln, raw := range lines {
		line := strings.TrimSpace(raw)
		if line == "" || strings.HasPrefix(line, "!") {
			continue
		}
		f := strings.Fields(line)
		indented := strings.HasPrefix(raw, " ") || strings.HasPrefix(raw, "\t")
		errf := func(format string, a ...interface{}) error {
			return fmt.Errorf("frrinterp: line %d %q: %s", ln+1, line, fmt.Sprintf(format, a...))
		}
		if !indented {
			curRM, curRouter, curAF, inBFD = nil, nil, "", false
		}
		switch {
		case !indented && f[0] == "route-map":
			if len(f) != 4 || (f[2] != "permit" && f[2] != "deny") {
				return nil, errf("bad route-map header")
			}
			seq, err := strconv.Atoi(f[3])
			if err != nil {
				return nil, errf("bad sequence")
			}
			curRM = &RMEntry{Seq: seq, Permit: f[2] == "permit"}
			c.RouteMaps[f[1]] = append(c.RouteMaps[f[1]], curRM)
		case !indented && (f[0] == "ip" || f[0] == "ipv6") && len(f) > 1 && f[1] == "prefix-list":
			// ip prefix-list NAME seq N permit P | deny any
			if len(f) != 7 || f[3] != "seq" {
				return nil, errf("bad prefix-list line")
			}
			seq, err := strconv.Atoi(f[4])
			if err != nil {
				return nil, errf("bad sequence")
			}
			e := PLEntry{Seq: seq}
			switch f[5] {
			case "permit":
				e.Permit = true
			case "deny":
			default:
				return nil, errf("bad action")
			}
			if f[6] == "any" {
				e.Any = true
			} else {
				e.Prefix = f[6]
			}
			c.PrefixLists[f[0]][f[2]] = append(c.PrefixLists[f[0]][f[2]], e)
		case !indented && f[0] == "router" && len(f) >= 3 && f[1] == "bgp":
			curRouter = &Router{ASN: f[2], Neighbors: map[string]*Neighbor{}, Networks: map[string][]string{}}
			if len(f) == 5 && f[3] == "vrf" {
				curRouter.VRF = f[4]
			} else if len(f) != 3 {
				return nil, errf("bad router line")
			}
			c.Routers = append(c.Routers, curRouter)
		case !indented && f[0] == "bfd":
			inBFD = true
		case !indented:
			// unknown global line: ignored
		case curRM != nil:
			switch {
			case f[0] == "match" && len(f) == 5 && (f[1] == "ip" || f[1] == "ipv6") && f[2] == "address" && f[3] == "prefix-list":
				if curRM.MatchPL != "" {
					return nil, errf("second match clause")
				}
				curRM.MatchAFI, curRM.MatchPL = f[1], f[4]
			case f[0] == "set" && len(f) == 3 && f[1] == "local-preference":
				v, err := strconv.ParseUint(f[2], 10, 32)
				if err != nil {
					return nil, errf("bad local-preference")
				}
				lp := uint32(v)
				curRM.SetLP = &lp
			case f[0] == "set" && f[1] == "community" && len(f) >= 3:
				vals := f[2:]
				if vals[len(vals)-1] == "additive" {
					curRM.CommAdditive = true
					vals = vals[:len(vals)-1]
				}
				curRM.SetComm = append(curRM.SetComm, vals...)
			case f[0] == "set" && f[1] == "large-community" && len(f) >= 3:
				vals := f[2:]
				if vals[len(vals)-1] == "additive" {
					curRM.LargeAdditive = true
					vals = vals[:len(vals)-1]
				}
				curRM.SetLarge = append(curRM.SetLarge, vals...)
			case line == "on-match next":
				curRM.Continue = true
			default:
				return nil, errf("uninterpretable line inside a route-map")
			}
		case curRouter != nil:
			switch {
			case f[0] == "address-family" && len(f) == 3 && f[2] == "unicast" && (f[1] == "ipv4" || f[1] == "ipv6"):
				curAF = f[1]
			case line == "exit-address-family":
				curAF = ""
			case curAF != "":
				switch {
				case f[0] == "network" && len(f) == 2:
					curRouter.Networks[curAF] = append(curRouter.Networks[curAF], f[1])
				case f[0] == "neighbor" && len(f) == 3 && f[2] == "activate":
					n := curRouter.Neighbors[f[1]]
					if n == nil {
						return nil, errf("activation of an undeclared neighbor")
					}
					n.Activated[curAF] = true
				case f[0] == "neighbor" && len(f) == 5 && f[2] == "route-map" && (f[4] == "in" || f[4] == "out"):
					n := curRouter.Neighbors[f[1]]
					if n == nil {
						return nil, errf("route-map binding of an undeclared neighbor")
					}
					if f[4] == "in" {
						n.In[curAF] = f[3]
					} else {
						n.Out[curAF] = f[3]
					}
				default:
					return nil, errf("uninterpretable line inside an address-family")
				}
			case f[0] == "neighbor" && len(f) >= 3:
				id := f[1]
				switch {
				case len(f) == 4 && f[2] == "remote-as":
					curRouter.Neighbors[id] = &Neighbor{ID: id, RemoteAS: f[3], Props: map[string]string{}, Activated: map[string]bool{}, In: map[string]string{}, Out: map[string]string{}}
				case len(f) == 5 && f[2] == "interface" && f[3] == "remote-as":
					curRouter.Neighbors[id] = &Neighbor{ID: id, Interface: true, RemoteAS: f[4], Props: map[string]string{}, Activated: map[string]bool{}, In: map[string]string{}, Out: map[string]string{}}
				default:
					n := curRouter.Neighbors[id]
					if n == nil {
						return nil, errf("parameter for an undeclared neighbor")
					}
					key := f[2]
					val := strings.Join(f[3:], " ")
					if key == "timers" && len(f) > 3 && f[3] == "connect" {
						key, val = "timers-connect", strings.Join(f[4:], " ")
					}
					if key == "bfd" && len(f) > 3 && f[3] == "profile" {
						key, val = "bfd-profile", strings.Join(f[4:], " ")
					}
					if val == "" {
						val = "true"
					}
					n.Props[key] = val
				}
			case f[0] == "bgp" && len(f) == 3 && f[1] == "router-id":
				curRouter.RouterID = f[2]
			case f[0] == "no" || f[0] == "bgp":
				// global bgp knobs
			default:
				return nil, errf("uninterpretable line inside router bgp")
			}
		case inBFD:
			if f[0] == "profile" && len(f) == 2 {
				c.BFDProfiles = append(c.BFDProfiles, f[1])
			}
		default:
			// indented line after an unknown global line (extra config): ignored
		}
	}
	return c, nil
}

// plMatch evaluates a prefix-list: first matching sequence decides; exact prefix match (no le/ge).
func (c *Config) plMatch(afi, name, prefix string) (permit bool, defined bool) {
	entries, ok := c.PrefixLists[afi][name]
	if !ok {
		return false, false
	}
	es := append([]PLEntry{}, entries...)
	sort.SliceStable(es, func(i, j int) bool { return es[i].Seq < es[j].Seq })
	for _, e := range es {
		if e.Any || e.Prefix == prefix {
			return e.Permit, true
		}
	}
	return false, true
}

type Result struct {
	Permitted  bool
	LocalPref  *uint32
	Comms      []string
	Large      []string
	Undefined  []string // prefix-lists referenced but not defined in the needed namespace
	NonAdditive []string
}

// EvalRouteMap applies a route-map to a route of the given family ("ipv4"/"ipv6").
func (c *Config) EvalRouteMap(name, family, prefix string) Result {
	var r Result
	entries, ok := c.RouteMaps[name]
	if !ok {
		r.Undefined = append(r.Undefined, "route-map "+name)
		return r
	}
	es := append([]*RMEntry{}, entries...)
	sort.SliceStable(es, func(i, j int) bool { return es[i].Seq < es[j].Seq })
	comms, large := map[string]bool{}, map[string]bool{}
	routeAFI := "ip"
	if family == "ipv6" {
		routeAFI = "ipv6"
	}
	for _, e := range es {
		matched := true
		if e.MatchPL != "" {
			if e.MatchAFI != routeAFI {
				matched = false // "match ip address" never matches an IPv6 route and vice versa
			} else {
				permit, defined := c.plMatch(e.MatchAFI, e.MatchPL, prefix)
				if !defined {
					r.Undefined = append(r.Undefined, e.MatchAFI+" prefix-list "+e.MatchPL)
				}
				matched = permit
			}
		}
		if !matched {
			continue
		}
		if !e.Permit {
			r.Permitted = false
			return r
		}
		r.Permitted = true
		if e.SetLP != nil {
			r.LocalPref = e.SetLP
		}
		if len(e.SetComm) > 0 {
			if !e.CommAdditive {
				comms = map[string]bool{}
				r.NonAdditive = append(r.NonAdditive, "community")
			}
			for _, x := range e.SetComm {
				comms[x] = true
			}
		}
		if len(e.SetLarge) > 0 {
			if !e.LargeAdditive {
				large = map[string]bool{}
				r.NonAdditive = append(r.NonAdditive, "large-community")
			}
			for _, x := range e.SetLarge {
				large[x] = true
			}
		}
		if !e.Continue {
			break
		}
	}
	if !r.Permitted {
		return Result{Undefined: r.Undefined}
	}
	for x := range comms {
		r.Comms = append(r.Comms, x)
	}
	for x := range large {
		r.Large = append(r.Large, x)
	}
	sort.Strings(r.Comms)
	sort.Strings(r.Large)
	return r
}
