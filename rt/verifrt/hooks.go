//go:build verif

package verifrt

import (
	"context"
	"net"
)

// HookDialMD5 replaces the OS boundary of the native BGP session (rewrite R-hook on dialMD5).
var HookDialMD5 func(ctx context.Context, addr string, srcAddr net.IP, password string) (net.Conn, error)
