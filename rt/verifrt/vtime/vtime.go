//go:build verif

// Package vtime is the time seam (rewrite R-time): with no hook installed every
// function behaves exactly like package time (pass-through mode).
package vtime

import "time"

var (
	AfterHook     func(d time.Duration) <-chan time.Time
	SleepHook     func(d time.Duration)
	NowHook       func() time.Time
	NewTickerHook func(d time.Duration) *time.Ticker
)

func After(d time.Duration) <-chan time.Time {
	if AfterHook != nil {
		return AfterHook(d)
	}
	return time.After(d)
}

func Sleep(d time.Duration) {
	if SleepHook != nil {
		SleepHook(d)
		return
	}
	time.Sleep(d)
}

func Now() time.Time {
	if NowHook != nil {
		return NowHook()
	}
	return time.Now()
}

func Since(t time.Time) time.Duration { return Now().Sub(t) }

func NewTicker(d time.Duration) *time.Ticker {
	if NewTickerHook != nil {
		return NewTickerHook(d)
	}
	return time.NewTicker(d)
}

func NewTimer(d time.Duration) *time.Timer { return time.NewTimer(d) }

func AfterFunc(d time.Duration, f func()) *time.Timer { return time.AfterFunc(d, f) }

func Tick(d time.Duration) <-chan time.Time { return time.Tick(d) }
