//go:build verif

package verifrt

// Go replaces `go f(x)` in rewritten files (R-go). Background loops can be
// suppressed by name (their single effect is then delivered by the harness at
// explorer-chosen points); under the controlled scheduler the goroutine is a
// registered thread; otherwise it is a plain goroutine (pass-through).
var Suppress = map[string]bool{}

// Spawned counts Go calls per name (coverage / sanity).
var Spawned = map[string]int{}

func Go(name string, f func()) {
	Spawned[name]++
	if Suppress[name] {
		return
	}
	if s := curSched; s != nil {
		s.spawn(name, f)
		return
	}
	go f()
}
