//go:build verif

package verifrt

import "sync"

// Go replaces `go f(x)` in rewritten files (R-go). Background loops can be
// suppressed by name (their single effect is then delivered by the harness at
// explorer-chosen points); under the controlled scheduler the goroutine is a
// registered thread; otherwise it is a plain goroutine (pass-through).
var Suppress = map[string]bool{}

// Spawned counts Go calls per name (coverage / sanity).
var Spawned = map[string]int{}
var spawnedMu sync.Mutex

func Go(name string, f func()) {
	spawnedMu.Lock()
	Spawned[name]++
	sup := Suppress[name]
	spawnedMu.Unlock()
	if sup {
		return
	}
	if s := curSched; s != nil {
		s.spawn(name, f)
		return
	}
	go f()
}

// SetSuppress is the goroutine-safe way to add a name to Suppress.
func SetSuppress(name string) {
	spawnedMu.Lock()
	Suppress[name] = true
	spawnedMu.Unlock()
}
