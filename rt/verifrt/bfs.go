//go:build verif

package verifrt

import (
	"fmt"
	"os"
	"sync"
	"time"
)

// Event is one transition label of an explicit-state search. User events count
// against the depth bound; environment events (queue deliveries, timer
// expiries) do not, but are bounded by the horizon.
type Event struct {
	Kind string `json:"k"`
	A    int    `json:"a,omitempty"`
	B    int    `json:"b,omitempty"`
	S    string `json:"s,omitempty"`
	User bool   `json:"u,omitempty"`
	// Fault marks a non-default environment answer (failed write, crash point); bounded separately (deviations).
	Fault bool `json:"f,omitempty"`
	// C is the vector of non-default environment choices (map iteration order, list order) taken while the
	// event was handled; empty = all defaults.
	C []int `json:"c,omitempty"`
}

func (e Event) String() string {
	s := e.Kind
	if e.S != "" {
		s += ":" + e.S
	}
	if e.A != 0 || e.B != 0 {
		s += fmt.Sprintf("(%d,%d)", e.A, e.B)
	}
	return s
}

// System is a live instance of the code under test plus its environment model.
// A state is the event history that reaches it: successors are obtained by
// building a fresh instance, replaying the history and applying one event.
type System interface {
	Enabled() []Event // menu in the current state, simplest first
	Apply(Event)      // deliver the event to the real handlers
	Key() string      // canonical dump of everything that can influence the future
}

type BFS struct {
	New      func() System
	Roots    [][]Event // initial histories (work items); nil = the empty history
	MaxUser  int       // bound on user events per history
	MaxFault int       // bound on fault events (deviations) per history
	Horizon  int       // bound on total events per history (reported when hit)
	// Before is called on the live pre-state right before ev is applied; its result is handed to After.
	Before func(sys System, ev Event) interface{}
	// After is the edge oracle; newState tells whether the reached state is new.
	After func(sys System, hist []Event, ev Event, pre interface{}, newState bool)
	Res   *Result
	// Deadline: an internal deadline never produces a failure; the search stops and reports exhaustive:false.
	Deadline time.Time
	// ChoiceKinds, when set, makes every transition explore the environment choice points of these kinds that
	// are met while the event is handled: the default vector plus every vector with one non-default answer
	// (MaxChoiceDev per history). Each vector is a distinct successor event (Event.C).
	ChoiceKinds  []string
	MaxChoiceDev int

	seen map[string]bool
	// Settle analysis (livelock detection): when Quiescent is set, Run records the graph of plain delivery transitions
	// (neither user nor fault events) and, after a complete search, calls OnLivelock for states from which no
	// quiescent state can be reached by deliveries alone - whatever the delivery order, the system never settles.
	Quiescent  func(s System) bool
	OnLivelock func(hist []Event, stuckStates int)
	ids        map[string]int32
	succ       [][]int32
	quies      []bool
	parent     []int32
	parentEv   []Event
	rootOf     map[int32][]Event
	cutStates  map[int32]bool

	// OnHorizon is called (once per state) when a history reaches the horizon with events still enabled: the system
	// did not become quiescent within Horizon events (a harness decides whether that is a livelock).
	OnHorizon func(s System, hist []Event)
}

func userCount(h []Event) int {
	n := 0
	for _, e := range h {
		if e.User {
			n++
		}
	}
	return n
}

func faultCount(h []Event) int {
	n := 0
	for _, e := range h {
		if e.Fault {
			n++
		}
	}
	return n
}

func choiceCount(h []Event) int {
	n := 0
	for _, e := range h {
		if len(e.C) > 0 {
			n++
		}
	}
	return n
}

// apply delivers one event under its recorded choice vector; returns the chooser (for its trace).
func (b *BFS) apply(s System, e Event) *Chooser {
	if len(b.ChoiceKinds) == 0 {
		s.Apply(e)
		return nil
	}
	return RunWithChoices(e.C, b.ChoiceKinds, func(*Chooser) { s.Apply(e) })
}

func (b *BFS) build(h []Event) System {
	s := b.New()
	for _, e := range h {
		b.apply(s, e)
	}
	return s
}

// Run explores breadth-first from every root. Returns false when cut by the deadline.
func (b *BFS) Run() bool {
	if b.seen == nil {
		b.seen = map[string]bool{}
	}
	roots := b.Roots
	if roots == nil {
		roots = [][]Event{nil}
	}
	complete := true
	// one global frontier over all roots: level order by user depth is preserved across roots, so that a
	// cut by the deadline still leaves every history below the reported depth explored
	frontier := [][]Event{}
	for _, root := range roots {
		s0 := b.build(root)
		k0 := s0.Key()
		if !b.seen[k0] {
			b.seen[k0] = true
			b.Res.Count("states", 1)
			frontier = append(frontier, root)
			if b.Quiescent != nil {
				id := b.stateID(k0, s0)
				b.parent[id] = -1
				b.rootOf[id] = root
			}
		}
	}
	{
		for len(frontier) > 0 {
			if !b.Deadline.IsZero() && time.Now().After(b.Deadline) {
				complete = false
				minDepth := 1 << 30
				for _, h := range frontier {
					if d := userCount(h); d < minDepth {
						minDepth = d
					}
				}
				b.Res.NotExhaustive(fmt.Sprintf("time budget reached with %d histories in the frontier; every history with fewer than %d user events was expanded", len(frontier), minDepth))
				b.Res.Info["completed_user_depth"] = minDepth
				break
			}
			h := frontier[0]
			frontier = frontier[1:]
			sys := b.build(h)
			sys0 := sys
			horizonReported := false
			var srcID int32 = -1
			if b.Quiescent != nil {
				srcID = b.stateID(sys.Key(), sys)
			}
			evs := sys.Enabled()
			uc := userCount(h)
			fc := faultCount(h)
			for i, ev := range evs {
				if ev.User && uc >= b.MaxUser {
					continue
				}
				if ev.Fault && fc >= b.MaxFault {
					continue
				}
				if len(h) >= b.Horizon {
					b.Res.Count("horizon_hits", 1)
					if srcID >= 0 {
						b.cutStates[srcID] = true
					}
					if b.OnHorizon != nil && !horizonReported {
						horizonReported = true
						b.OnHorizon(sys0, h)
					}
					continue
				}
				// the event under its default choices, then - if choice exploration is on - under every vector
				// with one non-default answer
				variants := []Event{ev}
				for vi := 0; vi < len(variants); vi++ {
					ev := variants[vi]
					s2 := sys
					if i > 0 || vi > 0 || sys == nil {
						s2 = b.build(h)
					}
					sys = nil // the first instance is consumed by the first applied event
					var pre interface{}
					if b.Before != nil {
						pre = b.Before(s2, ev)
					}
					ch := b.apply(s2, ev)
					if vi == 0 && ch != nil && choiceCount(h) < b.MaxChoiceDev {
						for pi := range ch.Trace {
							for alt := 1; alt < ch.Ns[pi]; alt++ {
								v := ev
								v.C = append(append(make([]int, 0, pi+1), ch.Trace[:pi]...), alt)
								variants = append(variants, v)
							}
						}
						b.Res.Max("max_choice_points_per_transition", int64(len(ch.Trace)))
					}
					b.Res.Count("transitions", 1)
					k := s2.Key()
					isNew := !b.seen[k]
					nh := append(append(make([]Event, 0, len(h)+1), h...), ev)
					if b.After != nil {
						b.After(s2, nh, ev, pre, isNew)
					}
					if srcID >= 0 {
						dst := b.stateID(k, s2)
						if !ev.User && !ev.Fault && len(ev.C) == 0 {
							b.succ[srcID] = append(b.succ[srcID], dst)
						}
						if isNew {
							b.parent[dst], b.parentEv[dst] = srcID, ev
						}
					}
					if isNew {
						b.seen[k] = true
						b.Res.Count("states", 1)
						b.Res.Max("max_history_len", int64(len(nh)))
						b.Res.Max("max_user_depth", int64(userCount(nh)))
						frontier = append(frontier, nh)
					}
				}
			}
		}
	}
	if complete && b.Quiescent != nil && b.OnLivelock != nil {
		b.settleAnalysis()
	}
	return complete
}

func (b *BFS) stateID(key string, s System) int32 {
	if b.ids == nil {
		b.ids, b.rootOf, b.cutStates = map[string]int32{}, map[int32][]Event{}, map[int32]bool{}
	}
	if id, ok := b.ids[key]; ok {
		return id
	}
	id := int32(len(b.succ))
	b.ids[key] = id
	b.succ = append(b.succ, nil)
	b.quies = append(b.quies, b.Quiescent(s))
	b.parent = append(b.parent, -1)
	b.parentEv = append(b.parentEv, Event{})
	return id
}

// settleAnalysis: backward reachability from the quiescent states over the delivery edges; what is left cannot settle.
func (b *BFS) settleAnalysis() {
	n := len(b.succ)
	pred := make([][]int32, n)
	for u, vs := range b.succ {
		for _, v := range vs {
			pred[v] = append(pred[v], int32(u))
		}
	}
	ok := make([]bool, n)
	var stack []int32
	for i := 0; i < n; i++ {
		// quiescent states settle; states cut at the horizon or never expanded (user/fault bound leaves) are not judged
		if b.quies[i] || b.cutStates[int32(i)] {
			ok[i] = true
			stack = append(stack, int32(i))
		}
	}
	expanded := make([]bool, n)
	for u := range b.succ {
		if len(b.succ[u]) > 0 {
			expanded[u] = true
		}
	}
	for i := 0; i < n; i++ {
		if !expanded[i] && !ok[i] {
			// a non-quiescent state without recorded delivery successors was not expanded (depth bound): not judged
			ok[i] = true
			stack = append(stack, int32(i))
		}
	}
	for len(stack) > 0 {
		v := stack[len(stack)-1]
		stack = stack[:len(stack)-1]
		for _, u := range pred[v] {
			if !ok[u] {
				ok[u] = true
				stack = append(stack, u)
			}
		}
	}
	stuck := 0
	first := int32(-1)
	for i := 0; i < n; i++ {
		if !ok[i] {
			stuck++
			if first < 0 {
				first = int32(i)
			}
		}
	}
	b.Res.Count("states_in_settle_analysis", int64(n))
	if stuck == 0 {
		return
	}
	// reconstruct a history to the first stuck state (breadth-first discovery order: a shortest one)
	var rev []Event
	cur := first
	for b.parent[cur] >= 0 {
		rev = append(rev, b.parentEv[cur])
		cur = b.parent[cur]
	}
	hist := append([]Event{}, b.rootOf[cur]...)
	for i := len(rev) - 1; i >= 0; i-- {
		hist = append(hist, rev[i])
	}
	b.OnLivelock(hist, stuck)
}

// Replay rebuilds a history on a fresh system, running the edge oracle on every step.
func (b *BFS) Replay(h []Event) System {
	s := b.New()
	for i, e := range h {
		var pre interface{}
		if b.Before != nil {
			pre = b.Before(s, e)
		}
		ch := b.apply(s, e)
		if os.Getenv("VERIF_TRACE") != "" {
			fmt.Fprintf(os.Stderr, "--- after event %d %s (choices %v)\n", i, e.String(), e.C)
			if ch != nil {
				fmt.Fprintf(os.Stderr, "choice points: trace=%v ns=%v\n", ch.Trace, ch.Ns)
			}
			fmt.Fprintln(os.Stderr, s.Key())
		}
		if b.After != nil {
			b.After(s, h[:i+1], e, pre, true)
		}
	}
	return s
}

// RunParallel is Run for systems whose instances share no mutable state: the frontier is expanded level by
// level by `workers` goroutines that share one seen-set (no duplicated work, unlike process sharding).
// Choice exploration (ChoiceKinds) is not supported here: the chooser is process-global.
func (b *BFS) RunParallel(workers int) bool {
	if len(b.ChoiceKinds) > 0 {
		panic("verifrt.BFS: RunParallel does not support choice exploration")
	}
	if b.seen == nil {
		b.seen = map[string]bool{}
	}
	var mu sync.Mutex
	roots := b.Roots
	if roots == nil {
		roots = [][]Event{nil}
	}
	var level [][]Event
	for _, root := range roots {
		k0 := b.build(root).Key()
		if !b.seen[k0] {
			b.seen[k0] = true
			b.Res.Count("states", 1)
			level = append(level, root)
		}
	}
	depthDone := 0
	for len(level) > 0 {
		if !b.Deadline.IsZero() && time.Now().After(b.Deadline) {
			b.Res.NotExhaustive(fmt.Sprintf("time budget reached with %d histories in the frontier; %d levels were expanded completely", len(level), depthDone))
			b.Res.Info["completed_levels"] = depthDone
			return false
		}
		var next [][]Event
		var wg sync.WaitGroup
		cut := false
		chunk := (len(level) + workers - 1) / workers
		for w := 0; w < workers; w++ {
			lo, hi := w*chunk, (w+1)*chunk
			if lo >= len(level) {
				break
			}
			if hi > len(level) {
				hi = len(level)
			}
			wg.Add(1)
			go func(part [][]Event) {
				defer wg.Done()
				var mine [][]Event
				for _, h := range part {
					if !b.Deadline.IsZero() && time.Now().After(b.Deadline) {
						mu.Lock()
						cut = true
						mu.Unlock()
						break
					}
					sys := b.build(h)
					evs := sys.Enabled()
					uc, fc := userCount(h), faultCount(h)
					for i, ev := range evs {
						if (ev.User && uc >= b.MaxUser) || (ev.Fault && fc >= b.MaxFault) || len(h) >= b.Horizon {
							continue
						}
						s2 := sys
						if i > 0 || sys == nil {
							s2 = b.build(h)
						}
						sys = nil
						var pre interface{}
						if b.Before != nil {
							pre = b.Before(s2, ev)
						}
						s2.Apply(ev)
						b.Res.Count("transitions", 1)
						k := s2.Key()
						mu.Lock()
						isNew := !b.seen[k]
						if isNew {
							b.seen[k] = true
						}
						mu.Unlock()
						nh := append(append(make([]Event, 0, len(h)+1), h...), ev)
						if b.After != nil {
							b.After(s2, nh, ev, pre, isNew)
						}
						if isNew {
							b.Res.Count("states", 1)
							b.Res.Max("max_history_len", int64(len(nh)))
							b.Res.Max("max_user_depth", int64(userCount(nh)))
							mine = append(mine, nh)
						}
					}
				}
				mu.Lock()
				next = append(next, mine...)
				mu.Unlock()
			}(level[lo:hi])
		}
		wg.Wait()
		if cut {
			b.Res.NotExhaustive(fmt.Sprintf("time budget reached while expanding level %d (%d histories); %d levels were expanded completely", depthDone+1, len(level), depthDone))
			b.Res.Info["completed_levels"] = depthDone
			return false
		}
		depthDone++
		level = next
	}
	b.Res.Info["completed_levels"] = depthDone
	return true
}
