echo setup
