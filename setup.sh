#!/bin/sh
# Offline build of the framework + warm-up of the Go build cache (files on disk only).
set -e
cd "$(dirname "$0")"
export GOFLAGS=-mod=mod GOPROXY=off
unset GOTOOLCHAIN GOSUMDB
mkdir -p build evidence replay
(cd vinstr && go build -o ../build/vinstr .)
# warm the build cache for the packages under test (plain and -race); failures here are not fatal
(cd /repo && go test -count=1 -vet=off -run '^$' ./internal/... ./controller/ ./speaker/ >/dev/null 2>&1 || true)
(cd /repo && CGO_ENABLED=1 go test -race -count=1 -vet=off -run '^$' ./internal/layer2/ ./internal/bgp/native/ ./controller/ ./speaker/ >/dev/null 2>&1 || true)
echo setup done
