ENGINES = [
 {"name": "overlay+vinstr", "path": "bin/vcheck, vinstr/", "serves_properties": ["C18", "C08"], "kind_free_text": "builds a go test -overlay from /repo's working tree + harness files + virtual runtime packages + type-directed rewrites (owned map order, sync/go/time shims, hooks); runs shards; classifies against known_findings.json; writes evidence"},
 {"name": "verifrt.enum/choose", "path": "rt/verifrt/choose.go", "serves_properties": ["C18", "C08"], "kind_free_text": "exhaustive product enumeration + depth-first exploration of environment choice vectors (map iteration order etc.) with deviation bounding"},
]
NOTES = "All checks run in-package harnesses compiled from /repo's current working tree through go test -overlay (build tag verif); nothing is committed to /repo for instrumentation. fix: commits in /repo are listed in known_findings.json."
NOT_YET = {}
CHECKS = {
 "C18": dict(category="exploration", engine="verifrt.enum/choose", design_ref="5/C18",
   technique="exhaustive enumeration of listing permutations x owned map-iteration orders on the real toConfig",
   text="Every snapshot of a catalogue (valid and rejected) x every permutation of each listed kind (k=3 quick, 4 thorough; singly and pairwise product) x every explored map-iteration order inside internal/config (R-map, <=1/2 non-default orders) x repetitions is run through the real toConfig/config.For and compared with reflect.DeepEqual (the reconcilers' own comparison) and by verdict. Bounded-exhaustive over the catalogue; order-dependent candidates are confirmed on the runtime's native order before being reported.",
   note="Trusted: the snapshot catalogue closes the input space (<=4 objects/kind); map orders explored = all orders for <=3 keys, rotations+reversal above; reconciler end-to-end (DeepEqual guard) covered by construction since it calls the same toConfig."),
 "C08": dict(category="exploration", engine="verifrt.enum/choose", design_ref="5/C08",
   technique="exhaustive enumeration of a notation catalogue (singles, all ordered pairs, triples, node IPs, advertisement products) through real config.For against a 128-bit interval-set reference model",
   text="Every entry of a ~410-string address-notation catalogue, every ordered pair (as two pools and as one pool), every triple of a 40-entry sub-catalogue, node internal IPs x pools, the advertisement attachment product (named/selected/neither x node selectors), aggregation lengths 0..32/0..128 on CIDR pools and the local-pref conflict product are run through the real config.For; every accepted result is judged by refcidr (own parser, 128-bit interval sets): pool set == written set, pools pairwise disjoint, no node internal IP inside, attachment sets, aggregate containment, conflicting local-prefs rejected. ~580k configurations per run, exhaustive over the catalogue.",
   note="Trusted: refcidr (net/netip + math/big) as the meaning of the notations; IPv4 in any notation is one address space; IPv6 CIDRs that cover the IPv4-mapped block (::/0) are outside the catalogue (semantics not fixed by the statement); over-rejection is not a violation."),
}
