ENGINES = [
 {"name": "overlay", "path": "bin/vcheck", "serves_properties": [], "kind_free_text": "builds a go test -overlay from /repo's working tree + harness files + virtual runtime packages; runs shards; writes evidence"},
]
NOTES = "All checks run in-package harnesses compiled from /repo's current working tree through go test -overlay (build tag verif); nothing is committed to /repo for instrumentation."
NOT_YET = {}
CHECKS = {}
