ENGINES = [
 {"name": "overlay+vinstr", "path": "bin/vcheck, vinstr/", "serves_properties": ["C18"], "kind_free_text": "builds a go test -overlay from /repo's working tree + harness files + virtual runtime packages + type-directed rewrites (owned map order, sync/go/time shims, hooks); runs shards; classifies against known_findings.json; writes evidence"},
 {"name": "verifrt.enum/choose", "path": "rt/verifrt/choose.go", "serves_properties": ["C18"], "kind_free_text": "exhaustive product enumeration + depth-first exploration of environment choice vectors (map iteration order etc.) with deviation bounding"},
]
NOTES = "All checks run in-package harnesses compiled from /repo's current working tree through go test -overlay (build tag verif); nothing is committed to /repo for instrumentation. fix: commits in /repo are listed in known_findings.json."
NOT_YET = {}
CHECKS = {
 "C18": dict(category="exploration", engine="verifrt.enum/choose", design_ref="5/C18",
   technique="exhaustive enumeration of listing permutations x owned map-iteration orders on the real toConfig",
   text="Every snapshot of a catalogue (valid and rejected) x every permutation of each listed kind (k=3 quick, 4 thorough; singly and pairwise product) x every explored map-iteration order inside internal/config (R-map, <=1/2 non-default orders) x repetitions is run through the real toConfig/config.For and compared with reflect.DeepEqual (the reconcilers' own comparison) and by verdict. Bounded-exhaustive over the catalogue; order-dependent candidates are confirmed on the runtime's native order before being reported.",
   note="Trusted: the snapshot catalogue closes the input space (<=4 objects/kind); map orders explored = all orders for <=3 keys, rotations+reversal above; reconciler end-to-end (DeepEqual guard) covered by construction since it calls the same toConfig."),
}
