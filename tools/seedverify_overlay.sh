#!/bin/sh
# usage: tools/seedverify_overlay.sh <worktree> <n> <pkg> <run-regex> <overlay.json> <name> <property>
# like seedverify.sh, for demonstrations living in internal/bgp/frr (Docker-less overlay stub needed)
wt=$1; n=$2; pkg=$3; re=$4; ov=$5; name=$6; prop=$7
export GOFLAGS=-mod=mod GOPROXY=off
cd $wt || exit 2
PK=$(go list ./internal/... ./controller/ ./speaker/ | grep -v 'internal/bgp/frr$' | tr '\n' ' ')
git checkout -q -- .; rm -f $pkg/zz_seed_demo_test.go; cp SEED/$n/demo_test.go $pkg/zz_seed_demo_test.go
go test -count=1 -vet=off -overlay=$ov -run "$re" ./$pkg/ > /tmp/vo-$name-a.txt 2>&1; a=$?
git apply SEED/$n/patch.diff; go build ./... ; b=$?
go test -count=1 -vet=off -overlay=$ov -run "$re" ./$pkg/ > /tmp/vo-$name-d.txt 2>&1; d=$?
rm -f $pkg/zz_seed_demo_test.go
go test -count=1 -vet=off -overlay=$ov ./internal/bgp/frr/ > /tmp/vo-$name-c1.txt 2>&1; c1=$?
go test -count=1 -vet=off -skip '^TestManager$' $PK > /tmp/vo-$name-c2.txt 2>&1; c2=$?
git checkout -q -- .
echo "$name demo-without=$a build=$b demo-with=$d frr-tests=$c1 other-tests=$c2"
if [ $a -eq 0 ] && [ $b -eq 0 ] && [ $d -ne 0 ] && [ $c1 -eq 0 ] && [ $c2 -eq 0 ]; then
  mkdir -p /verif/seeded/$name; cp SEED/$n/patch.diff SEED/$n/demo_test.go SEED/$n/notes.md /verif/seeded/$name/; cp $(dirname $ov)/*stub*_test.go /verif/seeded/$name/ 2>/dev/null
  python3 - $name $prop $pkg "$re" <<'PY'
import json,sys
name,prop,pkg,run=sys.argv[1:5]
meta={"property":prop,"demo":{"copy_to":pkg+"/","run":"go test -count=1 -vet=off -overlay=<overlay replacing internal/bgp/frr/docker_test.go by the stub> -run '%s' ./%s/"%(run,pkg)},
 "confirmed":{"worktree":"scratch git worktree of /repo HEAD (removed afterwards)","demo_without_patch":"pass","build_with_patch":"ok",
  "existing_tests_with_patch":"pass: go test -count=1 -vet=off -skip '^TestManager$' <all packages of ./internal/... ./controller/ ./speaker/ except internal/bgp/frr>; and internal/bgp/frr itself with its Docker-dependent TestMain replaced by a stub through go test -overlay (TestDockerFRRFails not run)","demo_with_patch":"fail"},
 "needs_to_manifest":"see notes.md","detected_by":"(filled in after running the checks)"}
json.dump(meta,open("/verif/seeded/%s/meta.json"%name,"w"),indent=1)
PY
  echo KEPT; else echo REJECTED; tail -5 /tmp/vo-$name-a.txt /tmp/vo-$name-d.txt /tmp/vo-$name-c1.txt | tail -25; fi
