#!/bin/sh
# usage: tools/seedrun.sh <patch.diff> <ID> [tier]   -- applies the patch to /repo, runs the check, reverts.
set -u
patch=$1; id=$2; tier=${3:-quick}
cd /repo || exit 2
if ! git diff --quiet; then echo "/repo has uncommitted changes"; exit 2; fi
git apply "$patch" || { echo "patch does not apply"; exit 2; }
cd /verif
cp evidence/$id.json /tmp/evidence-$id.bak 2>/dev/null
bin/vcheck $id --tier $tier ${VCHECK_ARGS:-} > /tmp/seedrun-$id.out 2> /tmp/seedrun-$id.err
rc=$?
cp /tmp/evidence-$id.bak evidence/$id.json 2>/dev/null
git -C /repo checkout -- .
echo "rc=$rc"; grep -c '^VIOLATION' /tmp/seedrun-$id.out; grep '^violation sig' /tmp/seedrun-$id.err | head -8
