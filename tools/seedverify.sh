#!/bin/sh
# usage: tools/seedverify.sh <worktree> <seeddir> <pkgdir> <run-regex> <name> <property> "<existing test pkgs>"
# Confirms in the scratch worktree: (a) demo passes without the patch, (b) patch applies+builds, (c) existing tests of the
# listed packages pass with it, (d) demo fails with it. On success copies the seed to /verif/seeded/<name>/ with meta.json.
wt=$1; sd=$2; pkg=$3; run=$4; name=$5; prop=$6; pkgs=$7
export GOFLAGS=-mod=mod GOPROXY=off
cd "$wt" || exit 2
git checkout -q -- . ; rm -f $pkg/zz_seed_demo_test.go
cp "$sd/demo_test.go" $pkg/zz_seed_demo_test.go
go test -count=1 -vet=off -run "$run" ./$pkg/ > /tmp/sv-${name}-a.txt 2>&1; a=$?
git apply "$sd/patch.diff" || { echo "PATCH DOES NOT APPLY"; rm -f $pkg/zz_seed_demo_test.go; exit 1; }
go build ./... > /tmp/sv-${name}-b.txt 2>&1; b=$?
go test -count=1 -vet=off -run "$run" ./$pkg/ > /tmp/sv-${name}-d.txt 2>&1; d=$?
rm -f $pkg/zz_seed_demo_test.go
go test -count=1 -vet=off -skip '^TestManager$' $pkgs > /tmp/sv-${name}-c.txt 2>&1; c=$?
git checkout -q -- .
echo "$name: demo-without rc=$a (want 0)  build rc=$b (want 0)  existing-tests rc=$c (want 0)  demo-with rc=$d (want !=0)"
if [ $a -eq 0 ] && [ $b -eq 0 ] && [ $c -eq 0 ] && [ $d -ne 0 ]; then
  mkdir -p /verif/seeded/$name
  cp "$sd/patch.diff" "$sd/demo_test.go" /verif/seeded/$name/
  [ -f "$sd/notes.md" ] && cp "$sd/notes.md" /verif/seeded/$name/
  python3 - "$name" "$prop" "$pkg" "$run" "$pkgs" <<'PY'
import json,sys
name,prop,pkg,run,pkgs=sys.argv[1:6]
meta={"property":prop,"demo":{"copy_to":pkg+"/","run":"go test -count=1 -vet=off -run '%s' ./%s/"%(run,pkg)},
 "confirmed":{"worktree":"scratch git worktree of /repo HEAD (removed afterwards)","demo_without_patch":"pass","build_with_patch":"ok",
  "existing_tests_with_patch":"pass: go test -count=1 -vet=off -skip '^TestManager$' "+pkgs,"demo_with_patch":"fail"},
 "needs_to_manifest":"see notes.md","detected_by":"(filled in after running the checks)"}
json.dump(meta,open("/verif/seeded/%s/meta.json"%name,"w"),indent=1)
PY
  echo KEPT
else
  echo REJECTED; for f in /tmp/sv-${name}-a.txt /tmp/sv-${name}-c.txt /tmp/sv-${name}-d.txt; do tail -5 $f; done
fi
