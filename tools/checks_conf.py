# per-property run configuration for bin/vcheck
MAP_CONFIG = ["internal/config/config.go", "internal/config/validation.go", "internal/k8s/controllers/config_conversion.go"]

CONF = {
 "C18": {
  "level": "exploration",
  "rule": "snapshot catalogue x every permutation of each listed kind (singly, and the full product for pairs of kinds) x explored map-iteration orders x 3 repetitions through real toConfig; a case is one (snapshot, validator, permutation set, map-order vector); distinct_nontrivial counts distinct non-identity permutation sets",
  "parts": [{"name": "main", "pkg": "internal/k8s/controllers", "test": "TestVerif_C18", "shards": {"quick": 8, "thorough": 16}}],
  "rewrites": {"map": MAP_CONFIG},
  "assumptions": ["map iteration orders explored: all orders of maps with <=3 keys, rotations+reversal above (DESIGN 2.1)",
                  "snapshots are drawn from a fixed catalogue (DESIGN 5/C18)"],
 },
 "C08": {
  "level": "exploration",
  "rule": "address-entry catalogue generated from a grammar (every CIDR /28../32 and every range of a 16-address IPv4 window crossing a /24, a window crossing a /16, IPv6 /124../128 window, wide CIDRs, spaces, inverted, IPv4-mapped, mixed-family, garbage): every single entry, every ordered pair (two pools / one pool), every triple of a 40-entry sub-catalogue, node internal IPs x pools, advertisement attachment product, aggregation length 0..32/0..128 per CIDR pool, local-pref conflict product; each through real config.For and judged by refcidr (128-bit interval sets); distinct_nontrivial counts distinct resource sets",
  "parts": [{"name": "main", "pkg": "internal/config", "test": "TestVerif_C08", "shards": {"quick": 16, "thorough": 16}}],
  "assumptions": ["inputs are drawn from the notation catalogue (DESIGN 5/C08); over-rejection by config.For is not a violation (the statement constrains accepted configurations)",
                  "local-pref conflicts judged on names as written"],
 },
}
