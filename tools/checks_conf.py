# per-property run configuration for bin/vcheck
MAP_CONFIG_ = None
MAP_CONFIG = ["internal/config/config.go", "internal/config/validation.go", "internal/k8s/controllers/config_conversion.go", "internal/k8s/controllers/config_controller.go", "internal/k8s/controllers/pool_controller.go"]

MAP_ALLOC = ["internal/allocator/allocator.go", "internal/allocator/k8salloc/k8salloc.go", "controller/main.go", "controller/service.go", "internal/config/config.go",
             "internal/k8s/controllers/config_conversion.go", "internal/k8s/controllers/pool_controller.go",
             "internal/k8s/controllers/service_controller.go", "internal/k8s/controllers/service_controller_reload.go"]

def alloc_conf(prop, rule, extra_assume=(), level="model_checking"):
    parts = [{"name": "main", "pkg": "controller", "test": "TestVerif_" + prop, "shards": {"quick": 16, "thorough": 16},
              "budget_s": {"quick": 120, "thorough": 1500}, "gomaxprocs": 1}]
    if prop in ("C01", "C02", "C11"):
        parts.append({"name": "allocator-api", "pkg": "internal/allocator", "test": "TestVerif_L1_" + prop, "shards": {"quick": 3, "thorough": 5},
                      "budget_s": {"quick": 60, "thorough": 900}, "gomaxprocs": {"quick": 5, "thorough": 3}})
    return {
  "level": level,
  "rule": rule + ("; plus (allocator-api part) explicit-state BFS over histories of the allocator's exported API (Assign, Allocate, AllocateFromPool, Unassign, SetPools) on a real Allocator with the same oracles after every single operation" if prop in ("C01", "C02", "C11") else ""),
  "parts": parts,
  "rewrites": {"map": MAP_ALLOC},
  "assumptions": ["Kubernetes side is a model (DESIGN 3): one worker per controller, at-least-once delivery of pending keys in any order, the controller sees its own status writes",
                  "status writes persist status and annotations, never spec (Service status strategy)",
                  "universes are closed alphabets of pool layouts and service variants (DESIGN 5)", "map iteration order owned: sorted"] + list(extra_assume),
 }

NDP_CALLS = [{"file": "internal/layer2/ndp.go", "recv": "n.conn", "method": m, "to": "verifNDP" + m, "pass": "n"} for m in ("ReadFrom", "WriteTo", "JoinGroup", "LeaveGroup", "Close")] + [
    {"file": "internal/layer2/ndp.go", "recv": "ndp", "method": "Dial", "to": "verifNDPDial", "pass": ""},
    {"file": "internal/layer2/announcer.go", "recv": "net", "method": "Interfaces", "to": "verifNetInterfaces", "pass": ""},
    {"file": "internal/layer2/announcer.go", "recv": "ifi", "method": "Addrs", "to": "verifIfAddrs", "pass": "ifi"}]
MAP_SPEAKER = ["speaker/layer2_controller.go", "speaker/main.go", "speaker/bgp_controller.go"]

MAP_SPK_FULL = MAP_SPEAKER + ["internal/config/config.go", "internal/k8s/controllers/config_conversion.go", "internal/k8s/controllers/config_controller.go",
                               "internal/k8s/controllers/service_controller_reload.go", "internal/layer2/announcer.go"]

def spk_conf(prop, rule):
    return {
  "level": "model_checking",
  "rule": rule,
  "parts": [{"name": "main", "pkg": "speaker", "test": "TestVerif_" + prop, "shards": {"quick": 16, "thorough": 16},
             "budget_s": {"quick": 120, "thorough": 1500}, "gomaxprocs": 1}],
  "rewrites": {"map": MAP_SPK_FULL, "go": ["internal/layer2/announcer.go"]},
  "assumptions": ["Kubernetes side is a model (DESIGN 3): one worker per reconciler, any pending key next", "nodes me/other exist before any service (DESIGN F7)",
                  "a refused SetConfig stays pending (not quiescent)", "interface list fixed to eth0, eth1; background interface scan and spam loop suppressed",
                  "map iteration order owned: sorted"],
 }

CONF = {
 "C18": {
  "level": "exploration",
  "rule": "snapshot catalogue x every permutation of each listed kind (singly, and the full product for pairs of kinds) x explored map-iteration orders x 3 repetitions through real toConfig; a case is one (snapshot, validator, permutation set, map-order vector); distinct_nontrivial counts distinct non-identity permutation sets",
  "parts": [{"name": "main", "pkg": "internal/k8s/controllers", "test": "TestVerif_C18", "shards": {"quick": 8, "thorough": 16}},
            {"name": "e2e", "pkg": "internal/k8s/controllers", "test": "TestVerif_C18e2e", "shards": {"quick": 8, "thorough": 16}},
            {"name": "integrated", "pkg": "controller", "test": "TestVerif_C18ctl", "shards": {"quick": 16, "thorough": 16}, "budget_s": {"quick": 100, "thorough": 900}, "gomaxprocs": 1,
             "rewrites": {"map": MAP_ALLOC}}],
  "rewrites": {"map": MAP_CONFIG},
  "assumptions": ["map iteration orders explored: all orders of maps with <=3 keys, rotations+reversal above (DESIGN 2.1)",
                  "snapshots are drawn from a fixed catalogue (DESIGN 5/C18)"],
 },
 "C08": {
  "level": "exploration",
  "rule": "address-entry catalogue generated from a grammar (every CIDR /28../32 and every range of a 16-address IPv4 window crossing a /24, a window crossing a /16, IPv6 /124../128 window, wide CIDRs, spaces, inverted, IPv4-mapped, mixed-family, garbage): every single entry, every ordered pair (two pools / one pool), every triple of a 40-entry sub-catalogue, node internal IPs x pools, advertisement attachment product, aggregation length 0..32/0..128 per CIDR pool, local-pref conflict product; each through real config.For and judged by refcidr (128-bit interval sets); distinct_nontrivial counts distinct resource sets",
  "parts": [{"name": "main", "pkg": "internal/config", "test": "TestVerif_C08", "shards": {"quick": 16, "thorough": 16}}],
  "assumptions": ["inputs are drawn from the notation catalogue (DESIGN 5/C08); over-rejection by config.For is not a violation (the statement constrains accepted configurations)",
                  "local-pref conflicts judged on names as written"],
 },
 "C16": {
  "level": "exploration",
  "rule": "encoders: full product prefix length 0..32 x 6 address patterns x 9 ASNs across the 2/4-byte boundary x iBGP/eBGP x 4-byte capable x 4 local-prefs x community counts {0,1,2,62,63} x 3 next hops (+ edge cases: 16-byte next hop, large community, 64 communities, call after a failed call), withdraws of 0..3 prefixes of every length, OPEN over ASN x hold time x router id; each decoded by the independent bgpwire decoder. OPEN reader: every capability sequence of length <=3 from a 12-capability catalogue x packing x trailers, header/body variant product, NOTIFICATION bodies, every truncation point, delivered at once and one byte per read; distinct_nontrivial counts distinct inputs",
  "parts": [{"name": "main", "pkg": "internal/bgp/native", "test": "TestVerif_C16", "shards": {"quick": 16, "thorough": 16}}],
  "assumptions": ["valid encoder domain: 4-byte next hop, <=63 legacy communities, not (eBGP and 2-byte peer and ASN>65535)",
                  "well-formed OPEN = RFC 4271 message of length 29+optlen, version 4, hold time 0 or >=3, only capability parameters, capability 65/1 of length 4"],
 },
 "C01": alloc_conf("C01", "explicit-state BFS over event histories (user events: create/update/delete of 3 services over a variant catalogue, pool layout changes; environment: any pending queue key next) of the real controller+reconcilers+allocator in 4 universes; state = canonical dump of store, queues, allocator maps, reconciler state; exclusivity + bookkeeping-coherence invariants on every new state, status exclusivity on every quiescent state"),
 "C02": alloc_conf("C02", "same graph; pool-policy oracle (membership in exactly one pool, buggy addresses, selectors, families, explicit requests, pool annotation) on every quiescent state and allocation-edge oracle (autoAssign, priority constraints) on every transition that gives a service its first address"),
 "C03": alloc_conf("C03", "same graph; macro-edge frame oracle between consecutive quiescent states (reference point carried in the state key while settling) + double full-resync write count from every new quiescent state"),
 "C06": alloc_conf("C06", "same graph with crash/restart (between any two events, before and after the first status write of a delivery) and failing status writes as bounded deviations; keep / no-steal / no-leak / gate oracles at the new instance's quiescent states", ["crash = the process is replaced by a fresh controller+reconcilers+allocator over the same store; all pending work is lost and re-derived from initial add events"], level="fault_enumeration"),
 "C07": alloc_conf("C07", "same graph; starvation oracle on every quiescent state: a LoadBalancer service without address for which refalloc finds an admissible assignment with the others' holdings fixed"),
 "C11": alloc_conf("C11", "same graph; on every new state: counters == distinct addresses in use, assigned+available == refcidr capacity, no negative counter, allocator dump == dump of a fresh allocator rebuilt from the surviving assignments, every address released by the transition can be assigned to a fresh service"),
 "C04": {
  "level": "exploration",
  "rule": "every cluster view of 3 nodes (thorough: 3 nodes over a 144-state per-node catalogue plus 2 nodes over the full 288-state one): per node (speaker alive, Node object known, ok/NetworkUnavailable/excluded, selected by which L2 advertisement, endpoint state) x memberlist disabled x ignoreExcludeLB x traffic policy x extra endpoint without node name x 9 service/address-list sets (single, dual in both orders, two services sharing an address); the real ShouldAnnounce is evaluated once per node per service on long-lived controllers; plus all explored map-iteration orders of the candidate list for 2..5 eligible nodes; distinct_nontrivial counts distinct views",
  "parts": [{"name": "main", "pkg": "speaker", "test": "TestVerif_C04", "shards": {"quick": 16, "thorough": 16}}],
  "rewrites": {"map": MAP_SPEAKER},
  "assumptions": ["the view is what the speakers share (memberlist output taken as input)", "services sharing an address are required to agree only when their eligible sets are equal (same policy, same endpoints) - DESIGN F16"],
 },
 "C12": {
  "level": "exploration",
  "rule": "node universe of 5 names: every non-empty eligible set S (31) x every sub/superset T x address catalogue (IPv4, IPv6, dual-stack both orders) x both policies x every explored map-iteration order; relational oracle on the winner function evaluated by the real ShouldAnnounce on every node (long-lived controllers, re-evaluation after other views)",
  "parts": [{"name": "main", "pkg": "speaker", "test": "TestVerif_C12", "shards": {"quick": 16, "thorough": 16}}],
  "rewrites": {"map": MAP_SPEAKER},
  "assumptions": ["eligible sets realised through the live-speaker flags; map orders: all for <=3 candidates, rotations+reversal above"],
 },
 "C05": spk_conf("C05", "explicit-state BFS over histories of service/status/endpoint/config/node-label events on the real speaker controller + bgpController with a recording session manager; at every quiescent state the per-peer route sets and per-service peer sets are compared with refbgp computed from the resources as written"),
 "C09": spk_conf("C09", "explicit-state BFS over histories of service, endpoint, node, configuration and membership events on the real speaker (L2 announcer + BGP controller); at every new quiescent state the observable (announcer holdings, responder decisions for every address x interface, per-session routes) is compared with a fresh real speaker fed the final cluster state"),
 "C10": {
  "level": "exploration",
  "rule": "endpoint-slice layouts of 0..3 entries (ready in {nil,T,F} x serving in {nil,T,F} x node in {me, other, none} x address set in {a},{b},{a,b}; every split into two slices) x node known/NetworkUnavailable/exclude label x ignoreExcludeLB x advertisement selecting me/other/nobody/two advertisements x policy; real bgpController.ShouldAnnounce and, for the positive half, real speaker controller.SetBalancer with a recording session (routes iff announce); distinct_nontrivial counts distinct cases",
  "parts": [{"name": "main", "pkg": "speaker", "test": "TestVerif_C10", "shards": {"quick": 16, "thorough": 16}}],
  "rewrites": {"map": MAP_SPEAKER},
  "assumptions": ["under the Local policy, layouts where one address is carried by entries on different nodes with conflicting conditions are not judged (statement ambiguous, DESIGN F6)"],
 },
 "C14": {
  "level": "translation_validation",
  "rule": "session sets of 1..3 neighbors from an 11-session catalogue (IPv4/IPv6/unnumbered, iBGP/eBGP, VRF, second router, all options, dynamic ASN, DisableMP) x advertisement multisets from a 9-item catalogue (repeated prefixes with different communities, local-pref 0/non-zero, v4+v6 on one neighbor, prefixes sharing a base address) x every creation order x every Set order x explored map orders; the text carried by the last reload event, rendered by the real templateConfig, is parsed and interpreted by frrinterp; programs = configurations interpreted, disagreements_checked = (neighbor, prefix) judgements",
  "parts": [{"name": "main", "pkg": "internal/bgp/frr", "test": "TestVerif_C14", "shards": {"quick": 16, "thorough": 16}},
            {"name": "refused", "pkg": "internal/bgp/frr", "test": "TestVerif_C14rej", "shards": 4}],
  "blank_tests": ["internal/bgp/frr"],
  "rewrites": {"map": ["internal/bgp/frr/frr.go"]},
  "assumptions": ["FRR semantics as encoded in frrinterp (prefix-lists per AFI namespace, first match; route-maps in sequence order, match ip/ipv6 address, set, on-match next, implicit deny)",
                  "the session manager is built in-package like mockNewSessionManager, with a buffered reload channel; the debouncer is C19's subject",
                  "one prefix with two local preferences on one session is outside the alphabet (validation rejects it); DisableMP on an unnumbered neighbor is outside the alphabet"],
 },
 "C15": {
  "level": "translation_validation",
  "rule": "the C14 session/advertisement catalogues (1..3 neighbors, every creation and Set order, explored map orders) through the real frr-k8s session manager; the FRRConfiguration captured from the config-changed callback is judged by k8sinterp (allowed prefixes sorted/unique == requested, communities and local-prefs associated with exactly the requesting prefixes, router prefixes == union, node selector, session parameters, password xor secret) and compared per neighbor and prefix with frrinterp's meaning of the FRR-mode text for the same sessions; plus every peer credential combination x BGP type x secret handling through the real passwordForSession; programs = resources judged, disagreements_checked = (neighbor, prefix) comparisons with FRR mode",
  "parts": [{"name": "main", "pkg": "internal/bgp/frrk8s", "test": "TestVerif_C15", "shards": {"quick": 16, "thorough": 16}},
            {"name": "passwords", "pkg": "speaker", "test": "TestVerif_C15pw", "shards": 1},
            {"name": "resource", "pkg": "internal/k8s/controllers", "test": "TestVerif_C15rec", "shards": {"quick": 16, "thorough": 16}, "budget_s": {"quick": 150, "thorough": 1200}}],
  "rewrites": {"map": ["internal/bgp/frrk8s/frrk8s.go", "internal/bgp/frr/frr.go"]},
  "assumptions": ["meaning of an FRRConfiguration as documented by the frr-k8s API (allowed prefixes, prefixesWithCommunity, prefixesWithLocalPref)", "inputs FRR mode refuses (one prefix with two local-prefs on one session) are outside the alphabet"],
 },
 "C19": {
  "level": "model_checking",
  "rule": "stateless enumeration of every event sequence up to the depth over {submit A, submit B, submit C, resubmit the latest, re-apply-old, timer expiry with reload ok, timer expiry with reload failing} on the real debouncer goroutine (hand-shake driver: one offered event at a time; goroutine quiescence read from runtime.Stack) with the real reload action writing a scratch file and a scripted reload signal; every prefix is closed with succeeding reloads; reference model (latest, armed); states = distinct sequences, transitions = events delivered",
  "parts": [{"name": "frr", "pkg": "internal/bgp/frr", "test": "TestVerif_C19", "shards": {"quick": 16, "thorough": 16}, "budget_s": {"quick": 100, "thorough": 1500}},
            {"name": "frrk8s", "pkg": "internal/k8s/controllers", "test": "TestVerif_C19k", "shards": {"quick": 16, "thorough": 16}, "budget_s": {"quick": 60, "thorough": 900}},
            {"name": "manager", "pkg": "internal/bgp/frr", "test": "TestVerif_C19mgr", "shards": {"quick": 16, "thorough": 16}, "budget_s": {"quick": 60, "thorough": 900}},
            {"name": "reloader", "pkg": "internal/bgp/frr", "test": "TestVerif_C19reloader", "shards": 1},
            {"name": "closure", "pkg": "internal/bgp/frr", "test": "TestVerif_C19closure", "shards": {"quick": 4, "thorough": 16}, "budget_s": {"quick": 60, "thorough": 600}},
            {"name": "submitters", "pkg": "internal/bgp/frr", "test": "TestVerif_C19conc", "shards": {"quick": 8, "thorough": 16}, "budget_s": {"quick": 60, "thorough": 600}, "gomaxprocs": 1,
             "rewrites": {"sync": ["internal/bgp/frr/frr.go"], "chan": ["internal/bgp/frr/frr.go"], "map": ["internal/bgp/frr/frr.go"]}}],
  "blank_tests": ["internal/bgp/frr"],
  "rewrites": {"time": ["internal/bgp/frr/config.go", "internal/k8s/controllers/frrk8s_config_controller.go"], "map": ["internal/bgp/frr/frr.go"]},
  "assumptions": ["every ordering of a timer expiry relative to submissions that real time can produce is one of the enumerated sequences (a select with two ready cases equals one of the two orders)",
                  "120 s watchdogs only convert a real deadlock into a report"],
 },
 "C17": {
  "level": "model_checking",
  "rule": "stateless depth-first exploration of thread schedules (caller, run loop, reader, keepalive, peer-drop threads) of the real native BGP session under a cooperative scheduler with preemption bounding (bounds 0,1,2 completed in turn) over 12 caller programs (Set sequences with superset/subset/attribute-only/empty/disjoint changes, Close, 0-2 peer drops, unexpected ASN, 2-byte peer); states = complete executions, transitions = scheduling decisions; every execution runs the implementation",
  "parts": [{"name": "main", "pkg": "internal/bgp/native", "test": "TestVerif_C17", "shards": {"quick": 16, "thorough": 16}, "budget_s": {"quick": 100, "thorough": 1500}, "gomaxprocs": 1}],
  "rewrites": {"sync": ["internal/bgp/native/native.go"], "go": ["internal/bgp/native/native.go"], "time": ["internal/bgp/native/native.go"],
               "hooks": [{"file": "internal/bgp/native/native.go", "func": "dialMD5", "hook": "HookDialMD5"}]},
  "assumptions": ["scheduling points at mutex/cond operations, connection reads/writes, dial, sleep, thread start; unsynchronised accesses are the subject of the separate race pass (C20)",
                  "the keepalive ticker loop is suppressed and its effect (sendKeepalive) delivered by a harness thread", "in-memory connection: writes are atomic per call; TCP partial writes and MD5 are not modelled"],
 },
 "C13": {
  "level": "model_checking",
  "rule": "(seq) explicit-state BFS over announce / re-announce / withdraw histories (3 services x 3 addresses x 3 interface scopes) on the real Announce: use counts, responder decisions for every address x interface and gratuitous emissions on two in-memory ARP responders checked after every operation; (pkt) every ARP operation code 0..10 x Ethernet destination x target (held+covered, held+uncovered, not held) x malformed frames through the real processRequest; (conc) every interleaving with <=2/3 preemptions of a writer thread, a request thread and the spam-loop effect over 6 scenarios under the controlled scheduler, single-writer linearizability oracle; plus a free-running -race pass of the same bodies; (ndp-pkt) the real ndpResponder.processRequest over an in-memory connection: every neighbor-discovery message type x every option sequence of length <=3 over {source link-layer address, target link-layer address, nonce, second source link-layer address} x target (held+covered, held on the other interface, not held, not held but in the solicited-node group of a held address) x announcer state (base, one of two sharers withdrawn, last holder withdrawn, re-announced) x source x interface x every truncation point, decoded by an independent Neighbor Advertisement decoder; and explicit-state BFS to a fixpoint over IPv6 announce/withdraw histories checking group membership, answers and unsolicited advertisements on two in-memory NDP connections",
  "parts": [{"name": "main", "pkg": "internal/layer2", "test": "TestVerif_C13", "shards": {"quick": 16, "thorough": 16}, "budget_s": {"quick": 100, "thorough": 1500}, "gomaxprocs": 1},
            {"name": "race", "pkg": "internal/layer2", "test": "TestVerif_C13race", "shards": 1, "race": True, "rewrites": {"go": ["internal/layer2/announcer.go"]}},
            {"name": "ndp-groups", "pkg": "internal/layer2", "test": "TestVerif_C13ndp", "shards": 1, "free": True, "rewrites": {"go": ["internal/layer2/announcer.go"]}},
            {"name": "spam-loop", "pkg": "internal/layer2", "test": "TestVerif_C13spam", "shards": 1, "free": True, "gomaxprocs": 8, "rewrites": {"go": ["internal/layer2/announcer.go"]}},
            {"name": "ndp-pkt", "pkg": "internal/layer2", "test": "TestVerif_C13ndppkt", "shards": 8, "gomaxprocs": 1,
             "rewrites": {"go": ["internal/layer2/announcer.go", "internal/layer2/ndp.go"], "calls": NDP_CALLS}}],
  "rewrites": {"sync": ["internal/layer2/announcer.go"], "go": ["internal/layer2/announcer.go"], "map": ["internal/layer2/announcer.go"], "chan": ["internal/layer2/announcer.go"]},
  "assumptions": ["NDP packet path: ndp.Conn's four methods used by the responder (ReadFrom, WriteTo, JoinGroup, LeaveGroup) are redirected to an in-memory connection (R-call rewrite of ndp.go); frames are parsed by the library's own ParseMessage as Conn.ReadFrom does; a solicitation without source link-layer address option is not required to be answered (MetalLB drops it; the statement is silent); the kernel's view of solicited-node multicast membership is covered by the ndp-groups part where an ICMPv6 listener can be opened on a local interface (the part reports when it had to be skipped)",
                  "background interface scan and spam loop suppressed; the spam loop's effect (gratuitous of a queued advertisement) is delivered by the harness",
                  "race pass: 200 free-running iterations of the concurrent bodies compiled with -race (the only non-enumerative component)"],
 },
 "C20": {
  "level": "model_checking",
  "rule": "stateless depth-first exploration of thread schedules with preemption bounding (0,1,2 quick; 3 thorough) of concurrently delivered handler calls through the real k8s.Listener wrappers: controller half (service worker, pool worker, pool-counter fetcher; 4 scenarios) and speaker half (service, config and node workers, layer-2 status and BGP peers fetchers; 4 scenarios); oracle: final state == serial execution in lock-acquisition order; plus free-running -race passes of the same bodies and a syntactic wiring check of k8s.New",
  "parts": [{"name": "controller", "pkg": "controller", "test": "TestVerif_C20ctl", "shards": {"quick": 16, "thorough": 16}, "budget_s": {"quick": 90, "thorough": 1200}, "gomaxprocs": 1,
             "rewrites": {"sync": ["internal/k8s/listener.go", "internal/allocator/allocator.go"], "map": MAP_ALLOC}},
            {"name": "speaker", "pkg": "speaker", "test": "TestVerif_C20spk", "shards": {"quick": 16, "thorough": 16}, "budget_s": {"quick": 90, "thorough": 1200}, "gomaxprocs": 1,
             "rewrites": {"sync": ["internal/k8s/listener.go", "speaker/bgp_controller.go", "internal/layer2/announcer.go"], "go": ["internal/layer2/announcer.go"], "map": MAP_SPK_FULL}},
            {"name": "controller-race", "pkg": "controller", "test": "TestVerif_C20ctlRace", "shards": 1, "race": True, "rewrites": {"map": MAP_ALLOC}},
            {"name": "speaker-race", "pkg": "speaker", "test": "TestVerif_C20spkRace", "shards": 1, "race": True, "rewrites": {"go": ["internal/layer2/announcer.go"], "map": MAP_SPK_FULL}}],
  "assumptions": ["k8s.New needs a live API server: its wiring (reconcilers get the locking wrappers, one worker each) is checked syntactically",
                  "callbacks (countersChanged, layer2 status change, ads changed) are harness functions that yield", "race passes: 200 free-running iterations per scenario under -race (not an enumeration)"],
 },
}
