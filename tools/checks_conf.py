# per-property run configuration for bin/vcheck
MAP_CONFIG = ["internal/config/config.go", "internal/config/validation.go", "internal/k8s/controllers/config_conversion.go"]

CONF = {
 "C18": {
  "level": "exploration",
  "rule": "snapshot catalogue x every permutation of each listed kind (singly, and the full product for pairs of kinds) x explored map-iteration orders x 3 repetitions through real toConfig; a case is one (snapshot, validator, permutation set, map-order vector); distinct_nontrivial counts distinct non-identity permutation sets",
  "parts": [{"name": "main", "pkg": "internal/k8s/controllers", "test": "TestVerif_C18", "shards": {"quick": 8, "thorough": 16}}],
  "rewrites": {"map": MAP_CONFIG},
  "assumptions": ["map iteration orders explored: all orders of maps with <=3 keys, rotations+reversal above (DESIGN 2.1)",
                  "snapshots are drawn from a fixed catalogue (DESIGN 5/C18)"],
 },
 "C08": {
  "level": "exploration",
  "rule": "address-entry catalogue generated from a grammar (every CIDR /28../32 and every range of a 16-address IPv4 window crossing a /24, a window crossing a /16, IPv6 /124../128 window, wide CIDRs, spaces, inverted, IPv4-mapped, mixed-family, garbage): every single entry, every ordered pair (two pools / one pool), every triple of a 40-entry sub-catalogue, node internal IPs x pools, advertisement attachment product, aggregation length 0..32/0..128 per CIDR pool, local-pref conflict product; each through real config.For and judged by refcidr (128-bit interval sets); distinct_nontrivial counts distinct resource sets",
  "parts": [{"name": "main", "pkg": "internal/config", "test": "TestVerif_C08", "shards": {"quick": 16, "thorough": 16}}],
  "assumptions": ["inputs are drawn from the notation catalogue (DESIGN 5/C08); over-rejection by config.For is not a violation (the statement constrains accepted configurations)",
                  "local-pref conflicts judged on names as written"],
 },
 "C16": {
  "level": "exploration",
  "rule": "encoders: full product prefix length 0..32 x 6 address patterns x 9 ASNs across the 2/4-byte boundary x iBGP/eBGP x 4-byte capable x 4 local-prefs x community counts {0,1,2,62,63} x 3 next hops (+ edge cases: 16-byte next hop, large community, 64 communities, call after a failed call), withdraws of 0..3 prefixes of every length, OPEN over ASN x hold time x router id; each decoded by the independent bgpwire decoder. OPEN reader: every capability sequence of length <=3 from a 12-capability catalogue x packing x trailers, header/body variant product, NOTIFICATION bodies, every truncation point, delivered at once and one byte per read; distinct_nontrivial counts distinct inputs",
  "parts": [{"name": "main", "pkg": "internal/bgp/native", "test": "TestVerif_C16", "shards": {"quick": 16, "thorough": 16}}],
  "assumptions": ["valid encoder domain: 4-byte next hop, <=63 legacy communities, not (eBGP and 2-byte peer and ASN>65535)",
                  "well-formed OPEN = RFC 4271 message of length 29+optlen, version 4, hold time 0 or >=3, only capability parameters, capability 65/1 of length 4"],
 },
}
