# per-property run configuration for bin/vcheck
MAP_CONFIG = ["internal/config/config.go", "internal/config/validation.go", "internal/k8s/controllers/config_conversion.go"]

CONF = {
 "C18": {
  "level": "exploration",
  "rule": "snapshot catalogue x every permutation of each listed kind (singly, and the full product for pairs of kinds) x explored map-iteration orders x 3 repetitions through real toConfig; a case is one (snapshot, validator, permutation set, map-order vector); distinct_nontrivial counts distinct non-identity permutation sets",
  "parts": [{"name": "main", "pkg": "internal/k8s/controllers", "test": "TestVerif_C18", "shards": {"quick": 8, "thorough": 16}}],
  "rewrites": {"map": MAP_CONFIG},
  "assumptions": ["map iteration orders explored: all orders of maps with <=3 keys, rotations+reversal above (DESIGN 2.1)",
                  "snapshots are drawn from a fixed catalogue (DESIGN 5/C18)"],
 },
}
