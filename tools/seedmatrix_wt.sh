#!/bin/sh
# usage: tools/seedmatrix_wt.sh [-w] [-c ID] <worktree> <seed-name>...
# Like seedmatrix.sh, but applies each seed to a scratch worktree of /repo (created at /repo's HEAD if it does not exist,
# outside /repo and /verif) and runs the check with VERIF_REPO pointing at it: /repo itself is never touched, so several
# of these can run side by side. Evidence files are restored afterwards. Remove the worktree when done:
#   git -C /repo worktree remove --force <worktree>
write=0; other=""
while [ $# -gt 0 ]; do case "$1" in -w) write=1; shift;; -c) other=$2; shift 2;; *) break;; esac; done
wt=$1; shift
cd /verif || exit 2
[ -d "$wt" ] || git -C /repo worktree add --detach "$wt" HEAD -q || exit 2
git -C "$wt" checkout -q --detach $(git -C /repo rev-parse HEAD) 2>/dev/null
tag=$(basename "$wt")
for name in "$@"; do
  d=/verif/seeded/$name
  prop=$(python3 -c "import json;print(json.load(open('$d/meta.json'))['property'])")
  id=${other:-$prop}
  git -C "$wt" checkout -q -- . ; git -C "$wt" clean -fdq
  git -C "$wt" apply $d/patch.diff || { echo "$name: patch does not apply"; continue; }
  s=$(date +%s)
  VERIF_REPO=$wt VERIF_EVIDENCE_DIR=/tmp/evidence-$tag VERIF_REPLAY_DIR=/tmp/replay-$tag bin/vcheck $id --tier quick > /tmp/seedm-$name.out 2> /tmp/seedm-$name.err; rc=$?
  e=$(( $(date +%s) - s ))
  git -C "$wt" checkout -q -- . ; git -C "$wt" clean -fdq
  nv=$(grep -c '^VIOLATION' /tmp/seedm-$name.out)
  sigs=$(grep '^violation sig=' /tmp/seedm-$name.err | sed 's/^violation sig=//; s/ ([0-9]* cases)$//' | head -4 | sed "s/^/'/; s/\$/'/" | paste -sd, -)
  if [ $rc -eq 1 ] && [ $nv -gt 0 ]; then verdict=DETECTED; else verdict="MISSED(rc=$rc)"; fi
  echo "$name check=$id $verdict ${e}s $sigs" | cut -c1-400
  if [ $write -eq 1 ] && [ "$verdict" = DETECTED ]; then
    python3 - "$d/meta.json" "$id" "$sigs" <<'PY'
import json,sys
p,id,sigs=sys.argv[1:4]
m=json.load(open(p))
cur=m.get("detected_by","")
line="%s quick: sigs %s"%(id,sigs)
if cur.startswith("(filled") or not cur: m["detected_by"]=line
elif line.split(":")[0] not in cur: m["detected_by"]=cur+"; "+line
json.dump(m,open(p,"w"),indent=1)
PY
  fi
done
