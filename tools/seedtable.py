#!/usr/bin/env python3
"""Rewrites the seed table of DESIGN.md (between the SEEDTABLE markers) from seeded/*/meta.json."""
import json, os, re, glob
HERE = os.path.dirname(os.path.dirname(os.path.abspath(__file__)))
rows = []
for d in sorted(glob.glob(os.path.join(HERE, "seeded", "*"))):
    m = json.load(open(os.path.join(d, "meta.json")))
    det = m.get("detected_by", "").replace("|", "/").replace("\n", " ")
    rows.append("| %s | %s | %s |" % (os.path.basename(d), m["property"], det))
table = "| seed | property | reported by |\n|---|---|---|\n" + "\n".join(rows) + "\n"
p = os.path.join(HERE, "DESIGN.md")
s = open(p).read()
a, b = "<!-- SEEDTABLE-BEGIN -->\n", "<!-- SEEDTABLE-END -->\n"
s = s[:s.index(a) + len(a)] + table + s[s.index(b):]
open(p, "w").write(s)
print(len(rows), "seeds")
