#!/bin/sh
# usage: tools/round.sh <worktree-prefix e.g. /tmp/seed6-> <first suffix number e.g. 9>   (verifies + keeps both seeds of every property, 4 properties at a time)
pre=$1; first=$2
cd /verif
run() { for id in "$@"; do for n in 1 2; do tools/seedverify_auto.py ${pre}$id $n $id-$((first+n-1)) $id; done; done; }
run C01 C02 C03 C04 C05 > /tmp/round-a.log 2>&1 &
run C06 C07 C08 C09 C10 > /tmp/round-b.log 2>&1 &
run C11 C12 C13 C14 C15 > /tmp/round-c.log 2>&1 &
run C16 C17 C18 C19 C20 > /tmp/round-d.log 2>&1 &
wait
cat /tmp/round-[abcd].log | grep "demo-without\|KEPT\|REJECTED\|cannot parse" | paste - - | cut -c1-170
