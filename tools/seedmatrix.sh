#!/bin/sh
# usage: tools/seedmatrix.sh [-w] [-c ID] <seed-name>...   (default: every directory under /verif/seeded)
# Applies each kept seed to /repo, runs the quick check of its property (or of -c ID), reverts, and prints one line per seed.
# With -w the result is written to the seed's meta.json ("detected_by"). Evidence files are restored afterwards.
write=0; other=""
while [ $# -gt 0 ]; do case "$1" in -w) write=1; shift;; -c) other=$2; shift 2;; *) break;; esac; done
cd /verif || exit 2
[ $# -eq 0 ] && set -- $(ls seeded)
for name in "$@"; do
  d=/verif/seeded/$name
  prop=$(python3 -c "import json;print(json.load(open('$d/meta.json'))['property'])")
  id=${other:-$prop}
  if ! git -C /repo diff --quiet; then echo "/repo has uncommitted changes"; exit 2; fi
  git -C /repo apply $d/patch.diff || { echo "$name: patch does not apply"; continue; }
  cp evidence/$id.json /tmp/evidence-$id.bak 2>/dev/null
  s=$(date +%s)
  bin/vcheck $id --tier quick > /tmp/seedm-$name.out 2> /tmp/seedm-$name.err; rc=$?
  e=$(( $(date +%s) - s ))
  cp /tmp/evidence-$id.bak evidence/$id.json 2>/dev/null
  git -C /repo checkout -- .
  nv=$(grep -c '^VIOLATION' /tmp/seedm-$name.out)
  sigs=$(grep '^violation sig=' /tmp/seedm-$name.err | sed 's/^violation sig=//; s/ ([0-9]* cases)$//' | head -4 | sed "s/^/'/; s/\$/'/" | paste -sd, -)
  if [ $rc -eq 1 ] && [ $nv -gt 0 ]; then verdict=DETECTED; else verdict="MISSED(rc=$rc)"; fi
  echo "$name check=$id $verdict ${e}s $sigs" | cut -c1-400
  if [ $write -eq 1 ] && [ "$verdict" = DETECTED ]; then
    python3 - "$d/meta.json" "$id" "$sigs" <<'PY'
import json,sys
p,id,sigs=sys.argv[1:4]
m=json.load(open(p))
cur=m.get("detected_by","")
line="%s quick: sigs %s"%(id,sigs)
if cur.startswith("(filled") or not cur: m["detected_by"]=line
elif line.split(":")[0] not in cur: m["detected_by"]=cur+"; "+line
json.dump(m,open(p,"w"),indent=1)
PY
  fi
done
