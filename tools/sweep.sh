#!/bin/sh
# usage: tools/sweep.sh [tier]  -- runs every check on /repo as it is; one line per check
tier=${1:-quick}
cd /verif
for i in $(seq 1 20); do id=$(printf "C%02d" $i); s=$(date +%s)
  bin/vcheck $id --tier $tier > /tmp/sweep-$id.out 2> /tmp/sweep-$id.err; rc=$?
  echo "$id rc=$rc $(( $(date +%s)-s ))s viol=$(grep -c '^VIOLATION' /tmp/sweep-$id.out) known=$(grep -c '^KNOWN-FINDING' /tmp/sweep-$id.out) $(grep -o 'exhaustive=[A-Za-z]*' /tmp/sweep-$id.err | tail -1)"
done
