#!/usr/bin/env python3
"""usage: tools/seedverify_auto.py <worktree> <n> <name> <property>
Reads the go test command from the first lines of <worktree>/SEED/<n>/demo_test.go and calls tools/seedverify.sh."""
import re, subprocess, sys, os
wt, n, name, prop = sys.argv[1:5]
sd = os.path.join(wt, "SEED", n)
head = "".join(open(os.path.join(sd, "demo_test.go")).readlines()[:6])
m = re.search(r"-run\s+'([^']+)'\s+\./([\w/.-]+?)/?(\s|$)", head)
if not m:
    m = re.search(r'-run\s+"?([^\s"]+)"?\s+\./([\w/.-]+?)/?(\s|$)', head)
if not m:
    print(name, "cannot parse demo header:", head[:300]); sys.exit(2)
regex, pkg = m.group(1), m.group(2).rstrip("/")
ov = re.search(r"-overlay=(\S+)", head)
if ov and pkg == "internal/bgp/frr":
    # the demonstration lives in the package whose TestMain needs Docker: use the stub overlay the author shipped
    sys.exit(subprocess.call(["/verif/tools/seedverify_overlay.sh", wt, n, pkg, regex, ov.group(1), name, prop]))
env = dict(os.environ, GOFLAGS="-mod=mod", GOPROXY="off")
pk = subprocess.run("go list ./internal/... ./controller/ ./speaker/ | grep -v 'internal/bgp/frr$' | tr '\\n' ' '", shell=True, cwd="/repo", env=env, capture_output=True, text=True).stdout
sys.exit(subprocess.call(["/verif/tools/seedverify.sh", wt, sd, pkg, regex, name, prop, pk]))
