//go:build verif

package main

// L2 driver of the allocation group (C01, C02, C03, C06, C07, C11): the real
// controller (SetBalancer, SetPools) behind the real k8s.Listener wrappers,
// driven by the real ServiceReconciler / PoolReconciler over the verifenv store
// and queue automaton. See DESIGN.md section 5 (allocation group).

import (
	"reflect"
	"context"
	"errors"
	"fmt"
	"sort"
	"strings"

	"github.com/go-kit/log"
	metallbv1beta1 "go.universe.tf/metallb/api/v1beta1"
	"go.universe.tf/metallb/internal/allocator"
	"go.universe.tf/metallb/internal/config"
	"go.universe.tf/metallb/internal/k8s"
	"go.universe.tf/metallb/internal/k8s/controllers"
	"go.universe.tf/metallb/internal/verifenv"
	"go.universe.tf/metallb/internal/verifrt"
	"go.universe.tf/metallb/internal/verifrt/refalloc"
	v1 "k8s.io/api/core/v1"
	discovery "k8s.io/api/discovery/v1"
	metav1 "k8s.io/apimachinery/pkg/apis/meta/v1"
	"k8s.io/apimachinery/pkg/types"
	ctrl "sigs.k8s.io/controller-runtime"
	"sigs.k8s.io/controller-runtime/pkg/event"
)

const verifNS = "metallb-system"

type slotT struct {
	NS, Name string
}

func (s slotT) Key() string { return s.NS + "/" + s.Name }

type universe struct {
	Name       string
	Namespaces []v1.Namespace
	Layouts    [][]metallbv1beta1.IPAddressPool
	Slots      []slotT
	Variants   []*v1.Service // spec / labels / user annotations only; name and namespace come from the slot
	VarNames   []string
	// SlotVariants restricts which variants a slot may take (nil = all).
	SlotVariants map[int][]int
	// Preload: Services that exist, with recorded statuses, when the (first) controller instance starts -
	// the initial state is then a restart on that store.
	Preload []preSvc
	// LBClass: the controller is started with --lb-class=<LBClass> (it then only handles Services of that class)
	LBClass string
	// DefaultIPMode: the API server fills in status.loadBalancer.ingress[].ipMode = "VIP" where an entry has an IP and no
	// mode (LoadBalancerIPMode, on by default since Kubernetes 1.30, locked on in 1.32 - the API version MetalLB vendors)
	DefaultIPMode bool
	// RetryUserEvents: user events are also offered while nothing is pending but the retry of deliveries that ended in an
	// error (a retry in back-off waits arbitrarily long; the next change may well arrive first)
	RetryUserEvents bool
}

type preSvc struct {
	Slot, Variant int
	Status        []string
	FromPool      string
	// Terminating: the Service is being deleted (deletionTimestamp set, kept by a finalizer): it still exists and still
	// holds what is recorded for it
	Terminating bool
}

type crashSignal struct{ when string }

// ctlSys is one live controller instance plus its environment.
type ctlSys struct {
	u        *universe
	store    *verifenv.Store
	svcQ     *verifenv.Queue
	poolQ    *verifenv.Queue
	c        *controller
	lst      *k8s.Listener
	sr       *controllers.ServiceReconciler
	pr       *controllers.PoolReconciler
	reloadCh chan event.GenericEvent

	layout        int // layout currently in the store
	appliedLayout int // layout last handed to SetPools (-1 none)
	// C18 (integrated): was the pool handler invoked by the last pool delivery, did the last invocation succeed, and
	// did the allocator already have exactly the cluster's layout when that delivery started
	poolHandlerCalled, lastSetPoolsOK, poolDeliveryUnchanged bool
	layoutDumps   []string

	// environment answers for the delivery in progress
	failWrites  int // fail this many status writes (from the first)
	crashAtWrite int // 1 = crash before the first write persists, 2 = right after it persisted
	writes      int // status writes performed in the current delivery
	totalWrites int

	// bookkeeping for oracles (not handler-visible)
	lastPresented map[string]*v1.Service // as last passed to SetBalancer (nil entry = deleted)
	refStatuses   map[string]string      // statuses at the last quiescent state or crash point
	refSvcs       map[string]string      // service objects (user part) at that point
	refKind       string                 // "quiescent" | "crash"
	lastUser      verifrt.Event
	burst         int // user events applied since the last delivery
	lastUserDesc  string
	gateViolation string
	fullSyncOK    bool // harness's own record: a full re-sync of this controller instance returned without error
	panicMsg      string
	handlerCalls  []string // handler calls of the current delivery
	allocEdges    []allocEdge
	incarnation   int
	errKeys       map[string]bool // pending service keys whose last delivery ended in an error
}

// onlyRetriesPending: every pending piece of work is the retry of a delivery that ended in an error.
func (s *ctlSys) onlyRetriesPending() bool {
	if s.poolQ.Has("pool") || len(s.svcQ.Keys()) == 0 {
		return false
	}
	for _, k := range s.svcQ.Keys() {
		if !s.errKeys[k] {
			return false
		}
	}
	return true
}

// allocEdge records a status transition empty -> non-empty made by one handler call.
type allocEdge struct {
	Key      string
	Svc      *v1.Service // as presented
	IPs      []string
	PreHold  refalloc.Holdings // allocator holdings before the call
	PreSvcs  map[string]*v1.Service
	Layout   int
}

type sysClient struct{ s *ctlSys }

func (sc sysClient) UpdateStatus(svc *v1.Service) error {
	s := sc.s
	s.writes++
	s.totalWrites++
	if s.crashAtWrite == 1 && s.writes == 1 {
		panic(crashSignal{"before-write"})
	}
	if s.writes <= s.failWrites {
		return errors.New("verif: injected status write failure")
	}
	cur, _ := s.store.Peek("Service", svc.Namespace, svc.Name).(*v1.Service)
	if cur == nil {
		return errors.New("verif: service not found")
	}
	// Service status strategy: status and metadata are persisted, spec is not (DESIGN F15)
	upd := cur.DeepCopy()
	upd.Status = *svc.Status.DeepCopy()
	upd.Annotations = map[string]string{}
	for k, v := range svc.Annotations {
		upd.Annotations[k] = v
	}
	if len(upd.Annotations) == 0 {
		upd.Annotations = nil
	}
	if s.u.DefaultIPMode && upd.Spec.Type == v1.ServiceTypeLoadBalancer {
		vip := v1.LoadBalancerIPModeVIP
		for i := range upd.Status.LoadBalancer.Ingress {
			if upd.Status.LoadBalancer.Ingress[i].IP != "" && upd.Status.LoadBalancer.Ingress[i].IPMode == nil {
				upd.Status.LoadBalancer.Ingress[i].IPMode = &vip
			}
		}
	}
	s.store.Put(upd)
	if !reflect.DeepEqual(cur, upd) {
		s.svcQ.Add(svc.Namespace + "/" + svc.Name) // the controller sees its own write (an update that changes nothing produces no event)
	}
	if s.crashAtWrite == 2 && s.writes == 1 {
		panic(crashSignal{"after-write"})
	}
	return nil
}
func (sc sysClient) Infof(svc *v1.Service, desc, msg string, args ...interface{})  {}
func (sc sysClient) Errorf(svc *v1.Service, desc, msg string, args ...interface{}) {}

func newCtlSys(u *universe) *ctlSys {
	s := &ctlSys{u: u, store: verifenv.NewStore(), appliedLayout: -1}
	for _, ns := range u.Namespaces {
		s.store.Put(ns.DeepCopy())
	}
	s.setLayoutObjects(0)
	for j := range u.Layouts {
		res := config.ClusterResources{Pools: u.Layouts[j], Namespaces: u.Namespaces}
		cfg, err := config.For(res, config.DontValidate)
		if err != nil {
			s.layoutDumps = append(s.layoutDumps, "rejected:"+err.Error())
		} else {
			s.layoutDumps = append(s.layoutDumps, controllers.VerifPoolsDump(cfg.Pools))
		}
	}
	s.start()
	s.poolQ.Add("pool")
	for _, p := range u.Preload {
		svc := s.materialise(p.Slot, p.Variant)
		for _, ip := range p.Status {
			svc.Status.LoadBalancer.Ingress = append(svc.Status.LoadBalancer.Ingress, v1.LoadBalancerIngress{IP: ip})
		}
		if p.FromPool != "" {
			if svc.Annotations == nil {
				svc.Annotations = map[string]string{}
			}
			svc.Annotations[refalloc.AnnFromPool] = p.FromPool
		}
		if p.Terminating {
			now := metav1.Now()
			svc.DeletionTimestamp = &now
			svc.Finalizers = []string{"example.com/hold"}
		}
		s.store.Put(svc)
		s.svcQ.Add(u.Slots[p.Slot].Key())
	}
	if len(u.Preload) > 0 {
		s.lastUserDesc = "restart"
		s.snapshotRef("crash")
	} else {
		s.snapshotRef("quiescent")
	}
	return s
}

func (s *ctlSys) setLayoutObjects(j int) {
	s.store.RemoveAll("IPAddressPool")
	for i := range s.u.Layouts[j] {
		s.store.Put(s.u.Layouts[j][i].DeepCopy())
	}
	s.layout = j
}

// start creates a fresh controller process (allocator, controller, listener, reconcilers, queues).
func (s *ctlSys) start() {
	s.incarnation++
	s.svcQ, s.poolQ = verifenv.NewQueue(), verifenv.NewQueue()
	s.reloadCh = make(chan event.GenericEvent, 256)
	s.c = &controller{ips: allocator.New(func(string) {}), client: sysClient{s}}
	s.lastPresented = map[string]*v1.Service{}
	s.fullSyncOK = false
	s.appliedLayout = -1
	s.lst = &k8s.Listener{
		ServiceChanged: func(l log.Logger, name string, svc *v1.Service, eps []discovery.EndpointSlice) controllers.SyncState {
			return s.serviceChanged(l, name, svc, eps)
		},
		PoolChanged: func(l log.Logger, pools *config.Pools) controllers.SyncState {
			d := controllers.VerifPoolsDump(pools)
			s.appliedLayout = -2
			for j, ld := range s.layoutDumps {
				if ld == d {
					s.appliedLayout = j
				}
			}
			s.handlerCalls = append(s.handlerCalls, "SetPools")
			s.poolHandlerCalled = true
			st := s.c.SetPools(l, pools)
			s.lastSetPoolsOK = st == controllers.SyncStateSuccess || st == controllers.SyncStateReprocessAll
			return st
		},
	}
	s.sr = &controllers.ServiceReconciler{Client: s.store, Logger: log.NewNopLogger(), Handler: s.lst.ServiceHandler, Reload: s.reloadCh}
	s.sr.LoadBalancerClass = s.u.LBClass
	s.pr = &controllers.PoolReconciler{Client: s.store, Logger: log.NewNopLogger(), Namespace: verifNS, Handler: s.lst.PoolHandler,
		ValidateConfig: config.DontValidate, ForceReload: func() { s.reloadCh <- controllers.NewReloadEvent() }}
}

func (s *ctlSys) holdings() refalloc.Holdings {
	return refalloc.Holdings(s.c.ips.VerifHolders())
}

func (s *ctlSys) serviceChanged(l log.Logger, name string, svc *v1.Service, eps []discovery.EndpointSlice) controllers.SyncState {
	// (a deletion - svc == nil - cannot allocate anything and may pass the gate: the handler releases what an
	// interrupted first sync recorded for a Service that no longer exists)
	if svc != nil && (!s.sr.VerifInitialLoadPerformed() || !s.fullSyncOK) && len(s.handlerCalls) > 0 && s.handlerCalls[0] == "single" {
		s.gateViolation = "handler ran for single-service key " + name + " before the first full sync completed"
	}
	preIPs := s.c.ips.IPs(name)
	var preHold refalloc.Holdings
	var preSvcs map[string]*v1.Service
	if len(preIPs) == 0 && svc != nil {
		preHold = s.holdings()
		preSvcs = map[string]*v1.Service{}
		for k, v := range s.lastPresented {
			if v != nil {
				preSvcs[k] = v
			}
		}
	}
	if svc != nil {
		s.lastPresented[name] = svc.DeepCopy()
	} else {
		delete(s.lastPresented, name)
	}
	s.handlerCalls = append(s.handlerCalls, "SetBalancer:"+name)
	res := s.c.SetBalancer(l, name, svc, eps)
	if post := s.c.ips.IPs(name); len(preIPs) == 0 && len(post) > 0 && svc != nil {
		var ips []string
		for _, ip := range post {
			ips = append(ips, ip.String())
		}
		s.allocEdges = append(s.allocEdges, allocEdge{Key: name, Svc: svc.DeepCopy(), IPs: ips, PreHold: preHold, PreSvcs: preSvcs, Layout: s.appliedLayout})
	}
	return res
}

func (s *ctlSys) quiescent() bool { return s.svcQ.Empty() && s.poolQ.Empty() }

func (s *ctlSys) services() map[string]*v1.Service {
	out := map[string]*v1.Service{}
	for _, k := range s.store.Keys("Service") {
		parts := strings.SplitN(k, "/", 2)
		out[k] = s.store.Peek("Service", parts[0], parts[1]).(*v1.Service)
	}
	return out
}

func statusOf(svc *v1.Service) string {
	var ips []string
	for _, in := range svc.Status.LoadBalancer.Ingress {
		ips = append(ips, in.IP)
	}
	sort.Strings(ips)
	return strings.Join(ips, ",")
}

func userPart(svc *v1.Service) string {
	ann := map[string]string{}
	for k, v := range svc.Annotations {
		if k != refalloc.AnnFromPool {
			ann[k] = v
		}
	}
	return fmt.Sprintf("type=%s ports=%v policy=%s sel=%v ann=%v lbl=%v cips=%v fam=%v pol=%v lbip=%s", svc.Spec.Type, svc.Spec.Ports, svc.Spec.ExternalTrafficPolicy,
		svc.Spec.Selector, ann, svc.Labels, svc.Spec.ClusterIPs, svc.Spec.IPFamilies, famPol(svc), svc.Spec.LoadBalancerIP)
}

func famPol(svc *v1.Service) string {
	if svc.Spec.IPFamilyPolicy == nil {
		return ""
	}
	return string(*svc.Spec.IPFamilyPolicy)
}

func (s *ctlSys) snapshotRef(kind string) {
	s.refKind = kind
	s.refStatuses, s.refSvcs = map[string]string{}, map[string]string{}
	for k, svc := range s.services() {
		s.refStatuses[k] = statusOf(svc)
		s.refSvcs[k] = userPart(svc)
	}
}

func (s *ctlSys) storeDump() string {
	var b strings.Builder
	fmt.Fprintf(&b, "layout=%d\n", s.layout)
	svcs := s.services()
	var ks []string
	for k := range svcs {
		ks = append(ks, k)
	}
	sort.Strings(ks)
	for _, k := range ks {
		svc := svcs[k]
		// statusOf is order-insensitive (what the oracles compare); the listing order of the ingress entries is part of the
		// state all the same: a re-sync that only reorders them is a write, and it is followed by another delivery
		raw := ""
		for _, in := range svc.Status.LoadBalancer.Ingress {
			raw += in.IP + ";"
		}
		fmt.Fprintf(&b, "svc %s %s status=%s order=%s from=%s\n", k, userPart(svc), statusOf(svc), raw, svc.Annotations[refalloc.AnnFromPool])
	}
	return b.String()
}

func (s *ctlSys) Key() string {
	var b strings.Builder
	b.WriteString(s.storeDump())
	fmt.Fprintf(&b, "svcQ=%v poolQ=%v\n", s.svcQ.Keys(), s.poolQ.Keys())
	if burstMode && s.burst == 1 && !s.quiescent() {
		b.WriteString("user-event-may-follow\n")
	}
	if s.u.RetryUserEvents {
		var ek []string
		for k := range s.errKeys {
			if s.svcQ.Has(k) {
				ek = append(ek, k)
			}
		}
		sort.Strings(ek)
		fmt.Fprintf(&b, "retries=%v\n", ek)
	}
	b.WriteString(s.c.ips.VerifDump())
	fmt.Fprintf(&b, "cpools=%s\n", controllers.VerifPoolsDump(s.c.pools))
	fmt.Fprintf(&b, "initialLoad=%v/%v prcfg=%s\n", s.sr.VerifInitialLoadPerformed(), s.fullSyncOK, s.pr.VerifCurrentConfig())
	var lp []string
	for k, v := range s.lastPresented {
		if v != nil {
			lp = append(lp, k+"="+userPart(v))
		}
	}
	sort.Strings(lp)
	fmt.Fprintf(&b, "presented=%v\n", lp)
	if !s.quiescent() {
		// macro-edge oracles (C03, C06) compare the next quiescent state with the reference point:
		// while settling, the reference is part of the state.
		var rs []string
		for k, v := range s.refStatuses {
			rs = append(rs, k+"="+v+"|"+s.refSvcs[k])
		}
		sort.Strings(rs)
		fmt.Fprintf(&b, "ref[%s]=%v\n", s.refKind, rs)
	}
	if s.panicMsg != "" {
		b.WriteString("PANIC " + s.panicMsg)
	}
	return b.String()
}

func (s *ctlSys) variantsFor(slot int) []int {
	if v, ok := s.u.SlotVariants[slot]; ok {
		return v
	}
	out := make([]int, len(s.u.Variants))
	for i := range out {
		out[i] = i
	}
	return out
}

func (s *ctlSys) materialise(slot, variant int) *v1.Service {
	sl := s.u.Slots[slot]
	svc := s.u.Variants[variant].DeepCopy()
	svc.Name, svc.Namespace = sl.Name, sl.NS
	return svc
}

// burstMode: a second user event may arrive right after a user event, before anything of the first has been
// delivered (two API changes observed together: e.g. a delete and a create before the controller runs).
// User events are otherwise offered at quiescent states only.
var burstMode = true
var faultMenu = false
var crashMenu = false
var poolFaultMenu = false
var readFaultMenu = false
var poolResyncMenu = false
var poolFaultKinds = []string{"Namespace", "IPAddressPool", "Community"}

func (s *ctlSys) Enabled() []verifrt.Event {
	var evs []verifrt.Event
	if s.panicMsg != "" {
		return nil
	}
	// deliveries first (environment events, simplest first)
	if s.poolQ.Has("pool") {
		evs = append(evs, verifrt.Event{Kind: "pool"})
	}
	for _, k := range s.svcQ.Keys() {
		evs = append(evs, verifrt.Event{Kind: "svc", S: k})
	}
	if faultMenu {
		for _, k := range s.svcQ.Keys() {
			evs = append(evs, verifrt.Event{Kind: "svc", S: k, B: 1, Fault: true}) // first status write of this delivery fails
		}
		if s.svcQ.Has("reload") && !s.fullSyncOK {
			evs = append(evs, verifrt.Event{Kind: "svc", S: "reload", B: 2, Fault: true}) // listing the Services fails during the first full sync
		}
	}
	if readFaultMenu {
		for _, k := range s.svcQ.Keys() {
			if k != "reload" {
				evs = append(evs, verifrt.Event{Kind: "svc", S: k, B: 3, Fault: true}) // reading the Service fails once (not a "not found")
			}
		}
	}
	if poolFaultMenu && s.poolQ.Has("pool") {
		// listing one of the kinds the pool reconciler reads fails once during this delivery
		for b := range poolFaultKinds {
			evs = append(evs, verifrt.Event{Kind: "pool", B: b + 1, Fault: true})
		}
	}
	if crashMenu {
		for _, k := range s.svcQ.Keys() {
			evs = append(evs, verifrt.Event{Kind: "svc", S: k, A: 1, Fault: true}) // crash before the first write persists
			evs = append(evs, verifrt.Event{Kind: "svc", S: k, A: 2, Fault: true}) // crash right after the first write persisted
		}
		evs = append(evs, verifrt.Event{Kind: "crash", Fault: true})
	}
	if s.quiescent() || (burstMode && s.burst == 1) || (s.u.RetryUserEvents && faultMenu && s.onlyRetriesPending()) {
		svcs := s.services()
		for i, sl := range s.u.Slots {
			cur := svcs[sl.Key()]
			for _, v := range s.variantsFor(i) {
				if cur != nil && userPart(cur) == userPart(s.materialise(i, v)) {
					continue
				}
				evs = append(evs, verifrt.Event{Kind: "set", A: i, B: v, User: true})
			}
			if cur != nil {
				evs = append(evs, verifrt.Event{Kind: "del", A: i, User: true})
			}
			if cur != nil && readFaultMenu {
				// the informer delivers the unchanged object once more (periodic re-sync, reconnect): at-least-once delivery
				evs = append(evs, verifrt.Event{Kind: "touch", A: i, User: true})
			}
		}
		if (poolFaultMenu || poolResyncMenu) && s.quiescent() {
			// an event that re-runs the pool reconciler although nothing it reads changed (a namespace gets an unrelated label,
			// the informer re-lists)
			evs = append(evs, verifrt.Event{Kind: "poolresync", User: true})
		}
		for j := range s.u.Layouts {
			if j != s.layout {
				evs = append(evs, verifrt.Event{Kind: "layout", A: j, User: true})
			}
		}
	}
	return evs
}

func (s *ctlSys) drainReload() {
	for {
		select {
		case <-s.reloadCh:
			s.svcQ.Add("reload")
		default:
			return
		}
	}
}

func (s *ctlSys) describeSet(slot, variant int) string {
	cur := s.services()[s.u.Slots[slot].Key()]
	if cur == nil {
		return "create"
	}
	nw := s.materialise(slot, variant)
	// primary cause, by priority: what the update frees or moves
	ra, rb := refalloc.RequestOf(cur), refalloc.RequestOf(nw)
	switch {
	case cur.Spec.Type != nw.Spec.Type:
		return "update:type"
	case fmt.Sprint(cur.Spec.ClusterIPs, famPol(cur)) != fmt.Sprint(nw.Spec.ClusterIPs, famPol(nw)):
		return "update:families"
	case fmt.Sprint(ra) != fmt.Sprint(rb):
		return "update:request"
	case fmt.Sprint(cur.Spec.Ports) != fmt.Sprint(nw.Spec.Ports):
		return "update:ports"
	case refalloc.SharingKey(cur) != refalloc.SharingKey(nw):
		return "update:sharing-key"
	case cur.Spec.ExternalTrafficPolicy != nw.Spec.ExternalTrafficPolicy || fmt.Sprint(cur.Spec.Selector) != fmt.Sprint(nw.Spec.Selector):
		return "update:backend"
	case fmt.Sprint(cur.Labels) != fmt.Sprint(nw.Labels):
		return "update:labels"
	}
	return "update:other"
}

func (s *ctlSys) Apply(ev verifrt.Event) {
	s.handlerCalls = nil
	s.allocEdges = nil
	s.writes, s.failWrites, s.crashAtWrite = 0, 0, 0
	if (ev.User || ev.Kind == "crash") && ev.Kind != "svc" {
		if s.quiescent() {
			s.snapshotRef("quiescent")
		}
		s.lastUser = ev
	}
	if ev.User && ev.Kind != "svc" {
		s.burst++
	} else {
		s.burst = 0
	}
	switch ev.Kind {
	case "set":
		s.lastUserDesc = s.describeSet(ev.A, ev.B)
		nw := s.materialise(ev.A, ev.B)
		if cur := s.services()[s.u.Slots[ev.A].Key()]; cur != nil {
			// an update keeps what the controller manages: status and the allocated-from-pool annotation
			// (variants named *-statuswiped model an update that also resets status.loadBalancer, as the API
			// server does when the type stops being LoadBalancer)
			if !strings.HasSuffix(s.u.VarNames[ev.B], "-statuswiped") {
				nw.Status = *cur.Status.DeepCopy()
			}
			if v, ok := cur.Annotations[refalloc.AnnFromPool]; ok {
				if nw.Annotations == nil {
					nw.Annotations = map[string]string{}
				}
				nw.Annotations[refalloc.AnnFromPool] = v
			}
		}
		s.store.Put(nw)
		s.svcQ.Add(s.u.Slots[ev.A].Key())
	case "del":
		s.lastUserDesc = "delete"
		sl := s.u.Slots[ev.A]
		s.store.Remove("Service", sl.NS, sl.Name)
		s.svcQ.Add(sl.Key())
		// a Service created later under this name is another Service: the reference point no longer speaks about it
		delete(s.refStatuses, sl.Key())
		delete(s.refSvcs, sl.Key())
	case "layout":
		s.lastUserDesc = "layout"
		s.setLayoutObjects(ev.A)
		s.poolQ.Add("pool")
	case "touch":
		s.lastUserDesc = "redelivery"
		s.svcQ.Add(s.u.Slots[ev.A].Key())
	case "poolresync":
		s.lastUserDesc = "pool-resync"
		s.poolQ.Add("pool")
	case "crash":
		s.lastUserDesc = "crash"
		s.restart()
	case "pool":
		s.poolQ.Take("pool")
		s.poolDeliveryUnchanged = s.appliedLayout == s.layout && s.lastSetPoolsOK
		s.poolHandlerCalled = false
		if ev.B > 0 {
			failed := false
			kindToFail := poolFaultKinds[ev.B-1]
			s.store.Fail = func(op, kind string) error {
				if op == "list" && kind == kindToFail && !failed {
					failed = true
					return fmt.Errorf("verif: injected list failure")
				}
				return nil
			}
			defer func() { s.store.Fail = nil }()
		}
		s.guard(func() {
			_, err := s.pr.Reconcile(context.Background(), ctrl.Request{NamespacedName: types.NamespacedName{Namespace: verifNS, Name: "any"}})
			if err != nil {
				s.poolQ.Add("pool")
			}
		})
		s.drainReload()
	case "svc":
		s.svcQ.Take(ev.S)
		s.failWrites = ev.B
		s.crashAtWrite = ev.A
		parts := strings.SplitN(ev.S, "/", 2)
		req := ctrl.Request{NamespacedName: types.NamespacedName{Namespace: "metallbreload", Name: "reload"}}
		if ev.S != "reload" {
			req = ctrl.Request{NamespacedName: types.NamespacedName{Namespace: parts[0], Name: parts[1]}}
			s.handlerCalls = append(s.handlerCalls, "single")
		} else {
			s.handlerCalls = append(s.handlerCalls, "full")
		}
		if ev.B == 3 {
			// environment fault: getting the Service fails once with something else than "not found"
			failed := false
			s.store.Fail = func(op, kind string) error {
				if op == "get" && kind == "Service" && !failed {
					failed = true
					return fmt.Errorf("verif: injected get failure")
				}
				return nil
			}
			s.failWrites = 0
		}
		if ev.B == 2 {
			// environment fault: listing the Services fails once
			failed := false
			s.store.Fail = func(op, kind string) error {
				if op == "list" && kind == "Service" && !failed {
					failed = true
					return fmt.Errorf("verif: injected list failure")
				}
				return nil
			}
			s.failWrites = 0
		}
		crashed := s.guard(func() {
			_, err := s.sr.Reconcile(context.Background(), req)
			if s.errKeys == nil {
				s.errKeys = map[string]bool{}
			}
			if err != nil {
				s.svcQ.Add(ev.S)
				s.errKeys[ev.S] = true
			} else {
				delete(s.errKeys, ev.S)
				if ev.S == "reload" {
					s.fullSyncOK = true
				}
			}
		})
		s.store.Fail = nil
		if crashed {
			s.lastUserDesc = "crash-at-status-write"
			s.restart()
		} else {
			s.drainReload()
		}
	default:
		panic("unknown event " + ev.Kind)
	}
}

// guard runs f; a crashSignal unwinds the "process" (returns true); any other panic is recorded.
func (s *ctlSys) guard(f func()) (crashed bool) {
	defer func() {
		if r := recover(); r != nil {
			if _, ok := r.(crashSignal); ok {
				crashed = true
				return
			}
			s.panicMsg = fmt.Sprint(r)
		}
	}()
	f()
	return false
}

// restart models a controller crash + start of a new instance on the same store: a fresh
// process sees the pool objects and one add event per existing Service, in any order.
func (s *ctlSys) restart() {
	s.snapshotRef("crash")
	s.start()
	s.poolQ.Add("pool")
	for _, k := range s.store.Keys("Service") {
		s.svcQ.Add(k)
	}
}

// layoutSettled: the configuration in force is the one in the cluster - or corresponds to no configuration of the
// universe at all (a reconciler that hands over something else than what the cluster says does not get the oracles
// switched off: the services are then judged by the cluster's configuration, see world)
func (s *ctlSys) layoutSettled() bool { return s.appliedLayout == s.layout || s.appliedLayout == -2 }

func (s *ctlSys) world() *refalloc.World {
	j := s.appliedLayout
	if j == -2 && s.poolQ.Empty() {
		// what the reconciler handed over corresponds to none of the configurations, and nothing is pending that would
		// correct it: the services are judged by what the cluster says
		j = s.layout
	}
	if j < 0 {
		return &refalloc.World{Namespaces: s.u.Namespaces}
	}
	return &refalloc.World{Pools: s.u.Layouts[j], Namespaces: s.u.Namespaces}
}

func boolPtr(b bool) *bool { return &b }

var _ = metav1.ObjectMeta{}
