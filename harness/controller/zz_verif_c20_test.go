//go:build verif

package main

// C20 (controller half): service events, a pool event and pool-counter fetches delivered
// concurrently through the real k8s.Listener wrappers to the real controller + allocator. All
// interleavings with <= N preemptions under the controlled scheduler; oracle: no panic, no
// deadlock, final state equals the serial execution of the same handler calls in the order in
// which they took the Listener lock. A free-running -race pass runs the same bodies.

import (
	"encoding/json"
	"fmt"
	"sort"
	"strings"
	"sync"
	"testing"
	"time"

	"github.com/go-kit/log"
	metallbv1beta1 "go.universe.tf/metallb/api/v1beta1"
	"go.universe.tf/metallb/internal/allocator"
	"go.universe.tf/metallb/internal/config"
	"go.universe.tf/metallb/internal/k8s"
	"go.universe.tf/metallb/internal/k8s/controllers"
	"go.universe.tf/metallb/internal/verifrt"
	v1 "k8s.io/api/core/v1"
	discovery "k8s.io/api/discovery/v1"
)

type c20Call struct {
	Kind string `json:"kind"` // svc | pool
	Key  string `json:"key,omitempty"`
	Var  int    `json:"variant,omitempty"`
	Lay  int    `json:"layout,omitempty"`
}

type c20Scenario struct {
	Name     string      `json:"name"`
	Layout0  int         `json:"initial_layout"`
	Pre      []c20Call   `json:"pre"`
	SvcCalls []c20Call   `json:"service_worker"`
	PoolCall []c20Call   `json:"pool_worker"`
	Fetches  int         `json:"counter_fetches"`
	// Fresh: no call is made before the workers start - their first events meet a listener, controller and
	// allocator nobody has used yet (lazily initialised state)
	Fresh bool `json:"fresh_process,omitempty"`
}

type c20Case struct {
	Scenario c20Scenario `json:"scenario"`
	Schedule []int       `json:"schedule"`
}

type c20Ctl struct {
	c        *controller
	lst      *k8s.Listener
	statuses map[string]string
	order    []string
	mu       sync.Mutex
	layouts  []*config.Pools
	variants []*v1.Service
	writes   int
}

type c20Client struct{ h *c20Ctl }

func (c c20Client) UpdateStatus(svc *v1.Service) error {
	if s := verifrt.CurSched(); s != nil {
		s.Yield(nil, "UpdateStatus")
	}
	c.h.mu.Lock()
	c.h.statuses[svc.Namespace+"/"+svc.Name] = statusOf(svc) + " pool=" + svc.Annotations[AnnotationIPAllocateFromPool]
	c.h.writes++
	c.h.mu.Unlock()
	return nil
}
func (c c20Client) Infof(svc *v1.Service, desc, msg string, args ...interface{})  {}
func (c c20Client) Errorf(svc *v1.Service, desc, msg string, args ...interface{}) {}

func c20Layouts() [][]metallbv1beta1.IPAddressPool {
	return [][]metallbv1beta1.IPAddressPool{
		{mkPool("a", []string{"10.0.0.0/31"}, nil)},
		{mkPool("b", []string{"10.0.0.0/31"}, nil), mkPool("c", []string{"10.0.1.0/32"}, nil)}, // rename + new pool
		{mkPool("a", []string{"10.0.0.1/32"}, nil)},                                               // shrink
	}
}

func newC20Ctl() *c20Ctl {
	h := &c20Ctl{statuses: map[string]string{}}
	h.c = &controller{ips: allocator.New(func(string) {
		// in production this blocks on the pool-status channel: a scheduling point
		if s := verifrt.CurSched(); s != nil {
			s.Yield(nil, "countersChangedCallback")
		}
	}), client: c20Client{h}}
	h.lst = &k8s.Listener{
		ServiceChanged: func(l log.Logger, name string, svc *v1.Service, eps []discovery.EndpointSlice) controllers.SyncState {
			h.order = append(h.order, "svc:"+name)
			return h.c.SetBalancer(l, name, svc, eps)
		},
		PoolChanged: func(l log.Logger, pools *config.Pools) controllers.SyncState {
			h.order = append(h.order, "pool")
			return h.c.SetPools(l, pools)
		},
	}
	for _, lay := range c20Layouts() {
		cfg, err := config.For(config.ClusterResources{Pools: lay}, config.DontValidate)
		if err != nil {
			panic(err)
		}
		h.layouts = append(h.layouts, cfg.Pools)
	}
	h.variants = []*v1.Service{mkSvc(), mkSvc(share("k1"), ports(443)), mkSvc(share("k1"), ports(8080)), mkSvc(clusterIPType())}
	return h
}

func (h *c20Ctl) call(c c20Call) {
	switch c.Kind {
	case "svc":
		parts := strings.SplitN(c.Key, "/", 2)
		var svc *v1.Service
		if c.Var >= 0 {
			svc = h.variants[c.Var].DeepCopy()
			svc.Namespace, svc.Name = parts[0], parts[1]
			// present the status last written (what the API server would hold)
			h.mu.Lock()
			st := h.statuses[c.Key]
			h.mu.Unlock()
			if i := strings.Index(st, " pool="); i > 0 {
				for _, ip := range strings.Split(st[:i], ",") {
					svc.Status.LoadBalancer.Ingress = append(svc.Status.LoadBalancer.Ingress, v1.LoadBalancerIngress{IP: ip})
				}
				if p := st[i+6:]; p != "" {
					svc.Annotations = map[string]string{AnnotationIPAllocateFromPool: p}
					for k, v := range h.variants[c.Var].Annotations {
						svc.Annotations[k] = v
					}
				}
			}
		}
		h.lst.ServiceHandler(log.NewNopLogger(), c.Key, svc, nil)
	case "pool":
		h.lst.PoolHandler(log.NewNopLogger(), h.layouts[c.Lay])
	}
}

func (h *c20Ctl) dump() string {
	var ks []string
	for k, v := range h.statuses {
		ks = append(ks, k+"="+v)
	}
	sort.Strings(ks)
	return h.c.ips.VerifContent() + "statuses " + strings.Join(ks, ";")
}

func c20Scenarios() []c20Scenario {
	svc := func(key string, v int) c20Call { return c20Call{Kind: "svc", Key: key, Var: v} }
	return []c20Scenario{
		{Name: "two-services-vs-pool-rename", Layout0: 0, Pre: []c20Call{svc("ns1/s0", 0)}, SvcCalls: []c20Call{svc("ns1/s1", 1), svc("ns1/s2", 2)}, PoolCall: []c20Call{{Kind: "pool", Lay: 1}}, Fetches: 2},
		{Name: "sharing-services-vs-pool-shrink", Layout0: 0, Pre: []c20Call{svc("ns1/s0", 1)}, SvcCalls: []c20Call{svc("ns1/s1", 2), svc("ns1/s0", 3)}, PoolCall: []c20Call{{Kind: "pool", Lay: 2}}, Fetches: 2},
		{Name: "delete-and-create-vs-pool-change", Layout0: 1, Pre: []c20Call{svc("ns1/s0", 0), svc("ns1/s1", 0)}, SvcCalls: []c20Call{svc("ns1/s0", -1), svc("ns1/s2", 0)}, PoolCall: []c20Call{{Kind: "pool", Lay: 0}}, Fetches: 2},
		{Name: "first-events-of-a-fresh-process", Fresh: true, SvcCalls: []c20Call{svc("ns1/s1", 0), svc("ns1/s2", 1)}, PoolCall: []c20Call{{Kind: "pool", Lay: 0}, {Kind: "pool", Lay: 1}}, Fetches: 2},
		{Name: "two-pool-events-vs-service", Layout0: 0, Pre: []c20Call{svc("ns1/s0", 0)}, SvcCalls: []c20Call{svc("ns1/s1", 0)}, PoolCall: []c20Call{{Kind: "pool", Lay: 1}, {Kind: "pool", Lay: 0}}, Fetches: 2},
	}
}

// c20Run executes one scenario. With a scheduler the workers are scheduler threads; without one they
// are plain goroutines (race pass).
var c20Iter int

func c20Run(sc c20Scenario) *c20Ctl {
	h := newC20Ctl()
	if !sc.Fresh {
		h.call(c20Call{Kind: "pool", Lay: sc.Layout0})
	}
	for _, c := range sc.Pre {
		h.call(c)
	}
	h.order = nil
	s := verifrt.CurSched()
	remaining := 0
	var wg sync.WaitGroup
	type namedBody struct {
		name string
		body func()
	}
	var bodies []namedBody
	run := func(name string, body func()) { bodies = append(bodies, namedBody{name, body}) }
	startAll := func() {
		// free-running pass: rotate the start order with the iteration so that each body gets to run first
		k := 0
		if s == nil && len(bodies) > 0 {
			k = c20Iter % len(bodies)
		}
		for i := range bodies {
			b := bodies[(i+k)%len(bodies)]
			if s != nil {
				remaining++
				verifrt.Go(b.name, func() { b.body(); remaining-- })
				continue
			}
			wg.Add(1)
			go func() { defer wg.Done(); b.body() }()
		}
	}
	run("serviceWorker", func() {
		for _, c := range sc.SvcCalls {
			h.call(c)
		}
	})
	run("poolWorker", func() {
		for _, c := range sc.PoolCall {
			h.call(c)
		}
	})
	run("countersFetcher", func() {
		for i := 0; i < sc.Fetches; i++ {
			for _, p := range []string{"a", "b", "c"} {
				_ = h.c.ips.CountersForPool(p)
			}
		}
	})
	startAll()
	if s != nil {
		s.Yield(func() bool { return remaining == 0 }, "join")
	} else {
		wg.Wait()
	}
	return h
}

// c20Serial replays the handler calls one at a time in the given lock-acquisition order.
func c20Serial(sc c20Scenario, order []string) (string, error) {
	h := newC20Ctl()
	if !sc.Fresh {
		h.call(c20Call{Kind: "pool", Lay: sc.Layout0})
	}
	for _, c := range sc.Pre {
		h.call(c)
	}
	si, pi := 0, 0
	for _, o := range order {
		if o == "pool" {
			if pi >= len(sc.PoolCall) {
				return "", fmt.Errorf("order has more pool calls than the scenario")
			}
			h.call(sc.PoolCall[pi])
			pi++
		} else {
			if si >= len(sc.SvcCalls) || "svc:"+sc.SvcCalls[si].Key != o {
				return "", fmt.Errorf("order %v does not match the service worker's calls", order)
			}
			h.call(sc.SvcCalls[si])
			si++
		}
	}
	return h.dump(), nil
}

func c20Check(res *verifrt.Result, sc c20Scenario, h *c20Ctl, s *verifrt.Sched) {
	c := c20Case{Scenario: sc, Schedule: append([]int{}, s.Trace...)}
	viol := func(sig, detail string) {
		res.Violate(sig, detail+"\n  scenario: "+sc.Name+"\n  schedule: "+s.Describe(), c)
	}
	if s.Panic != "" {
		viol("C20 controller: panic", s.Panic)
		return
	}
	if s.Deadlock {
		viol("C20 controller: deadlock "+strings.Join(s.Blocked, ", "), "")
		return
	}
	if s.HorizonHit {
		res.Count("horizon_hits", 1)
		return
	}
	if len(h.order) != len(sc.SvcCalls)+len(sc.PoolCall) {
		viol("C20 controller: handler calls lost", fmt.Sprint(h.order))
		return
	}
	want, err := c20Serial(sc, h.order)
	if err != nil {
		viol("C20 controller: lock order inconsistent", err.Error())
		return
	}
	if got := h.dump(); got != want {
		viol("C20 controller: final state differs from the serial execution in lock order", fmt.Sprintf("order %v\nconcurrent:\n%s\nserial:\n%s", h.order, got, want))
	}
	if bad := h.c.ips.VerifCoherence(); len(bad) > 0 {
		viol("C20 controller: allocator bookkeeping incoherent", strings.Join(bad, "; "))
	}
	res.Outcome(sc.Name + ":" + strings.Join(h.order, ","))
}

func TestVerif_C20ctl(t *testing.T) {
	res := verifrt.NewResult("C20")
	defer res.Write()
	mkSched := func() *verifrt.Sched { return &verifrt.Sched{Horizon: 5000, Daemon: map[string]bool{}} }
	if raw, ok := verifrt.ReplayCase(); ok {
		var c c20Case
		if err := json.Unmarshal(raw, &c); err != nil {
			t.Fatal(err)
		}
		for i := 0; i < 5; i++ {
			s := mkSched()
			s.Prefix = c.Schedule
			var h *c20Ctl
			s.Run(func() { h = c20Run(c.Scenario) })
			c20Check(res, c.Scenario, h, s)
		}
		res.Replayed = true
		return
	}
	bound := 2
	if verifrt.Thorough() {
		bound = 3
	}
	deadline := time.Now().Add(verifrt.Budget())
	for si, sc := range c20Scenarios() {
		sc := sc
		var h *c20Ctl
		for b := 0; b <= bound; b++ {
			st := verifrt.Explore(b, deadline, mkSched, func(s *verifrt.Sched) { h = c20Run(sc) }, func(s *verifrt.Sched) {
				res.Count("executions", 1)
				res.Count("transitions", int64(len(s.Trace)))
				if res.Counters["executions"]%2000 == 1 {
					res.Sample(map[string]interface{}{"scenario": sc.Name, "schedule": s.Describe()})
				}
				c20Check(res, sc, h, s)
			}, func(k int) bool { return verifrt.Mine(k + si) })
			if st.Cut {
				res.NotExhaustive("time budget in scenario " + sc.Name)
				break
			}
		}
	}
	res.Info["preemption_bound_controller"] = bound
	res.Count("states", res.Counters["executions"])
	res.Count("traces_validated_against_impl", res.Counters["executions"])
	res.Count("distinct_nontrivial", res.Counters["executions"])
}

// TestVerif_C20ctlRace: the same bodies free-running under the race detector.
func TestVerif_C20ctlRace(t *testing.T) {
	res := verifrt.NewResult("C20")
	defer res.Write()
	for i := 0; i < 200; i++ {
		c20Iter = i
		for _, sc := range c20Scenarios() {
			c20Run(sc)
			res.Count("evaluations", 1)
		}
	}
	res.Count("distinct_nontrivial", int64(len(c20Scenarios())))
}
