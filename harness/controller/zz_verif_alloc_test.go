//go:build verif

package main

import (
	"encoding/json"
	"fmt"
	"net"
	"os"
	"sort"
	"strings"
	"testing"
	"time"

	"go.universe.tf/metallb/internal/allocator"
	"go.universe.tf/metallb/internal/allocator/k8salloc"
	"go.universe.tf/metallb/internal/config"
	"go.universe.tf/metallb/internal/verifrt"
	"go.universe.tf/metallb/internal/verifrt/refalloc"
	v1 "k8s.io/api/core/v1"
)

type allocCase struct {
	Universe string          `json:"universe"`
	Thorough bool            `json:"thorough_universe"`
	Menus    string          `json:"menus"`
	History  []verifrt.Event `json:"history"`
	Readable []string        `json:"readable"`
}

type preSnap struct {
	quiescent bool
	statuses  map[string]string
	holders   refalloc.Holdings
}

type allocOracle struct {
	prop       string
	res        *verifrt.Result
	u          *universe
	thorough   bool
	menus      string
	outcomes   map[string]bool
	confirming bool
	confirmed  map[string]bool
}

func (o *allocOracle) mkCase(s *ctlSys, hist []verifrt.Event) allocCase {
	c := allocCase{Universe: o.u.Name, Thorough: o.thorough, Menus: o.menus, History: hist}
	for _, e := range hist {
		switch e.Kind {
		case "set":
			c.Readable = append(c.Readable, fmt.Sprintf("set %s := %s", o.u.Slots[e.A].Key(), o.u.VarNames[e.B]))
		case "del":
			c.Readable = append(c.Readable, "delete "+o.u.Slots[e.A].Key())
		case "layout":
			var ps []string
			for _, p := range o.u.Layouts[e.A] {
				ps = append(ps, fmt.Sprintf("%s%v", p.Name, p.Spec.Addresses))
			}
			c.Readable = append(c.Readable, fmt.Sprintf("pools := layout %d %v", e.A, ps))
		case "svc":
			x := "deliver " + e.S
			if len(e.C) > 0 {
				x += fmt.Sprintf(" [map order choices %v]", e.C)
			}
			if e.B == 3 {
				x += " [getting the Service fails]"
			} else if e.B == 2 {
				x += " [listing the Services fails]"
			} else if e.B > 0 {
				x += " [status write fails]"
			}
			if e.A == 1 {
				x += " [crash before the status write persists]"
			}
			if e.A == 2 {
				x += " [crash right after the status write persisted]"
			}
			c.Readable = append(c.Readable, x)
		case "pool":
			x := "deliver pools"
			if e.B > 0 {
				x += " [listing " + poolFaultKinds[e.B-1] + " objects fails once]"
			}
			c.Readable = append(c.Readable, x)
		case "touch":
			c.Readable = append(c.Readable, "unchanged "+o.u.Slots[e.A].Key()+" delivered once more")
		case "poolresync":
			c.Readable = append(c.Readable, "pool reconciler re-triggered (nothing it reads changed)")
		default:
			c.Readable = append(c.Readable, e.Kind)
		}
	}
	return c
}

func (o *allocOracle) before(sys verifrt.System, ev verifrt.Event) interface{} {
	s := sys.(*ctlSys)
	p := &preSnap{quiescent: s.quiescent(), statuses: map[string]string{}, holders: s.holdings()}
	for k, svc := range s.services() {
		p.statuses[k] = statusOf(svc)
	}
	return p
}

func ipsOf(status string) []net.IP {
	var out []net.IP
	if status == "" {
		return nil
	}
	for _, x := range strings.Split(status, ",") {
		out = append(out, net.ParseIP(x))
	}
	return out
}

func (o *allocOracle) violate(s *ctlSys, hist []verifrt.Event, sig, detail string) {
	usesOrder := false
	for _, e := range hist {
		if len(e.C) > 0 {
			usesOrder = true
		}
	}
	if usesOrder && !o.confirming {
		// F1: a violation that needs a non-default map iteration order is believed only if the same history,
		// run with the runtime's own iteration order, shows the same signature at least once.
		key := sig + fmt.Sprint(hist)
		if done, ok := o.confirmed[key]; ok {
			if !done {
				return
			}
		} else {
			ok := false
			for i := 0; i < 256 && !ok; i++ {
				tmp := verifrt.NewResult(o.prop)
				oo := &allocOracle{prop: o.prop, res: tmp, u: o.u, thorough: o.thorough, menus: o.menus, confirming: true}
				verifrt.MapNative = true
				b := &verifrt.BFS{New: func() verifrt.System { return newCtlSys(o.u) }, Before: oo.before, After: oo.after, Res: tmp}
				plain := make([]verifrt.Event, len(hist))
				for j, e := range hist {
					e.C = nil
					plain[j] = e
				}
				b.Replay(plain)
				verifrt.MapNative = false
				if tmp.SigCount[sig] > 0 {
					ok = true
				}
			}
			if o.confirmed == nil {
				o.confirmed = map[string]bool{}
			}
			o.confirmed[key] = ok
			if !ok {
				o.res.Count("unconfirmed_order_candidates", 1)
				return
			}
			o.res.Count("order_candidates_confirmed_on_native_order", 1)
		}
	}
	o.res.Violate(sig, detail+"\n  history: "+strings.Join(o.mkCase(s, hist).Readable, " ; "), o.mkCase(s, hist))
}

// individuallyAdmissible: ip is an admissible address for svc under world w and svc's own spec.
func individuallyAdmissible(w *refalloc.World, svc *v1.Service, ip net.IP) (bool, bool) {
	owners := w.Owners(ip)
	if len(owners) != 1 || !w.Usable(owners[0], ip) || !w.Admits(owners[0], svc) {
		return false, false
	}
	if svc.Spec.Type != v1.ServiceTypeLoadBalancer {
		return false, false
	}
	n4, n6, _, ok := refalloc.Families(svc)
	if !ok || (ip.To4() != nil && !n4) || (ip.To4() == nil && !n6) {
		return false, false
	}
	r := refalloc.RequestOf(svc)
	switch r.Mode {
	case "malformed":
		return false, false
	case "ips", "ips+pool":
		found := false
		for _, x := range r.IPs {
			if x.Equal(ip) {
				found = true
			}
		}
		if !found || (r.Pool != "" && r.Pool != owners[0]) {
			return false, false
		}
	case "pool":
		if r.Pool != owners[0] {
			return false, false
		}
	case "auto":
		// a pool with auto-assignment disabled hands out nothing NEW to such a service (C02), but an address the service
		// already holds there is still inside the pool and admitted by it: switching auto-assignment off revokes nothing
		_ = refalloc.AutoAssign
	}
	return true, false
}

// setAdmissible: the recorded address set as a whole is one the service is entitled to keep under w:
// every address individually admissible (and not ambiguous), a pair from one pool, complete for the
// family policy (one family suffices only under PreferDualStack).
func setAdmissible(w *refalloc.World, svc *v1.Service, ips []net.IP) bool {
	if len(ips) == 0 || len(ips) > 2 {
		return false
	}
	for _, ip := range ips {
		if ip == nil {
			return false
		}
		if a, amb := individuallyAdmissible(w, svc, ip); !a || amb {
			return false
		}
	}
	if len(ips) == 2 {
		o1, o2 := w.Owners(ips[0]), w.Owners(ips[1])
		if len(o1) != 1 || len(o2) != 1 || o1[0] != o2[0] || (ips[0].To4() == nil) == (ips[1].To4() == nil) {
			return false
		}
	}
	n4, n6, prefer, ok := refalloc.Families(svc)
	if !ok || (len(ips) == 1 && n4 && n6 && !prefer) {
		return false
	}
	return true
}

func (o *allocOracle) after(sys verifrt.System, hist []verifrt.Event, ev verifrt.Event, preI interface{}, isNew bool) {
	s := sys.(*ctlSys)
	pre := preI.(*preSnap)
	prop := o.prop
	svcs := s.services()
	w := s.world()

	if s.panicMsg != "" {
		cls := "other"
		if strings.Contains(s.panicMsg, "incoherent state") {
			cls = "allocator-incoherent-state"
		} else if strings.Contains(s.panicMsg, "index out of range") {
			cls = "index-out-of-range"
		} else if strings.Contains(s.panicMsg, "nil pointer") {
			cls = "nil-pointer"
		}
		if prop == "C01" || prop == "C11" || cls != "allocator-incoherent-state" {
			o.violate(s, hist, "handler-panic class="+cls, s.panicMsg)
		}
		return
	}

	holders := s.holdings()
	// ---------- C01 ----------
	if prop == "C01" && isNew {
		for ip, hs := range holders {
			for i := range hs {
				for j := i + 1; j < len(hs); j++ {
					a, b := s.lastPresented[hs[i]], s.lastPresented[hs[j]]
					if a == nil || b == nil {
						o.violate(s, hist, "C01 recorded-holder-without-service", fmt.Sprintf("%s held by %v", ip, hs))
						continue
					}
					if ok, why := refalloc.ShareCompatible(a, b); !ok {
						o.violate(s, hist, "C01 memory: address shared by incompatible services reason="+why,
							fmt.Sprintf("%s is recorded for %s and %s: %s", ip, hs[i], hs[j], why))
					}
				}
			}
		}
		if bad := s.c.ips.VerifCoherence(); len(bad) > 0 {
			o.violate(s, hist, "C01 allocator bookkeeping maps incoherent kind="+strings.Fields(bad[0])[0][:strings.IndexAny(strings.Fields(bad[0])[0]+"[", "[")], strings.Join(bad, "; "))
		}
		if s.quiescent() {
			byIP := map[string][]string{}
			for k, svc := range svcs {
				for _, ip := range ipsOf(statusOf(svc)) {
					byIP[ip.String()] = append(byIP[ip.String()], k)
				}
			}
			for ip, hs := range byIP {
				sort.Strings(hs)
				for i := range hs {
					for j := i + 1; j < len(hs); j++ {
						if ok, why := refalloc.ShareCompatible(svcs[hs[i]], svcs[hs[j]]); !ok {
							o.violate(s, hist, "C01 status: address shared by incompatible services reason="+why,
								fmt.Sprintf("%s is in the status of %s and %s: %s", ip, hs[i], hs[j], why))
						}
					}
				}
			}
		}
	}

	// ---------- C02 ----------
	if prop == "C02" {
		for _, e := range s.allocEdges {
			if e.Layout < 0 {
				continue
			}
			ew := &refalloc.World{Pools: o.u.Layouts[e.Layout], Namespaces: o.u.Namespaces}
			var ips []net.IP
			for _, x := range e.IPs {
				ips = append(ips, net.ParseIP(x))
			}
			for _, clause := range ew.JudgeAssignment(e.Svc, ips, "", false) {
				o.violate(s, hist, "C02 "+clause+c02Feature(ew, clause, ips), fmt.Sprintf("allocation: %s (request %s) was given %v", e.Key, refalloc.RequestOf(e.Svc).Mode, e.IPs))
			}
			o.priorityOracle(s, hist, ew, e, ips)
		}
		if isNew && s.quiescent() && s.layoutSettled() {
			for k, svc := range svcs {
				ips := ipsOf(statusOf(svc))
				if len(ips) == 0 {
					if _, has := svc.Annotations[refalloc.AnnFromPool]; has {
						o.violate(s, hist, "C02 status: pool annotation without address", k)
					}
					continue
				}
				for _, clause := range w.JudgeAssignment(svc, ips, svc.Annotations[refalloc.AnnFromPool], true) {
					if clause == "auto-from-non-autoassign-pool" {
						continue // judged on allocation edges only
					}
					o.violate(s, hist, "C02 "+clause+c02Feature(w, clause, ips), fmt.Sprintf("status: %s (request %s) holds %v (annotation %q)", k, refalloc.RequestOf(svc).Mode, ips, svc.Annotations[refalloc.AnnFromPool]))
				}
			}
		}
	}

	// ---------- C18, integrated: the pool reconciler in front of the real allocator ----------
	if prop == "C18" && ev.Kind == "pool" && ev.B == 0 && s.poolDeliveryUnchanged && s.poolHandlerCalled {
		full := "without a full re-sync"
		if s.svcQ.Has("reload") {
			full = "and-a-full-re-sync-of-all-services"
		}
		o.violate(s, hist, "C18 an unchanged snapshot looked like a configuration change to the pool reconciler: pools handed over again "+full+" after="+s.lastUserDesc,
			"the allocator already had exactly the cluster's pools (handed over successfully before); nothing the reconciler reads changed")
	}

	// ---------- C11 (every state) ----------
	if prop == "C11" && isNew {
		o.c11(s, hist, pre, holders, w)
	}

	// ---------- quiescent-state oracles: C03, C06, C07 ----------
	if !s.quiescent() {
		return
	}
	statusHold := refalloc.Holdings{}
	for k, svc := range svcs {
		for _, ip := range ipsOf(statusOf(svc)) {
			statusHold[ip.String()] = append(statusHold[ip.String()], k)
		}
	}
	for k := range statusHold {
		sort.Strings(statusHold[k])
	}
	if (prop == "C06" || prop == "C11") && isNew && s.c.pools != nil {
		// no leak / no ghost: the controller's memory equals the statuses whenever it has no pending work
		// (a controller restarted on a configuration it refuses has no pools and processes no service at all)
		if fmt.Sprint(map[string][]string(statusHold)) != fmt.Sprint(map[string][]string(holders)) {
			cause := "no-fault"
			for _, e := range hist {
				if e.Kind == "svc" && e.B > 0 {
					cause = "after-failed-status-write"
				}
				if e.Kind == "crash" || (e.Kind == "svc" && e.A > 0) {
					cause = "after-restart"
				}
			}
			o.violate(s, hist, prop+" memory differs from statuses at quiescence cause="+cause+" last="+s.lastUserDesc,
				fmt.Sprintf("allocator holds %v, statuses say %v", holders, statusHold))
		}
	}
	if prop == "C07" && isNew && s.layoutSettled() {
		for k, svc := range svcs {
			if statusOf(svc) != "" || svc.Spec.Type != v1.ServiceTypeLoadBalancer {
				continue
			}
			if ok, mode := w.AdmissibleExists(k, svc, statusHold, svcs); ok {
				after := s.lastUserDesc
				if (s.lastUser.Kind == "set" || s.lastUser.Kind == "del") && o.u.Slots[s.lastUser.A].Key() == k {
					after = "own-" + after
				} else if s.lastUser.Kind == "set" || s.lastUser.Kind == "del" {
					after = "other-service-" + after
				}
				o.violate(s, hist, "C07 starved "+mode+" after="+after,
					fmt.Sprintf("%s has no address although an admissible assignment exists (%s); statuses %v", k, mode, statusHold))
			}
		}
	}
	if prop == "C03" && s.refKind == "quiescent" && s.layoutSettled() {
		o.keepOracle(s, hist, "C03", svcs, w, statusHold)
	}
	if prop == "C06" && s.refKind == "crash" && s.layoutSettled() {
		o.keepOracle(s, hist, "C06", svcs, w, statusHold)
		// no steal
		for k, svc := range svcs {
			if s.refStatuses[k] != "" || s.refSvcs[k] == "" {
				continue
			}
			for _, ip := range ipsOf(statusOf(svc)) {
				for ok2, st := range s.refStatuses {
					if ok2 == k || svcs[ok2] == nil {
						continue
					}
					for _, rip := range ipsOf(st) {
						if rip.Equal(ip) {
							// only an address the other service was entitled to keep can be "stolen"
							if !setAdmissible(w, svcs[ok2], ipsOf(st)) {
								continue
							}
							// ... and it was not entitled if a third service recorded on the same address cannot share with it
							// (whichever of the two is re-asserted first keeps the address, as in the keep oracle)
							contested := false
							for ok3, st3 := range s.refStatuses {
								if ok3 == ok2 || ok3 == k || svcs[ok3] == nil {
									continue
								}
								for _, rip3 := range ipsOf(st3) {
									if rip3.Equal(ip) {
										if c3, _ := refalloc.ShareCompatible(svcs[ok2], svcs[ok3]); !c3 || !refalloc.SamePolicyClass(svcs[ok2], svcs[ok3]) {
											contested = true
										}
									}
								}
							}
							if contested {
								continue
							}
							via := ""
							for _, h := range statusHold[ip.String()] {
								hRef := ipsOf(s.refStatuses[h])
								if _, _, prefer, _ := refalloc.Families(svcs[h]); h != k && h != ok2 && prefer && len(hRef) == 1 && !hRef[0].Equal(ip) {
									// the address was first taken by a PreferDualStack service topping up its second family during the
									// first pass (known finding); this service only joined it there
									via = " via=preferdualstack-service-topping-up-its-second-family"
								}
							}
							if okc, _ := refalloc.ShareCompatible(svc, svcs[ok2]); !okc && s.refSvcs[ok2] == userPart(svcs[ok2]) {
								o.violate(s, hist, "C06 stolen: service without recorded address obtained an address recorded for another service"+via,
									fmt.Sprintf("%s had no address at the crash and now holds %s, which was recorded for %s", k, ip, ok2))
							}
						}
					}
				}
			}
		}
	}
	if prop == "C06" && s.gateViolation != "" {
		o.violate(s, hist, "C06 gate: single-service handler ran before the first full sync", s.gateViolation)
	}
	if prop == "C03" && isNew {
		o.writeOracle(s, hist)
	}
}

// keepOracle: services unchanged since the reference point whose recorded addresses are all individually
// admissible (and, for C06, uncontested) keep exactly that set (modulo the PreferDualStack gain).
func (o *allocOracle) keepOracle(s *ctlSys, hist []verifrt.Event, prop string, svcs map[string]*v1.Service, w *refalloc.World, statusHold refalloc.Holdings) {
	for k, svc := range svcs {
		ref, ok := s.refStatuses[k]
		if !ok || ref == "" || s.refSvcs[k] != userPart(svc) {
			continue
		}
		refIPs := ipsOf(ref)
		if !setAdmissible(w, svc, refIPs) {
			continue
		}
		// contested: another service recorded on the same address at the reference point and not share-compatible
		contested := false
		for ok2, st := range s.refStatuses {
			if ok2 == k {
				continue
			}
			for _, rip := range ipsOf(st) {
				for _, ip := range refIPs {
					if rip.Equal(ip) {
						other := svcs[ok2]
						if other == nil {
							continue
						}
						if c, _ := refalloc.ShareCompatible(svc, other); !c || !refalloc.SamePolicyClass(svc, other) {
							contested = true
						}
					}
				}
			}
		}
		if contested {
			continue
		}
		now := statusOf(svc)
		if now == ref {
			continue
		}
		nowIPs := ipsOf(now)
		// PreferDualStack gain: exactly one more address, of the other family, from the same pool
		if _, _, prefer, _ := refalloc.Families(svc); prefer && len(refIPs) == 1 && len(nowIPs) == 2 {
			var gained net.IP
			keeps := false
			for _, ip := range nowIPs {
				if ip.Equal(refIPs[0]) {
					keeps = true
				} else {
					gained = ip
				}
			}
			if keeps && gained != nil && (gained.To4() == nil) != (refIPs[0].To4() == nil) {
				o1, o2 := w.Owners(gained), w.Owners(refIPs[0])
				if len(o1) == 1 && len(o2) == 1 && o1[0] == o2[0] {
					continue
				}
			}
		}
		what := "lost"
		if now != "" {
			what = "changed"
		}
		// cause: who holds the lost address now
		takenBy := "nobody"
		for _, ip := range refIPs {
			for _, h := range statusHold[ip.String()] {
				if h == k {
					continue
				}
				if strings.HasPrefix(takenBy, "preferdualstack-service-topping-up") {
					continue // the root cause is already named: a co-tenant that joined the topping-up service afterwards is a consequence
				}
				takenBy = "other-service"
				hRef := ipsOf(s.refStatuses[h])
				hAdm := setAdmissible(w, svcs[h], hRef)
				switch {
				case len(hRef) == 0:
					takenBy = "service-without-recorded-address"
				case !hAdm || s.refSvcs[h] != userPart(svcs[h]):
					takenBy = "service-reallocated-in-the-first-pass-because-its-own-recorded-address-is-no-longer-admissible"
				}
				if _, _, prefer, _ := refalloc.Families(svcs[h]); prefer && len(hRef) == 1 && hAdm {
					takenBy = "preferdualstack-service-topping-up-its-second-family"
					if len(refIPs) == 2 {
						// services with two recorded addresses are re-asserted before those with one: this must not happen at all
						takenBy += "-from-a-service-with-two-recorded-addresses"
					}
				}
			}
		}
		after := s.lastUserDesc
		if strings.HasPrefix(after, "crash") {
			after = "restart"
		}
		_ = what
		sig := fmt.Sprintf("%s recorded address not kept: unchanged service with admissible address did not keep it after=%s taken-by=%s", prop, after, takenBy)
		o.violate(s, hist, sig, fmt.Sprintf("%s had %q at the reference point (%s) and has %q now; statuses %v", k, ref, s.refKind, now, statusHold))
	}
}

// writeOracle: from a quiescent state a full resync performs at most one normalising write per
// service, and a second one performs none. The system is consumed (it is discarded afterwards).
func (o *allocOracle) writeOracle(s *ctlSys, hist []verifrt.Event) {
	if !s.sr.VerifInitialLoadPerformed() {
		return
	}
	settle := func() int {
		before := s.totalWrites
		s.svcQ.Add("reload")
		for i := 0; i < 40 && !s.quiescent(); i++ {
			if s.poolQ.Has("pool") {
				s.Apply(verifrt.Event{Kind: "pool"})
				continue
			}
			s.Apply(verifrt.Event{Kind: "svc", S: s.svcQ.Keys()[0]})
		}
		return s.totalWrites - before
	}
	n1 := settle()
	n2 := settle()
	if n2 != 0 {
		o.violate(s, hist, "C03 status write on the second of two consecutive full re-syncs", fmt.Sprintf("first resync wrote %d times, second %d times", n1, n2))
	}
	if n1 > len(s.services()) {
		o.violate(s, hist, "C03 more than one normalising write per service on a re-sync of a quiescent state", fmt.Sprintf("%d writes for %d services", n1, len(s.services())))
	}
}

func poolPrio(w *refalloc.World, name string) int {
	p := w.Pool(name)
	if p == nil {
		return 0
	}
	pr := refalloc.Priority(p)
	if pr == 0 {
		return 1 << 30
	}
	return pr
}

// priorityOracle: C02 clauses (i)-(iii) for an automatic allocation, as constraints on the outcome.
func (o *allocOracle) priorityOracle(s *ctlSys, hist []verifrt.Event, w *refalloc.World, e allocEdge, ips []net.IP) {
	if refalloc.RequestOf(e.Svc).Mode != "auto" {
		return
	}
	owners := w.Owners(ips[0])
	if len(owners) != 1 {
		return
	}
	chosen := w.Pool(owners[0])
	n4, n6, prefer, ok := refalloc.Families(e.Svc)
	if !ok {
		return
	}
	complete := (!n4 || hasFam(ips, false)) && (!n6 || hasFam(ips, true))
	for i := range w.Pools {
		p := &w.Pools[i]
		if p.Name == chosen.Name || !refalloc.Pinned(p) || !refalloc.AutoAssign(p) || !w.Admits(p.Name, e.Svc) {
			continue
		}
		acc, comp := w.PoolCanServe(p.Name, e.Key, e.Svc, e.PreHold, e.PreSvcs)
		if !refalloc.Pinned(chosen) && acc {
			o.violate(s, hist, "C02 priority: unpinned pool used although a pinned pool could serve", fmt.Sprintf("%s got %v from unpinned %s while pinned %s could give an acceptable assignment", e.Key, e.IPs, chosen.Name, p.Name))
		}
		if refalloc.Pinned(chosen) && poolPrio(w, p.Name) < poolPrio(w, chosen.Name) {
			if complete && comp {
				o.violate(s, hist, "C02 priority: worse-priority pinned pool used although a better one could give a complete assignment",
					fmt.Sprintf("%s got %v from %s (priority %d) while %s (priority %d) could", e.Key, e.IPs, chosen.Name, refalloc.Priority(chosen), p.Name, refalloc.Priority(p)))
			}
			if !complete && prefer {
				gotV6 := ips[0].To4() == nil
				preferredV6 := len(e.Svc.Spec.IPFamilies) > 0 && e.Svc.Spec.IPFamilies[0] == v1.IPv6Protocol
				if comp || w.CouldGive(p.Name, gotV6, e.Key, e.Svc, e.PreHold, e.PreSvcs) || w.CouldGive(p.Name, preferredV6, e.Key, e.Svc, e.PreHold, e.PreSvcs) {
					o.violate(s, hist, "C02 priority: partial PreferDualStack assignment from a worse-priority pool", fmt.Sprintf("%s got %v from %s while %s is better", e.Key, e.IPs, chosen.Name, p.Name))
				}
			}
		}
		if !complete && prefer && comp {
			o.violate(s, hist, "C02 priority: partial PreferDualStack assignment although a pinned pool could give a complete one", fmt.Sprintf("%s got %v while %s could give both families", e.Key, e.IPs, p.Name))
		}
	}
}

// c02Feature names the cause feature of a C02 clause (the kind of pool that wrongly admitted the service).
func c02Feature(w *refalloc.World, clause string, ips []net.IP) string {
	if clause != "pool-does-not-admit-service" {
		return ""
	}
	owners := w.Owners(ips[0])
	if len(owners) == 0 {
		return ""
	}
	p := w.Pool(owners[0])
	a := p.Spec.AllocateTo
	if a == nil {
		return ""
	}
	var f []string
	if len(a.Namespaces) > 0 {
		f = append(f, "namespaces")
	}
	if len(a.NamespaceSelectors) > 0 {
		matches := false
		for _, ns := range w.Namespaces {
			for _, sel := range a.NamespaceSelectors {
				ok := true
				for k, v := range sel.MatchLabels {
					if ns.Labels[k] != v {
						ok = false
					}
				}
				if ok {
					matches = true
				}
			}
		}
		if matches {
			f = append(f, "namespace-selectors")
		} else {
			f = append(f, "namespace-selectors-matching-no-namespace")
		}
	}
	if len(a.ServiceSelectors) > 0 {
		f = append(f, "service-selectors")
	}
	return " pool-restricted-by=" + strings.Join(f, "+")
}

func hasFam(ips []net.IP, v6 bool) bool {
	for _, ip := range ips {
		if (ip.To4() == nil) == v6 {
			return true
		}
	}
	return false
}

// c11: counters exact, rebuild differential, released addresses reusable.
func (o *allocOracle) c11(s *ctlSys, hist []verifrt.Event, pre *preSnap, holders refalloc.Holdings, w *refalloc.World) {
	if s.appliedLayout >= 0 {
		for _, p := range o.u.Layouts[s.appliedLayout] {
			cnt := s.c.ips.CountersForPool(p.Name)
			var a4, a6 int64
			for ip, hs := range holders {
				if len(hs) == 0 || s.c.ips.Pool(hs[0]) != p.Name {
					continue
				}
				if net.ParseIP(ip).To4() != nil {
					a4++
				} else {
					a6++
				}
			}
			if cnt.AssignedIPv4 != a4 || cnt.AssignedIPv6 != a6 {
				o.violate(s, hist, "C11 assigned counter differs from the number of distinct addresses in use", fmt.Sprintf("pool %s counters %+v, distinct addresses v4=%d v6=%d", p.Name, cnt, a4, a6))
			}
			const max = int64(^uint64(0) >> 1)
			c4, c6 := w.Capacity(p.Name, max)
			if c4 < max && cnt.AssignedIPv4+cnt.AvailableIPv4 != c4 {
				o.violate(s, hist, "C11 assigned+available differs from the usable capacity family=v4 pool-shape="+poolShape(p.Spec.Addresses, p.Spec.AvoidBuggyIPs), fmt.Sprintf("pool %s counters %+v, capacity %d", p.Name, cnt, c4))
			}
			if c6 < max && cnt.AssignedIPv6+cnt.AvailableIPv6 != c6 {
				o.violate(s, hist, "C11 assigned+available differs from the usable capacity family=v6 pool-shape="+poolShape(p.Spec.Addresses, p.Spec.AvoidBuggyIPs), fmt.Sprintf("pool %s counters %+v, capacity %d", p.Name, cnt, c6))
			}
			if cnt.AssignedIPv4 < 0 || cnt.AssignedIPv6 < 0 || cnt.AvailableIPv4 < 0 || cnt.AvailableIPv6 < 0 {
				o.violate(s, hist, "C11 negative counter pool-shape="+poolShape(p.Spec.Addresses, p.Spec.AvoidBuggyIPs), fmt.Sprintf("pool %s %+v", p.Name, cnt))
			}
		}
	}
	// rebuild differential
	if s.c.pools != nil && s.appliedLayout >= 0 {
		fresh := allocator.New(func(string) {})
		fresh.SetPools(s.c.pools)
		var keys []string
		for _, hs := range holders {
			keys = append(keys, hs...)
		}
		sort.Strings(keys)
		seen := map[string]bool{}
		okRebuild := true
		for _, k := range keys {
			if seen[k] {
				continue
			}
			seen[k] = true
			svc := s.lastPresented[k]
			if svc == nil {
				okRebuild = false
				continue
			}
			if err := fresh.Assign(k, svc, s.c.ips.IPs(k), k8salloc.Ports(svc), SharingKey(svc), k8salloc.BackendKey(svc)); err != nil {
				// While a re-sync is pending an assignment that the new configuration no longer admits may still
				// be recorded (it is not a *surviving* assignment); at quiescence nothing of the kind may remain.
				if s.quiescent() {
					o.violate(s, hist, "C11 a recorded assignment is refused by a fresh allocator at quiescence", fmt.Sprintf("%s %v: %v", k, s.c.ips.IPs(k), err))
				} else {
					o.res.Count("rebuild_skipped_assignment_no_longer_admissible_while_settling", 1)
				}
				okRebuild = false
			}
		}
		if okRebuild {
			a, b := s.c.ips.VerifContent(), fresh.VerifContent()
			if a != b {
				o.violate(s, hist, "C11 memory differs from a rebuild from the surviving assignments first-diff="+firstDiffLabel(a, b), "live:\n"+a+"rebuilt:\n"+b)
			}
		}
	}
	// released addresses are immediately reusable
	for ip, hs := range pre.holders {
		if len(hs) == 0 || len(holders[ip]) > 0 {
			continue
		}
		nip := net.ParseIP(ip)
		owners := w.Owners(nip)
		if len(owners) != 1 || !w.Usable(owners[0], nip) {
			continue
		}
		probe := mkSvc()
		probe.Name, probe.Namespace = "verif-probe", "ns1"
		if nip.To4() == nil {
			probe = mkSvc(families(v1.IPFamilyPolicySingleStack, "fd00::99"))
			probe.Name, probe.Namespace = "verif-probe", "ns1"
		}
		if !w.Admits(owners[0], probe) {
			continue
		}
		if err := s.c.ips.Assign("ns1/verif-probe", probe, []net.IP{nip}, k8salloc.Ports(probe), "", ""); err != nil {
			o.violate(s, hist, "C11 released address is not reusable", fmt.Sprintf("%s was released by %v but a fresh service cannot take it: %v", ip, hs, err))
		}
		s.c.ips.Unassign("ns1/verif-probe")
	}
}

// poolShape names the features of a pool that matter to the capacity arithmetic.
func poolShape(addrs []string, avoidBuggy bool) string {
	var f []string
	huge, v6n := false, 0
	for _, a := range addrs {
		if strings.Contains(a, ":") {
			v6n++
			var l int
			if i := strings.LastIndex(a, "/"); i >= 0 {
				fmt.Sscan(a[i+1:], &l)
				if 128-l >= 62 {
					huge = true
				}
			}
		}
		if avoidBuggy && strings.HasSuffix(a, "/32") && (strings.HasSuffix(a, ".0/32") || strings.HasSuffix(a, ".255/32")) {
			f = append(f, "buggy-/32")
		}
	}
	if huge && v6n > 1 {
		f = append(f, "huge-v6-prefix+another-v6-prefix")
	} else if huge {
		f = append(f, "huge-v6-prefix")
	}
	if avoidBuggy {
		f = append(f, "avoid-buggy")
	}
	if len(f) == 0 {
		return "plain"
	}
	return strings.Join(f, ",")
}

func firstDiffLabel(a, b string) string {
	la, lb := strings.Split(a, "\n"), strings.Split(b, "\n")
	for i := 0; i < len(la) && i < len(lb); i++ {
		if la[i] != lb[i] {
			f := strings.Fields(la[i] + " x")
			return f[0]
		}
	}
	return "length"
}

var _ = config.Pools{}

func runAlloc(t *testing.T, prop string) {
	res := verifrt.NewResult(prop)
	defer res.Write()
	thorough := verifrt.Thorough()
	depth := 3
	if thorough {
		depth = 4
	}
	menus := ""
	poolResyncMenu = prop == "C18"
	switch prop {
	case "C06":
		faultMenu, crashMenu = true, true
		menus = "fault+crash"
	case "C07":
		menus = "fault"
	case "C03":
		// one failing status write (no crash) is part of the environment of C03 in the universes where a service
		// can be rewritten while keeping its address (PreferDualStack top-up)
		faultMenu = true
		menus = "fault+poolfault+readfault"
	}
	if prop == "C18" {
		depth-- // the reconciler's comparison is at stake, not the allocation histories: one event less than the allocation group
	}
	if d := os.Getenv("VERIF_DEPTH"); d != "" {
		fmt.Sscan(d, &depth)
	}

	if raw, ok := verifrt.ReplayCase(); ok {
		var kd struct {
			Kind     string `json:"kind"`
			Universe string `json:"universe"`
			Variant  string `json:"variant"`
			Order    []int  `json:"map_order_choices"`
		}
		if json.Unmarshal(raw, &kd) == nil && kd.Kind == "key-derivation" {
			for _, th := range []bool{false, true} {
				for _, u := range universes(th) {
					for vi, v := range u.Variants {
						if u.Name != kd.Universe || u.VarNames[vi] != kd.Variant {
							continue
						}
						svc := v.DeepCopy()
						svc.Namespace, svc.Name = "ns1", "probe"
						ref := fmt.Sprint(k8salloc.Ports(svc), "|", SharingKey(svc), "|", k8salloc.BackendKey(svc))
						var got string
						verifrt.RunWithChoices(kd.Order, []string{"maporder"}, func(*verifrt.Chooser) {
							got = fmt.Sprint(k8salloc.Ports(svc), "|", SharingKey(svc), "|", k8salloc.BackendKey(svc))
						})
						if got != ref {
							res.Violate("C03 the keys a service is recorded with depend on map iteration order", fmt.Sprintf("%q vs %q", ref, got), kd)
						}
						res.Replayed = true
						return
					}
				}
			}
			t.Fatalf("unknown variant %s/%s", kd.Universe, kd.Variant)
		}
		var c allocCase
		if err := json.Unmarshal(raw, &c); err != nil {
			t.Fatal(err)
		}
		faultMenu = strings.Contains(c.Menus, "fault")
		crashMenu = strings.Contains(c.Menus, "crash")
		poolFaultMenu = strings.Contains(c.Menus, "poolfault")
		readFaultMenu = strings.Contains(c.Menus, "readfault")
		for _, u := range universes(c.Thorough) {
			if u.Name == c.Universe {
				o := &allocOracle{prop: prop, res: res, u: u, thorough: c.Thorough, menus: c.Menus}
				b := &verifrt.BFS{New: func() verifrt.System { return newCtlSys(u) }, Before: o.before, After: o.after, Res: res, ChoiceKinds: []string{"maporder"}}
				b.Replay(c.History)
				if os.Getenv("VERIF_SETTLE_DEBUG") != "" {
					// debugging aid: explore deliveries only from the end of the history and print the graph
					type node struct {
						h []verifrt.Event
					}
					seen := map[string]int{}
					var q []node
					q = append(q, node{c.History})
					for len(q) > 0 && len(seen) < 200 {
						n := q[0]
						q = q[1:]
						bb := &verifrt.BFS{New: func() verifrt.System { return newCtlSys(u) }}
						sys := bb.Replay(n.h).(*ctlSys)
						k := sys.Key()
						if _, ok := seen[k]; ok {
							continue
						}
						seen[k] = len(seen)
						fmt.Fprintf(os.Stderr, "STATE %d quiescent=%v svcQ=%v poolQ=%v len=%d\n", seen[k], sys.quiescent(), sys.svcQ.Keys(), sys.poolQ.Keys(), len(n.h))
						for _, e := range sys.Enabled() {
							if e.User || e.Fault {
								continue
							}
							nh := append(append([]verifrt.Event{}, n.h...), e)
							s2 := bb.Replay(nh).(*ctlSys)
							fmt.Fprintf(os.Stderr, "  --%s--> key-seen=%v quiescent=%v\n", e.String(), seen[s2.Key()], s2.quiescent())
							q = append(q, node{nh})
						}
					}
				}
			}
		}
		res.Replayed = true
		return
	}

	deadline := time.Now().Add(verifrt.Budget())
	us := universes(thorough)
	work := 0
	if prop == "C03" && verifrt.Mine(0) {
		// what a service is recorded with (ports, sharing key, backend key) is re-derived on every sync and compared with
		// what the allocator stored: each derivation must give one value, whatever order a map is walked in. Every service
		// variant of every universe x every map-iteration order (<=3 non-default answers) of the derivation functions.
		for _, u := range us {
			for vi, v := range u.Variants {
				svc := v.DeepCopy()
				svc.Namespace, svc.Name = "ns1", "probe"
				ref := fmt.Sprint(k8salloc.Ports(svc), "|", SharingKey(svc), "|", k8salloc.BackendKey(svc))
				verifrt.ExploreChoices(3, []string{"maporder"}, func(ch *verifrt.Chooser) {
					got := fmt.Sprint(k8salloc.Ports(svc), "|", SharingKey(svc), "|", k8salloc.BackendKey(svc))
					res.Count("key_derivations", 1)
					if got != ref {
						tr := append([]int{}, ch.Trace...)
						verifrt.SetChooser(nil)
						res.Violate("C03 the keys a service is recorded with depend on map iteration order", fmt.Sprintf("universe %s variant %s: %q under the default order, %q under order vector %v", u.Name, u.VarNames[vi], ref, got, tr),
							map[string]interface{}{"universe": u.Name, "variant": u.VarNames[vi], "map_order_choices": tr, "kind": "key-derivation"})
						verifrt.SetChooser(ch)
					}
				}, nil)
			}
		}
	}
	// quick: depth 3 with user events arriving in bursts of two. thorough: that pass, then depth 4 with user events
	// at quiescent states only (bursts at depth 4 multiply the graph by ten).
	type passT struct {
		depth int
		burst bool
	}
	passes := []passT{{depth, true}}
	if thorough {
		passes = []passT{{depth - 1, true}, {depth, false}}
	}
	for _, pass := range passes {
		depth := pass.depth
		burstMode = pass.burst
		for _, u := range us {
			if only := os.Getenv("VERIF_UNIVERSE"); only != "" && only != u.Name {
				continue
			}
			// work items: one per first user event after the initial pool delivery
			init := newCtlSys(u)
			init.Apply(verifrt.Event{Kind: "pool"})
			for init.svcQ.Has("reload") {
				init.Apply(verifrt.Event{Kind: "svc", S: "reload"})
			}
			prefix := []verifrt.Event{{Kind: "pool"}, {Kind: "svc", S: "reload"}}
			var roots [][]verifrt.Event
			for _, e := range init.Enabled() {
				if e.User {
					roots = append(roots, append(append([]verifrt.Event{}, prefix...), e))
				}
			}
			if len(u.Preload) > 0 {
				// a preloaded universe starts as a restart: every first event (any delivery order, any fault) is a root
				roots = nil
				for _, e := range newCtlSys(u).Enabled() {
					if e.Fault && prop != "C06" {
						continue
					}
					roots = append(roots, []verifrt.Event{e})
				}
			}
			o := &allocOracle{prop: prop, res: res, u: u, thorough: thorough, menus: menus}
			var mine [][]verifrt.Event
			for _, r := range roots {
				work++
				if verifrt.Mine(work) {
					mine = append(mine, r)
				}
			}
			if len(mine) == 0 {
				continue
			}
			udepth := depth
			if prop == "C06" && !thorough && (u.Name == "share" || u.Name == "policy" || u.Name == "dual") {
				udepth = depth - 1 // the fault menu multiplies the graph: the hand-written restart-* universes carry the deep cases in the quick tier
			}
			if strings.HasPrefix(u.Name, "restart-") && prop == "C06" {
				udepth = 1 // the store is pre-built: one more user event, every delivery order, two faults
				if thorough {
					udepth = 2
				}
			}
			maxFault := 0
			if prop == "C03" && thorough && u.Name == "dual" {
				maxFault = 1 // depth 4 + one failing write reaches "top-up write fails while another service allocates"
			}
			poolFaultMenu, readFaultMenu = false, false
			if prop == "C03" {
				faultMenu = true
			}
			if prop == "C03" && !(thorough && u.Name == "dual") {
				// a Get of the Service failing once inside a delivery: the service still exists, nothing may be released
				faultMenu, readFaultMenu, maxFault = false, true, 1
			}
			if prop == "C03" && !(thorough && u.Name == "dual") && (u.Name == "policy" || u.Name == "reconf") {
				// a failing List in the pool reconciler (namespaces, pools, communities): nothing in the cluster changed, so
				// no service may move
				poolFaultMenu = true
			}
			if prop == "C07" {
				faultMenu = false
				if u.Name == "release" || (thorough && (u.Name == "share" || u.Name == "dual")) {
					// one failing status write: what a service released before the failed write must still reach the services
					// waiting for it (the retry no longer sees that anything was released)
					faultMenu, maxFault = true, 1
					if u.Name != "release" {
						udepth = depth - 1 // the fault menu multiplies the big graphs (at depth 4 beyond the machine's memory)
					}
				}
			}
			if prop == "C06" {
				maxFault = 1
				if thorough || strings.HasPrefix(u.Name, "restart-") {
					maxFault = 2
				}
			}
			b := &verifrt.BFS{New: func() verifrt.System { return newCtlSys(u) }, Roots: mine, MaxUser: udepth, MaxFault: maxFault, Horizon: 90,
				Before: o.before, After: o.after, Res: res, Deadline: deadline}
			if prop == "C03" {
			// states from which no delivery order leads to a quiescent state: the controller keeps re-syncing (and writing) forever
			b.Quiescent = func(sys verifrt.System) bool { return sys.(*ctlSys).quiescent() }
			b.OnLivelock = func(hist []verifrt.Event, stuck int) {
				cs := b.Replay(hist).(*ctlSys)
				o.violate(cs, hist, "C03 the controller never reaches quiescence: every delivery order keeps it re-syncing last="+cs.lastUserDesc,
					fmt.Sprintf("%d states from which no quiescent state is reachable by deliveries; first: pending services %v pools %v", stuck, cs.svcQ.Keys(), cs.poolQ.Keys()))
			}
		}
		if prop == "C02" && (u.Name == "policy" || u.Name == "dual") {
				// the policy must hold whichever pool the maps yield first: one non-default iteration order per history
				b.ChoiceKinds, b.MaxChoiceDev = []string{"maporder"}, 1
			}
			// the root's own first edge is checked by replaying it with the oracle
			for _, r := range mine {
				b.Replay(r)
				res.Sample(o.mkCase(nil, r).Readable)
			}
			b.Run()
		}
	}
	burstMode = true
	res.Count("traces_validated_against_impl", res.Counters["transitions"])
	res.Info["depth_user_events"] = depth
	res.Info["passes"] = fmt.Sprintf("%+v (depth in user events, bursts of two user events allowed)", passes)
	res.Info["menus"] = menus
	res.Info["max_fault_events"] = "1 (2 in the restart-* universes and in the thorough tier)"
	res.Count("distinct_nontrivial", res.Counters["states"])
}

func TestVerif_C01(t *testing.T) { runAlloc(t, "C01") }
func TestVerif_C02(t *testing.T) { runAlloc(t, "C02") }
func TestVerif_C03(t *testing.T) { runAlloc(t, "C03") }
func TestVerif_C06(t *testing.T) { runAlloc(t, "C06") }
func TestVerif_C07(t *testing.T) { runAlloc(t, "C07") }
func TestVerif_C11(t *testing.T) { runAlloc(t, "C11") }

// TestVerif_C18ctl: C18 in the integrated controller - the real PoolReconciler handing its configuration to the real
// controller/allocator, which keep using (and must not alter) the very objects the reconciler compares its next
// computation with. Same graph as the allocation group plus an event that re-runs the reconciler with nothing changed.
func TestVerif_C18ctl(t *testing.T) { runAlloc(t, "C18") }
