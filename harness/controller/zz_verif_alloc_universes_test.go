//go:build verif

package main

import (
	metallbv1beta1 "go.universe.tf/metallb/api/v1beta1"
	v1 "k8s.io/api/core/v1"
	metav1 "k8s.io/apimachinery/pkg/apis/meta/v1"
	"k8s.io/apimachinery/pkg/util/intstr"
)

func mkPool(name string, addrs []string, mod func(*metallbv1beta1.IPAddressPool)) metallbv1beta1.IPAddressPool {
	p := metallbv1beta1.IPAddressPool{ObjectMeta: metav1.ObjectMeta{Name: name, Namespace: verifNS}, Spec: metallbv1beta1.IPAddressPoolSpec{Addresses: addrs}}
	if mod != nil {
		mod(&p)
	}
	return p
}

type svcOpt func(*v1.Service)

func mkSvc(opts ...svcOpt) *v1.Service {
	s := &v1.Service{Spec: v1.ServiceSpec{Type: v1.ServiceTypeLoadBalancer, ClusterIP: "192.168.9.1", ClusterIPs: []string{"192.168.9.1"},
		ExternalTrafficPolicy: v1.ServiceExternalTrafficPolicyTypeCluster, Selector: map[string]string{"app": "a"},
		Ports: []v1.ServicePort{{Protocol: v1.ProtocolTCP, Port: 80, TargetPort: intstr.FromInt(80)}}}}
	for _, o := range opts {
		o(s)
	}
	return s
}

func ports(ps ...int32) svcOpt {
	return func(s *v1.Service) {
		s.Spec.Ports = nil
		for _, p := range ps {
			s.Spec.Ports = append(s.Spec.Ports, v1.ServicePort{Protocol: v1.ProtocolTCP, Port: p})
		}
	}
}
func udp(p int32) svcOpt {
	return func(s *v1.Service) { s.Spec.Ports = append(s.Spec.Ports, v1.ServicePort{Protocol: v1.ProtocolUDP, Port: p}) }
}
func annot(k, val string) svcOpt {
	return func(s *v1.Service) {
		if s.Annotations == nil {
			s.Annotations = map[string]string{}
		}
		s.Annotations[k] = val
	}
}
func share(k string) svcOpt    { return annot(AnnotationAllowSharedIP, k) }
func shareOld(k string) svcOpt { return annot(DeprecatedAnnotationAllowSharedIP, k) }
func local(sel map[string]string) svcOpt {
	return func(s *v1.Service) {
		s.Spec.ExternalTrafficPolicy = v1.ServiceExternalTrafficPolicyTypeLocal
		s.Spec.Selector = sel
	}
}
func selector(sel map[string]string) svcOpt { return func(s *v1.Service) { s.Spec.Selector = sel } }
func lbIP(ip string) svcOpt                 { return func(s *v1.Service) { s.Spec.LoadBalancerIP = ip } }
func lbClass(c string) svcOpt                { return func(s *v1.Service) { s.Spec.LoadBalancerClass = &c } }
func clusterIPType() svcOpt                 { return func(s *v1.Service) { s.Spec.Type = v1.ServiceTypeClusterIP } }
func svcLabels(l map[string]string) svcOpt     { return func(s *v1.Service) { s.Labels = l } }
func noClusterIP() svcOpt {
	return func(s *v1.Service) { s.Spec.ClusterIP, s.Spec.ClusterIPs = "", nil }
}
func families(pol v1.IPFamilyPolicy, cips ...string) svcOpt {
	return func(s *v1.Service) {
		s.Spec.ClusterIPs = cips
		s.Spec.ClusterIP = cips[0]
		p := pol
		s.Spec.IPFamilyPolicy = &p
		s.Spec.IPFamilies = nil
		for _, c := range cips {
			if len(c) > 0 && (c[0] == 'f' || c[0] == ':') {
				s.Spec.IPFamilies = append(s.Spec.IPFamilies, v1.IPv6Protocol)
			} else {
				s.Spec.IPFamilies = append(s.Spec.IPFamilies, v1.IPv4Protocol)
			}
		}
	}
}

type namedVariant struct {
	n string
	s *v1.Service
}

func mkUniverse(name string, nss []v1.Namespace, layouts [][]metallbv1beta1.IPAddressPool, slots []slotT, vs []namedVariant, slotVariants map[int][]int) *universe {
	u := &universe{Name: name, Namespaces: nss, Layouts: layouts, Slots: slots, SlotVariants: slotVariants}
	for _, v := range vs {
		u.Variants = append(u.Variants, v.s)
		u.VarNames = append(u.VarNames, v.n)
	}
	return u
}

func nsObj(name string, lbl map[string]string) v1.Namespace {
	return v1.Namespace{ObjectMeta: metav1.ObjectMeta{Name: name, Labels: lbl}}
}

func universes(thorough bool) []*universe {
	var us []*universe
	ns12 := []v1.Namespace{nsObj("ns1", map[string]string{"team": "x"}), nsObj("ns2", map[string]string{"team": "y"})}
	lsel := func(k, v string) metav1.LabelSelector { return metav1.LabelSelector{MatchLabels: map[string]string{k: v}} }

	// ---- U-share: sharing decisions on a 1-2 address pool ----
	shareVs := []namedVariant{
		{"p80", mkSvc()},
		{"p80-k1", mkSvc(share("k1"))},
		{"p443-k1", mkSvc(ports(443), share("k1"))},
		{"p80+443-k1", mkSvc(ports(80, 443), share("k1"))},
		{"p443-k2", mkSvc(ports(443), share("k2"))},
		{"p443-k1old", mkSvc(ports(443), shareOld("k1"))},
		{"p443-k1-localA", mkSvc(ports(443), share("k1"), local(map[string]string{"app": "a"}))},
		{"p8080-k1-localA", mkSvc(ports(8080), share("k1"), local(map[string]string{"app": "a"}))},
		{"p8080-k1-localB", mkSvc(ports(8080), share("k1"), local(map[string]string{"app": "b"}))},
		{"p8080-k1-localEmpty", mkSvc(ports(8080), share("k1"), local(nil))},
		{"p443-k1-ip0", mkSvc(ports(443), share("k1"), lbIP("10.0.0.0"))},
		{"p443-k1-clusterip", mkSvc(ports(443), share("k1"), clusterIPType())},
		{"p80udp-k1", mkSvc(ports(), udp(80), share("k1"))},
		{"p443-k1-clusterip-statuswiped", mkSvc(ports(443), share("k1"), clusterIPType())},
		// an unparsable request (address given twice, in spec and annotation) on a service that may already hold an address,
		// with the port of its sharing partner: the held address must be re-validated all the same
		{"p80-k1-request-malformed", mkSvc(share("k1"), lbIP("10.0.0.0"), annot(AnnotationLoadBalancerIPs, "10.0.0.0"))},
		// Local policy with a selector of two labels: the backend key of two such services must be equal however it is computed
		{"p443-k1-local2labels", mkSvc(ports(443), share("k1"), local(map[string]string{"app": "a", "tier": "x"}))},
		{"p8080-k1-local2labels", mkSvc(ports(8080), share("k1"), local(map[string]string{"app": "a", "tier": "x"}))},
		// one port number under two protocols (its UDP half clashes with p80udp-k1, its TCP half with p80-k1)
		{"p80tcp+udp-k1", mkSvc(ports(80), udp(80), share("k1"))},
		// keys that differ only in surrounding white space, and (sharing key, backend key) pairs whose concatenations coincide
		{"p443-kweb", mkSvc(ports(443), share("web"))},
		{"p8080-kweb-trailing-space", mkSvc(ports(8080), share("web "))},
		{"p443-k-local-app=x", mkSvc(ports(443), share("k"), local(map[string]string{"app": "x"}))},
		{"p8080-kapp=xk-cluster", mkSvc(ports(8080), share("app=xk"))},
	}
	shareSlotVs := map[int][]int{2: {0, 2, 7, 9, 16, 12, 19, 21}, 1: {0, 1, 2, 3, 4, 5, 6, 7, 8, 9, 10, 11, 12, 14, 15, 17, 18, 20}, 0: {0, 1, 2, 3, 4, 5, 6, 7, 8, 9, 10, 11, 12, 13, 14}}
	if thorough {
		shareSlotVs = nil
	}
	us = append(us, mkUniverse("share", ns12[:1],
		[][]metallbv1beta1.IPAddressPool{
			{mkPool("a", []string{"10.0.0.0/32"}, nil)},
			{mkPool("a", []string{"10.0.0.0/31"}, nil)},
		},
		[]slotT{{"ns1", "s1"}, {"ns1", "s2"}, {"ns1", "s3"}}, shareVs, shareSlotVs))

	// a running cluster in which s1 and s2 already share the only address (non-initial state: the histories that
	// start by breaking up a sharing pair are within the depth bound); s3 is the newcomer
	rs := mkUniverse("restart-sharing-pair", ns12[:1],
		[][]metallbv1beta1.IPAddressPool{
			{mkPool("a", []string{"10.0.0.0/32"}, nil)},
			{mkPool("a", []string{"10.0.0.0/31"}, nil)},
		},
		[]slotT{{"ns1", "s1"}, {"ns1", "s2"}, {"ns1", "s3"}}, shareVs, map[int][]int{0: {1, 3}, 1: {2, 4, 0}, 2: {0, 2, 7}})
	rs.Preload = []preSvc{{0, 1, []string{"10.0.0.0"}, "a", false}, {1, 2, []string{"10.0.0.0"}, "a", false}}
	us = append(us, rs)

	// ---- U-policy: pool selection policy ----
	f := false
	polLayouts := [][]metallbv1beta1.IPAddressPool{
		{ // P0
			mkPool("a-unpinned", []string{"10.0.1.0/30"}, nil),
			mkPool("b-noauto", []string{"10.0.2.0/31"}, func(p *metallbv1beta1.IPAddressPool) { p.Spec.AutoAssign = &f }),
			mkPool("d-ns1-prio10", []string{"10.0.4.0/31"}, func(p *metallbv1beta1.IPAddressPool) {
				p.Spec.AllocateTo = &metallbv1beta1.ServiceAllocation{Priority: 10, Namespaces: []string{"ns1"}}
			}),
			mkPool("f-ns1-prio5", []string{"10.0.6.0/32"}, func(p *metallbv1beta1.IPAddressPool) {
				p.Spec.AllocateTo = &metallbv1beta1.ServiceAllocation{Priority: 5, Namespaces: []string{"ns1"}}
			}),
		},
		{ // P1: selectors and an unprioritised pinned pool
			mkPool("a-unpinned", []string{"10.0.1.0/30"}, nil),
			mkPool("e-web-prio0", []string{"10.0.5.0/31"}, func(p *metallbv1beta1.IPAddressPool) {
				// two selectors: a service matching either of them is admitted
				p.Spec.AllocateTo = &metallbv1beta1.ServiceAllocation{ServiceSelectors: []metav1.LabelSelector{lsel("app", "web"), lsel("tier", "edge")}}
			}),
			mkPool("g-teamx-prio20", []string{"10.0.7.0/31"}, func(p *metallbv1beta1.IPAddressPool) {
				p.Spec.AllocateTo = &metallbv1beta1.ServiceAllocation{Priority: 20, NamespaceSelectors: []metav1.LabelSelector{lsel("team", "x")}}
			}),
			mkPool("d-ns1-prio10", []string{"10.0.4.0/32"}, func(p *metallbv1beta1.IPAddressPool) {
				p.Spec.AllocateTo = &metallbv1beta1.ServiceAllocation{Priority: 10, Namespaces: []string{"ns1"}}
			}),
		},
		{ // P2: a namespace selector that matches no namespace (H14), and a buggy-avoiding pool
			mkPool("g-nobody", []string{"10.0.7.0/31"}, func(p *metallbv1beta1.IPAddressPool) {
				p.Spec.AllocateTo = &metallbv1beta1.ServiceAllocation{Priority: 20, NamespaceSelectors: []metav1.LabelSelector{lsel("team", "none")}}
			}),
			mkPool("c-buggy", []string{"10.0.3.0-10.0.3.1", "10.0.3.255/32"}, func(p *metallbv1beta1.IPAddressPool) { p.Spec.AvoidBuggyIPs = true }),
		},
		{ // P4: the only pool carries a service allocation with nothing but a priority: it admits every service, labelled or not
			mkPool("p-priority-only", []string{"10.0.8.0/31"}, func(p *metallbv1beta1.IPAddressPool) {
				p.Spec.AllocateTo = &metallbv1beta1.ServiceAllocation{Priority: 3}
			}),
		},
		{ // P3: namespace selector matching nothing combined with a service selector
			mkPool("g-nobody", []string{"10.0.7.0/31"}, func(p *metallbv1beta1.IPAddressPool) {
				p.Spec.AllocateTo = &metallbv1beta1.ServiceAllocation{Priority: 20, NamespaceSelectors: []metav1.LabelSelector{lsel("team", "none")},
					ServiceSelectors: []metav1.LabelSelector{lsel("app", "web")}}
			}),
			mkPool("a-unpinned", []string{"10.0.1.0/31"}, nil),
		},
	}
	polVs := []namedVariant{
		{"auto", mkSvc()},
		{"auto-web", mkSvc(svcLabels(map[string]string{"app": "web"}))},
		{"pool=b", mkSvc(annot(AnnotationAddressPool, "b-noauto"))},
		{"pool=d", mkSvc(annot(AnnotationAddressPool, "d-ns1-prio10"))},
		{"pool=g-old", mkSvc(annot(DeprecatedAnnotationAddressPool, "g-nobody"))},
		{"pool=e", mkSvc(annot(AnnotationAddressPool, "e-web-prio0"))},
		{"ip-in-a", mkSvc(lbIP("10.0.1.2"))},
		{"ip-in-b", mkSvc(annot(AnnotationLoadBalancerIPs, "10.0.2.1"))},
		{"ip-in-d", mkSvc(lbIP("10.0.4.0"))},
		{"ip-in-g", mkSvc(annot(DeprecatedAnnotationLoadBalancerIPs, "10.0.7.1"))},
		{"ip-buggy", mkSvc(lbIP("10.0.3.0"))},
		{"ip+pool-mismatch", mkSvc(lbIP("10.0.1.1"), annot(AnnotationAddressPool, "b-noauto"))},
		{"ip-both-malformed", mkSvc(lbIP("10.0.1.1"), annot(AnnotationLoadBalancerIPs, "10.0.1.2"))},
		{"ip-invalid", mkSvc(lbIP("not-an-ip"))},
		{"ip-outside", mkSvc(lbIP("172.16.0.1"))},
		{"pool=g-web", mkSvc(svcLabels(map[string]string{"app": "web"}), annot(AnnotationAddressPool, "g-nobody"))},
		// asks for the pool with two service selectors and matches one of them
		{"pool=e-web", mkSvc(svcLabels(map[string]string{"app": "web"}), annot(AnnotationAddressPool, "e-web-prio0"))},
	}
	polSlotVs := map[int][]int{1: {0, 1, 3, 4, 8, 9, 15}, 2: {0, 3}}
	if thorough {
		polSlotVs = map[int][]int{2: {0, 1, 3, 6}}
	}
	us = append(us, mkUniverse("policy", ns12, polLayouts, []slotT{{"ns1", "s1"}, {"ns2", "s2"}, {"ns1", "s3"}}, polVs, polSlotVs))

	// ---- U-dual: families ----
	dualLayouts := [][]metallbv1beta1.IPAddressPool{
		{mkPool("dual1", []string{"10.0.0.0/32", "fc00::/128"}, nil)},
		{mkPool("v4only", []string{"10.0.0.0/31"}, nil), mkPool("v6only", []string{"fc00::/127"}, nil)},
		{mkPool("dual2", []string{"fc00::/127", "10.0.0.0/31"}, nil)},
		{mkPool("v4only", []string{"10.0.0.0/32"}, nil), mkPool("dual1", []string{"10.0.1.0/32", "fc00::/128"}, nil)},
		{mkPool("bigv6", []string{"fc00::/64", "fc00:1::/127", "10.0.0.0/32"}, nil)},
		{ // two pinned single-family pools of different priority, and an unpinned dual one
			mkPool("gold-v4-prio1", []string{"10.1.0.0/31"}, func(p *metallbv1beta1.IPAddressPool) {
				p.Spec.AllocateTo = &metallbv1beta1.ServiceAllocation{Priority: 1, Namespaces: []string{"ns1"}}
			}),
			mkPool("silver-v4-prio2", []string{"10.2.0.0/31"}, func(p *metallbv1beta1.IPAddressPool) {
				p.Spec.AllocateTo = &metallbv1beta1.ServiceAllocation{Priority: 2, Namespaces: []string{"ns1"}}
			}),
		},
		{ // a better-priority single-family pool and a worse-priority dual-stack one
			mkPool("gold-v4-prio1", []string{"10.1.0.0/31"}, func(p *metallbv1beta1.IPAddressPool) {
				p.Spec.AllocateTo = &metallbv1beta1.ServiceAllocation{Priority: 1, Namespaces: []string{"ns1"}}
			}),
			mkPool("silver-dual-prio2", []string{"10.2.0.0/32", "fc00:2::/128"}, func(p *metallbv1beta1.IPAddressPool) {
				p.Spec.AllocateTo = &metallbv1beta1.ServiceAllocation{Priority: 2, Namespaces: []string{"ns1"}}
			}),
			mkPool("bronze-v6-prio3", []string{"fc00:3::/127"}, func(p *metallbv1beta1.IPAddressPool) {
				p.Spec.AllocateTo = &metallbv1beta1.ServiceAllocation{Priority: 3, Namespaces: []string{"ns1"}}
			}),
		},
		{ // a pinned pool that can give one family only, next to an unpinned pool that can give both
			mkPool("gold-v4-prio1", []string{"10.1.0.0/31"}, func(p *metallbv1beta1.IPAddressPool) {
				p.Spec.AllocateTo = &metallbv1beta1.ServiceAllocation{Priority: 1, Namespaces: []string{"ns1"}}
			}),
			mkPool("open-dual", []string{"10.3.0.0/32", "fc00:3::/128"}, nil),
		},
	}
	dualVs := []namedVariant{
		{"single4", mkSvc()},
		{"single6", mkSvc(families(v1.IPFamilyPolicySingleStack, "fd00::1"))},
		{"require", mkSvc(families(v1.IPFamilyPolicyRequireDualStack, "192.168.9.1", "fd00::1"))},
		{"prefer46", mkSvc(families(v1.IPFamilyPolicyPreferDualStack, "192.168.9.1", "fd00::1"))},
		{"prefer64", mkSvc(families(v1.IPFamilyPolicyPreferDualStack, "fd00::1", "192.168.9.1"))},
		{"require-ips", mkSvc(families(v1.IPFamilyPolicyRequireDualStack, "192.168.9.1", "fd00::1"), annot(AnnotationLoadBalancerIPs, "10.0.0.0,fc00::"))},
		{"prefer46-share", mkSvc(families(v1.IPFamilyPolicyPreferDualStack, "192.168.9.1", "fd00::1"), share("k1"), ports(443))},
		{"single4-share", mkSvc(share("k1"))},
		{"require-noclusterips", mkSvc(families(v1.IPFamilyPolicyRequireDualStack, "192.168.9.1"))},
		{"no-clusterip", mkSvc(noClusterIP())},
		// PreferDualStack on a cluster that gave the service one family only
		{"prefer-one-clusterip", mkSvc(families(v1.IPFamilyPolicyPreferDualStack, "192.168.9.1"))},
		// a dual-stack service that asks for ONE of the two addresses it may already hold (a request the controller refuses)
		{"require-ip4-only", mkSvc(families(v1.IPFamilyPolicyRequireDualStack, "192.168.9.1", "fd00::1"), annot(AnnotationLoadBalancerIPs, "10.0.0.0"))},
	}
	dualSlotVs := map[int][]int{2: {0, 3}}
	if thorough {
		dualSlotVs = nil
	}
	us = append(us, mkUniverse("dual", ns12[:1], dualLayouts, []slotT{{"ns1", "s1"}, {"ns1", "s2"}, {"ns1", "s3"}}, dualVs, dualSlotVs))

	// a pool of both families that avoids the .0/.255 addresses, and explicit dual-stack requests naming such an address in
	// either position
	dreq := func(ips string) *v1.Service {
		return mkSvc(families(v1.IPFamilyPolicyRequireDualStack, "192.168.9.1", "fd00::1"), annot(AnnotationLoadBalancerIPs, ips))
	}
	us = append(us, mkUniverse("buggydual", ns12[:1], [][]metallbv1beta1.IPAddressPool{
		{mkPool("buggy-dual", []string{"10.0.3.0/30", "fc00:3::/126"}, func(p *metallbv1beta1.IPAddressPool) { p.Spec.AvoidBuggyIPs = true })},
		{mkPool("buggy-dual", []string{"10.0.3.0/30", "fc00:3::/126"}, nil)},
	}, []slotT{{"ns1", "s1"}, {"ns1", "s2"}}, []namedVariant{
		{"require-ips-dot0-first", dreq("10.0.3.0,fc00:3::1")}, {"require-ips-dot0-second", dreq("fc00:3::1,10.0.3.0")}, {"require-ips-ok", dreq("10.0.3.1,fc00:3::2")},
		{"single4-ip-dot0", mkSvc(lbIP("10.0.3.0"))}, {"require", mkSvc(families(v1.IPFamilyPolicyRequireDualStack, "192.168.9.1", "fd00::1"))},
	}, nil))

	// three pools pinned to one namespace (a list with spare capacity in the loaded configuration) next to a pool selected by
	// service labels whose name sorts between them: the candidate lists the allocator builds must not write into the
	// configuration they come from
	pin := func(name string, cidr string, prio int) metallbv1beta1.IPAddressPool {
		return mkPool(name, []string{cidr}, func(p *metallbv1beta1.IPAddressPool) {
			p.Spec.AllocateTo = &metallbv1beta1.ServiceAllocation{Priority: prio, Namespaces: []string{"ns1"}}
		})
	}
	us = append(us, mkUniverse("pinned3", ns12[:1], [][]metallbv1beta1.IPAddressPool{{
		pin("pool-b", "10.0.2.0/32", 1), pin("pool-c", "10.0.3.0/32", 2), pin("pool-d", "10.0.4.0/32", 3),
		mkPool("pool-a-web", []string{"10.0.1.0/32"}, func(p *metallbv1beta1.IPAddressPool) {
			p.Spec.AllocateTo = &metallbv1beta1.ServiceAllocation{Priority: 4, ServiceSelectors: []metav1.LabelSelector{lsel("app", "web")}}
		}),
	}}, []slotT{{"ns1", "s1"}, {"ns1", "s2"}}, []namedVariant{{"auto", mkSvc()}, {"auto-web", mkSvc(svcLabels(map[string]string{"app": "web"}))}, {"p443-k1", mkSvc(ports(443), share("k1"))}}, nil))

	// ---- U-reconf: pool reconfiguration ----
	reLayouts := [][]metallbv1beta1.IPAddressPool{
		{mkPool("a", []string{"10.0.0.0/30"}, nil)},
		{mkPool("b", []string{"10.0.0.0/30"}, nil)},                                        // rename
		{mkPool("a", []string{"10.0.0.0/31"}, nil), mkPool("b", []string{"10.0.0.2/31"}, nil)}, // split
		{mkPool("a", []string{"10.0.0.0/32"}, nil)},                                        // shrink
		{mkPool("a", []string{"10.0.0.0/30"}, func(p *metallbv1beta1.IPAddressPool) { p.Spec.AutoAssign = &f })},
		{}, // none
		{mkPool("a", []string{"10.0.0.0/30"}, func(p *metallbv1beta1.IPAddressPool) {
			p.Spec.AllocateTo = &metallbv1beta1.ServiceAllocation{Namespaces: []string{"ns2"}}
		})}, // re-targeted
		{mkPool("a", []string{"10.0.0.1/32", "10.0.0.3/32"}, nil), mkPool("z", []string{"10.0.9.0/31"}, nil)},
		// two pools with one and the same range: the configuration must be refused as a whole (the previous pools stay in force)
		{mkPool("a", []string{"10.0.0.0/30"}, nil), mkPool("dup", []string{"10.0.0.0/30"}, nil)},
	}
	reVs := []namedVariant{
		{"auto", mkSvc()},
		{"auto-k1-443", mkSvc(ports(443), share("k1"))},
		{"pool=a", mkSvc(annot(AnnotationAddressPool, "a"))},
		{"ip1", mkSvc(lbIP("10.0.0.1"), share("k1"), ports(8080))},
		{"clusterip", mkSvc(clusterIPType())},
		{"clusterip-statuswiped", mkSvc(clusterIPType())},
	}
	// ---- U-restart: crash stores written by hand (richer than what depth 3 reaches from an empty cluster) ----
	restartVs := []namedVariant{{"auto", mkSvc()}, {"auto-k1-443", mkSvc(ports(443), share("k1"))}, {"ip1", mkSvc(lbIP("10.0.0.1"))}, {"clusterip", mkSvc(clusterIPType())}, {"prefer46", mkSvc(families(v1.IPFamilyPolicyPreferDualStack, "192.168.9.1", "fd00::1"))},
		{"require", mkSvc(families(v1.IPFamilyPolicyRequireDualStack, "192.168.9.1", "fd00::1"))}}
	restartLayouts := [][]metallbv1beta1.IPAddressPool{
		{mkPool("a", []string{"10.0.0.0/30"}, nil)},
		{mkPool("b", []string{"10.0.0.0/30"}, nil)},
		{mkPool("a", []string{"10.0.0.0/31"}, nil)},
	}
	slots3 := []slotT{{"ns1", "s1"}, {"ns1", "s2"}, {"ns1", "s3"}}
	r1 := mkUniverse("restart-stale-annotation+pending", ns12[:1], [][]metallbv1beta1.IPAddressPool{restartLayouts[2], restartLayouts[0], restartLayouts[1]}, slots3, restartVs, map[int][]int{0: {0, 3}, 1: {0, 1}, 2: {0, 2}})
	r1.Preload = []preSvc{{0, 0, []string{"10.0.0.0"}, "renamed-pool", false}, {1, 0, []string{"10.0.0.1"}, "a", false}, {2, 0, nil, "", false}}
	us = append(us, r1)
	r2 := mkUniverse("restart-full-pool+waiting", ns12[:1], [][]metallbv1beta1.IPAddressPool{restartLayouts[2], restartLayouts[0], {}}, slots3, restartVs, map[int][]int{0: {0, 1, 3}, 1: {0, 1}, 2: {0, 1}})
	r2.Preload = []preSvc{{0, 0, []string{"10.0.0.0"}, "a", false}, {1, 1, []string{"10.0.0.1"}, "a", false}, {2, 0, nil, "", false}}
	us = append(us, r2)

	// a PreferDualStack service recorded with one family in a pool that has both, and a service without address:
	// the first sync tops the first one up (a status write that keeps the recorded address) while the second allocates
	r3 := mkUniverse("restart-prefer-topup+pending", ns12[:1], [][]metallbv1beta1.IPAddressPool{
		{mkPool("a", []string{"10.0.0.0/31", "fc00::/127"}, nil)},
		{mkPool("a", []string{"10.0.0.0/31"}, nil)},
	}, slots3, restartVs, map[int][]int{0: {4}, 1: {0, 4}, 2: {0}})
	r3.Preload = []preSvc{{0, 4, []string{"10.0.0.0"}, "a", false}, {1, 0, nil, "", false}}
	us = append(us, r3)
	// the same start, small: the write that records the topped-up family is refused and the Service changes (to single
	// stack, to another request) before the retry - user events are offered while only that retry is pending
	r3b := mkUniverse("prefer-topup-retry", ns12[:1], [][]metallbv1beta1.IPAddressPool{
		{mkPool("a", []string{"10.0.0.0/31", "fc00::/127"}, nil)},
	}, slots3[:2], []namedVariant{{"prefer46", mkSvc(families(v1.IPFamilyPolicyPreferDualStack, "192.168.9.1", "fd00::1"))}, {"auto", mkSvc()},
		{"single6", mkSvc(families(v1.IPFamilyPolicySingleStack, "fd00::1"))}, {"require", mkSvc(families(v1.IPFamilyPolicyRequireDualStack, "192.168.9.1", "fd00::1"))}},
		map[int][]int{0: {0, 1, 3}, 1: {1, 2}})
	r3b.Preload = []preSvc{{0, 0, []string{"10.0.0.0"}, "a", false}}
	r3b.RetryUserEvents = true
	us = append(us, r3b)
	// a PreferDualStack service on a single-stack cluster (one cluster IP) that requests exactly one address, in a pool
	// that could also give the other family: it gets exactly the requested address (or nothing) and settles
	pr1 := mkUniverse("prefer-requests-one", ns12[:1], [][]metallbv1beta1.IPAddressPool{
		{mkPool("a", []string{"10.0.0.0/31", "fc00::/127"}, nil)},
	}, slots3[:2], []namedVariant{{"prefer4-ip0", mkSvc(families(v1.IPFamilyPolicyPreferDualStack, "192.168.9.1"), lbIP("10.0.0.0"))},
		{"prefer4", mkSvc(families(v1.IPFamilyPolicyPreferDualStack, "192.168.9.1"))}, {"auto", mkSvc()},
		// (with TWO cluster IPs a request for one address is a shape the controller refuses - the families of the request must
		// match the cluster IPs - which the keep oracles would count as admissible: DESIGN 13.4; not in the alphabet)
		{"prefer4-ann-ip0", mkSvc(families(v1.IPFamilyPolicyPreferDualStack, "192.168.9.1"), annot(AnnotationLoadBalancerIPs, "10.0.0.0"))}}, nil)
	us = append(us, pr1)
	// the same PreferDualStack service next to a dual-stack service that recorded both of its addresses (the first sync
	// re-asserts services with more recorded addresses first, so the top-up cannot take the recorded IPv6 address)
	r4 := mkUniverse("restart-prefer-topup+dualstack", ns12[:1], [][]metallbv1beta1.IPAddressPool{
		{mkPool("a", []string{"10.0.0.0/31", "fc00::/127"}, nil)},
	}, slots3, restartVs, map[int][]int{0: {4}, 1: {0}, 2: {5}})
	r4.Preload = []preSvc{{0, 4, []string{"10.0.0.0"}, "a", false}, {2, 5, []string{"10.0.0.1", "fc00::"}, "a", false}}
	us = append(us, r4)

	// a Service that is being deleted (held by a finalizer) still holds its recorded address across a restart
	r5 := mkUniverse("restart-terminating-holder", ns12[:1], [][]metallbv1beta1.IPAddressPool{restartLayouts[2], restartLayouts[0]}, slots3, restartVs, map[int][]int{0: {0}, 1: {0, 1}, 2: {0, 1}})
	r5.Preload = []preSvc{{Slot: 0, Variant: 0, Status: []string{"10.0.0.0"}, FromPool: "a", Terminating: true}, {Slot: 1, Variant: 0, Status: []string{"10.0.0.1"}, FromPool: "a"}, {Slot: 2, Variant: 0}}
	us = append(us, r5)

	// a controller started with --lb-class: every Service carries that class (Services of another class are not its business;
	// the deletion of one of its own Services still is)
	lc := mkUniverse("lbclass", ns12[:1], [][]metallbv1beta1.IPAddressPool{{mkPool("a", []string{"10.0.0.0/32"}, nil)}, restartLayouts[2]}, slots3[:2],
		[]namedVariant{{"p80-class-x", mkSvc(lbClass("x"))}, {"p443-k1-class-x", mkSvc(ports(443), share("k1"), lbClass("x"))}, {"p8080-k1-class-x", mkSvc(ports(8080), share("k1"), lbClass("x"))},
			// the type stops being LoadBalancer: the API server drops spec.loadBalancerClass together with the type-dependent
			// fields (dropTypeDependentFields) and wipes status.loadBalancer - the object no longer carries the class
			{"p80-clusterip-classdropped-statuswiped", mkSvc(clusterIPType())}}, nil)
	lc.LBClass = "x"
	us = append(us, lc)

	// an API server that defaults ingress[].ipMode (Kubernetes >= 1.30): what the controller reads back differs from what
	// it wrote in a field it does not manage
	im := mkUniverse("ipmode", ns12[:1], [][]metallbv1beta1.IPAddressPool{{mkPool("a", []string{"10.0.0.0/31", "fc00::/127"}, nil)}, restartLayouts[2]}, slots3[:2],
		[]namedVariant{{"p80", mkSvc()}, {"p443-k1", mkSvc(ports(443), share("k1"))}, {"p80-prefer-dual", mkSvc(families(v1.IPFamilyPolicyPreferDualStack, "10.96.0.1", "fd00::1"))},
			{"p80-clusterip-statuswiped", mkSvc(clusterIPType())}}, nil)
	im.DefaultIPMode = true
	us = append(us, im)

	// one address, two services, every way a service gives its address up while the other waits (type change, request
	// moved outside the pools, deletion): small enough for the fault menu at full depth
	us = append(us, mkUniverse("release", ns12[:1], [][]metallbv1beta1.IPAddressPool{{mkPool("a", []string{"10.0.0.0/32"}, nil)}, restartLayouts[2]}, slots3[:2],
		[]namedVariant{{"p80", mkSvc()}, {"p80-clusterip", mkSvc(clusterIPType())}, {"p80-ip0", mkSvc(lbIP("10.0.0.0"))}, {"p80-ip-outside", mkSvc(lbIP("172.16.0.1"))},
			{"p443-k1", mkSvc(ports(443), share("k1"))}}, nil))

	us = append(us, mkUniverse("reconf", ns12, reLayouts, []slotT{{"ns1", "s1"}, {"ns1", "s2"}, {"ns2", "s3"}}, reVs, map[int][]int{2: {0, 2}}))
	// the small hand-made universes first: a time budget that runs out cuts the big graphs, never the aimed ones
	big := map[string]bool{"share": true, "policy": true, "dual": true, "reconf": true}
	var small, large []*universe
	for _, u := range us {
		if big[u.Name] {
			large = append(large, u)
		} else {
			small = append(small, u)
		}
	}
	return append(small, large...)
}
