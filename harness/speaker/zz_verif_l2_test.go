//go:build verif

package main

// C04 (exactly one eligible announcer per address) and C12 (minimal failover):
// exhaustive enumeration of cluster views on the real layer2Controller.ShouldAnnounce.

import (
	"encoding/json"
	"fmt"
	"net"
	"sort"
	"strings"
	"testing"

	"github.com/go-kit/log"
	"go.universe.tf/metallb/internal/config"
	"go.universe.tf/metallb/internal/speakerlist"
	"go.universe.tf/metallb/internal/verifrt"
	v1 "k8s.io/api/core/v1"
	discovery "k8s.io/api/discovery/v1"
	metav1 "k8s.io/apimachinery/pkg/apis/meta/v1"
	"k8s.io/utils/ptr"
)

type verifSList struct {
	info speakerlist.SpeakerListInfo
}

func (s *verifSList) UsableSpeakers() speakerlist.SpeakerListInfo { return s.info }
func (s *verifSList) Rejoin()                                     {}

// l2Node is the per-node part of a view.
type l2Node struct {
	Alive bool `json:"alive"`
	Known bool `json:"known"`
	Cond  int  `json:"cond"` // 0 ok, 1 NetworkUnavailable, 2 exclude label, 3 both
	Sel   int  `json:"sel"`  // 0 not selected, 1 selected by adv1, 2 by adv2, 3 by both
	EP    int  `json:"ep"`   // 0 none, 1 ready=true, 2 ready=nil, 3 ready=false serving=true, 4 ready=false serving=false, 5 ready=false serving=nil, 6 terminating but serving, 7 two pods on the node: stopped then ready, 8 ready then stopped
	// Spelling: 0 default; 1 the NetworkUnavailable condition of an available node has status Unknown; 2 it is absent;
	// 3 the exclude label (when present) has the value "false" (the label excludes whatever its value)
	Spelling int `json:"spelling,omitempty"`
}

type l2View struct {
	Nodes     []l2Node `json:"nodes"`
	Disabled  bool     `json:"memberlist_disabled"`
	IgnoreExc bool     `json:"ignore_exclude_lb"`
	Local     bool     `json:"local_policy"`
	ExtraEP   int      `json:"extra_endpoint_without_node_name"` // 0 none, 1 ready
	Slices    int      `json:"slices"`                           // 1 or 2
	// services holding the address under test (first entry of Addrs is what the per-address oracle looks at is Addr)
	Addr     string     `json:"addr"`
	Services [][]string `json:"services"` // address lists of the services sharing Addr
	MapOrder []int      `json:"map_order_choices,omitempty"`
	// MapOrderNode: 0 = every evaluating node iterates in MapOrder; i>0 = only node i does (each speaker
	// has its own random iteration order).
	MapOrderNode int `json:"map_order_only_on_node,omitempty"`
}

var l2NodeNames = []string{"n1", "n2", "n3", "n4", "n5"}

func epCanServe(ep int) bool { return ep == 1 || ep == 2 || ep == 3 || ep == 6 || ep == 7 || ep == 8 }

func (v *l2View) eligible() map[string]bool {
	anyEP := v.ExtraEP == 1
	for _, n := range v.Nodes {
		if epCanServe(n.EP) {
			anyEP = true
		}
	}
	out := map[string]bool{}
	if !anyEP {
		return out
	}
	for i, n := range v.Nodes {
		speaker := n.Alive
		if v.Disabled {
			speaker = n.Known
		}
		if !speaker || n.Sel == 0 {
			continue
		}
		if n.Known {
			if n.Cond == 1 || n.Cond == 3 {
				continue
			}
			if (n.Cond == 2 || n.Cond == 3) && !v.IgnoreExc {
				continue
			}
		}
		if v.Local && !epCanServe(n.EP) {
			continue
		}
		out[l2NodeNames[i]] = true
	}
	return out
}

type l2Fixture struct {
	notReproducible string // set when an evaluation did not follow the choice points recorded for the same view
	ctrls map[string]*layer2Controller // long-lived controller per evaluating node
	sl    *verifSList
}

func newL2Fixture() *l2Fixture {
	f := &l2Fixture{ctrls: map[string]*layer2Controller{}, sl: &verifSList{}}
	for _, n := range l2NodeNames {
		f.ctrls[n] = &layer2Controller{myNode: n, sList: f.sl}
	}
	return f
}

func (v *l2View) build() (*config.Pool, map[string]*v1.Node, []discovery.EndpointSlice, speakerlist.SpeakerListInfo) {
	adv1 := &config.L2Advertisement{Nodes: map[string]bool{}, AllInterfaces: true}
	adv2 := &config.L2Advertisement{Nodes: map[string]bool{}, Interfaces: []string{"eth0"}}
	nodes := map[string]*v1.Node{}
	info := speakerlist.SpeakerListInfo{Nodes: map[string]bool{}, Disabled: v.Disabled}
	if v.Disabled {
		info.Nodes = nil
	}
	var eps []discovery.Endpoint
	for i, n := range v.Nodes {
		name := l2NodeNames[i]
		if n.Sel&1 != 0 {
			adv1.Nodes[name] = true
		}
		if n.Sel&2 != 0 {
			adv2.Nodes[name] = true
		}
		if n.Alive && !v.Disabled {
			info.Nodes[name] = true
		}
		if n.Known {
			node := &v1.Node{ObjectMeta: metav1.ObjectMeta{Name: name, Labels: map[string]string{}}}
			if n.Cond&1 != 0 {
				node.Status.Conditions = append(node.Status.Conditions, v1.NodeCondition{Type: v1.NodeNetworkUnavailable, Status: v1.ConditionTrue})
			} else {
				switch n.Spelling {
				case 1:
					node.Status.Conditions = append(node.Status.Conditions, v1.NodeCondition{Type: v1.NodeNetworkUnavailable, Status: v1.ConditionUnknown})
				case 2:
					node.Status.Conditions = append(node.Status.Conditions, v1.NodeCondition{Type: v1.NodeReady, Status: v1.ConditionUnknown})
				default:
					node.Status.Conditions = append(node.Status.Conditions, v1.NodeCondition{Type: v1.NodeNetworkUnavailable, Status: v1.ConditionFalse})
				}
			}
			if n.Cond&2 != 0 {
				node.Labels[v1.LabelNodeExcludeBalancers] = ""
				if n.Spelling == 3 {
					node.Labels[v1.LabelNodeExcludeBalancers] = "false"
				}
			}
			nodes[name] = node
		}
		if n.EP != 0 {
			ep := discovery.Endpoint{Addresses: []string{fmt.Sprintf("10.244.0.%d", i+1)}, NodeName: ptr.To(name)}
			switch n.EP {
			case 1:
				ep.Conditions.Ready = ptr.To(true)
			case 2:
			case 3:
				ep.Conditions.Ready, ep.Conditions.Serving = ptr.To(false), ptr.To(true)
			case 4:
				ep.Conditions.Ready, ep.Conditions.Serving = ptr.To(false), ptr.To(false)
			case 5:
				ep.Conditions.Ready = ptr.To(false)
			case 6:
				ep.Conditions.Ready, ep.Conditions.Serving, ep.Conditions.Terminating = ptr.To(false), ptr.To(true), ptr.To(true)
			case 7, 8:
				stopped := discovery.Endpoint{Addresses: []string{fmt.Sprintf("10.244.1.%d", i+1)}, NodeName: ptr.To(name),
					Conditions: discovery.EndpointConditions{Ready: ptr.To(false), Serving: ptr.To(false), Terminating: ptr.To(true)}}
				ep.Conditions.Ready = ptr.To(true)
				if n.EP == 7 {
					eps = append(eps, stopped, ep)
				} else {
					eps = append(eps, ep, stopped)
				}
				continue
			}
			eps = append(eps, ep)
		}
	}
	if v.ExtraEP == 1 {
		eps = append(eps, discovery.Endpoint{Addresses: []string{"10.244.9.9"}, Conditions: discovery.EndpointConditions{Ready: ptr.To(true)}})
	}
	var slices []discovery.EndpointSlice
	if v.Slices == 2 && len(eps) >= 2 {
		slices = []discovery.EndpointSlice{{Endpoints: eps[:1]}, {Endpoints: eps[1:]}}
	} else {
		slices = []discovery.EndpointSlice{{Endpoints: eps}}
	}
	pool := &config.Pool{Name: "pool", L2Advertisements: []*config.L2Advertisement{adv1, adv2}}
	return pool, nodes, slices, info
}

// announcers evaluates the real ShouldAnnounce on every node for one service (address list) and
// returns the names of the nodes that decide to announce.
func (f *l2Fixture) announcers(v *l2View, svcName string, addrs []string, order []int, orderNode ...int) []string {
	pool, nodes, slices, info := v.build()
	f.sl.info = info
	svc := &v1.Service{ObjectMeta: metav1.ObjectMeta{Name: svcName, Namespace: "ns"}, Spec: v1.ServiceSpec{Type: v1.ServiceTypeLoadBalancer, ExternalTrafficPolicy: v1.ServiceExternalTrafficPolicyTypeCluster}}
	if v.Local {
		svc.Spec.ExternalTrafficPolicy = v1.ServiceExternalTrafficPolicyTypeLocal
	}
	var ips []net.IP
	for _, a := range addrs {
		ips = append(ips, net.ParseIP(a))
	}
	var out []string
	for i := range v.Nodes {
		n := l2NodeNames[i]
		c := f.ctrls[n]
		c.ignoreExcludeLB = v.IgnoreExc
		var r string
		ord := order
		if len(orderNode) > 0 && orderNode[0] > 0 && orderNode[0] != i+1 {
			ord = nil
		}
		func() {
			// the recorded order vector was taken from an evaluation of the same view: if it no longer fits, the
			// evaluation depends on something that is not in the view (time, earlier calls)
			defer func() {
				if rec := recover(); rec != nil {
					if msg := fmt.Sprint(rec); strings.Contains(msg, "replay divergence") {
						verifrt.SetChooser(nil)
						f.notReproducible = msg
						r = c.ShouldAnnounce(log.NewNopLogger(), "ns/"+svcName, ips, pool, svc, slices, nodes)
						return
					}
					panic(rec)
				}
			}()
			verifrt.RunWithChoices(ord, []string{"maporder"}, func(*verifrt.Chooser) {
				r = c.ShouldAnnounce(log.NewNopLogger(), "ns/"+svcName, ips, pool, svc, slices, nodes)
			})
		}()
		if r == "" {
			out = append(out, n)
		}
	}
	return out
}

func setStr(m map[string]bool) string {
	var k []string
	for x := range m {
		k = append(k, x)
	}
	sort.Strings(k)
	return "{" + strings.Join(k, ",") + "}"
}

// checkView is the C04 oracle for one view: per address, the union of announcers over the services
// holding it is exactly one eligible node, or nobody when no node is eligible.
func (f *l2Fixture) checkView(res *verifrt.Result, v *l2View) {
	res.Count("evaluations", 1)
	E := v.eligible()
	union := map[string]bool{}
	per := []string{}
	for si, addrs := range v.Services {
		a := f.announcers(v, fmt.Sprintf("svc%d", si), addrs, v.MapOrder, v.MapOrderNode)
		per = append(per, fmt.Sprint(a))
		for _, n := range a {
			union[n] = true
		}
	}
	if f.notReproducible != "" {
		res.Violate("C04 the election is not a function of the cluster view (an evaluation of one view did not repeat)", f.notReproducible, v)
		f.notReproducible = ""
	}
	res.Outcome(fmt.Sprintf("eligible=%d announcers=%d", len(E), len(union)))
	if len(v.MapOrder) > 0 && (len(union) != 1 && len(E) > 0 || len(union) > 0 && len(E) == 0) {
		// attribute to the map order only when the default order does not violate as well
		vv := *v
		vv.MapOrder = nil
		u2 := map[string]bool{}
		for si, addrs := range vv.Services {
			for _, n := range f.announcers(&vv, fmt.Sprintf("svc%d", si), addrs, nil) {
				u2[n] = true
			}
		}
		if setStr(u2) == setStr(union) {
			return
		}
		// F1: confirm on the runtime's own (random, per call) iteration order before believing it
		verifrt.MapNative = true
		confirmed := false
		for i := 0; i < 4096 && !confirmed; i++ {
			u3 := map[string]bool{}
			for si, addrs := range vv.Services {
				for _, n := range f.announcers(&vv, fmt.Sprintf("svc%d", si), addrs, nil) {
					u3[n] = true
				}
			}
			if (len(E) > 0 && len(u3) != 1) || (len(E) == 0 && len(u3) > 0) {
				confirmed = true
			}
			for n := range u3 {
				if !E[n] {
					confirmed = true
				}
			}
		}
		verifrt.MapNative = false
		if !confirmed {
			res.Count("unconfirmed_order_candidates", 1)
			return
		}
		res.Count("order_candidates_confirmed_on_native_order", 1)
	}
	feature := func() string {
		f := []string{}
		if len(v.Services) > 1 {
			first := map[string]bool{}
			for _, s := range v.Services {
				first[s[0]] = true
			}
			if len(first) > 1 {
				f = append(f, "sharing-services-differ-in-first-address")
			} else {
				f = append(f, "sharing-services-same-first-address")
			}
		}
		if len(v.MapOrder) > 0 {
			f = append(f, "non-default-map-order")
		}
		return strings.Join(f, ",")
	}
	for n := range union {
		if !E[n] {
			why := "?"
			for i, nn := range l2NodeNames[:len(v.Nodes)] {
				if nn == n {
					x := v.Nodes[i]
					switch {
					case x.Sel == 0:
						why = "not-selected-by-advertisement"
					case !v.Disabled && !x.Alive:
						why = "no-live-speaker"
					case v.Disabled && !x.Known:
						why = "unknown-node"
					case x.Known && x.Cond&1 != 0:
						why = fmt.Sprintf("network-unavailable ignoreExcludeLB=%v", v.IgnoreExc)
					case x.Known && x.Cond&2 != 0 && !v.IgnoreExc:
						why = "excluded-from-load-balancers"
					case v.Local && !epCanServe(x.EP):
						why = "local-policy-without-local-endpoint"
					default:
						why = "no-serving-endpoint"
					}
				}
			}
			res.Violate("C04 ineligible node announces reason="+why, fmt.Sprintf("node %s announces %s but eligible set is %s (per service %v)", n, v.Addr, setStr(E), per), v)
		}
	}
	if len(E) > 0 && len(union) == 0 {
		res.Violate("C04 nobody announces although a node is eligible "+feature(), fmt.Sprintf("eligible %s, announcers per service %v", setStr(E), per), v)
	}
	if len(union) > 1 {
		res.Violate("C04 several nodes announce one address "+feature(), fmt.Sprintf("address %s announced by %s (per service %v), eligible %s", v.Addr, setStr(union), per, setStr(E)), v)
	}
}

func TestVerif_C04(t *testing.T) {
	res := verifrt.NewResult("C04")
	defer res.Write()
	f := newL2Fixture()
	if raw, ok := verifrt.ReplayCase(); ok {
		var v l2View
		if err := json.Unmarshal(raw, &v); err != nil {
			t.Fatal(err)
		}
		f.checkView(res, &v)
		res.Replayed = true
		return
	}
	thorough := verifrt.Thorough()
	const a4, a6, b4 = "10.0.0.5", "fc00::5", "10.0.0.9"
	svcSets := [][][]string{
		{{a4}}, {{a6}}, {{a4, a6}}, {{a6, a4}},
		{{a4}, {a4}},         // two services, same list
		{{a4, a6}, {a4, a6}}, //
		{{a4}, {a4, a6}},     // single-stack sharing a4 with a dual-stack service listing a4 first
		{{a4}, {a6, a4}},     // ... listing a6 first (H15)
		{{b4}},
	}
	var distinct int64
	// per-node state catalogues
	mkStates := func(sels, eps []int) []l2Node {
		var out []l2Node
		for _, alive := range []bool{true, false} {
			for _, known := range []bool{true, false} {
				for _, cond := range []int{0, 1, 2} {
					for _, sel := range sels {
						for _, ep := range eps {
							out = append(out, l2Node{alive, known, cond, sel, ep, 0})
						}
					}
				}
			}
		}
		return out
	}
	// quick: 3 nodes over the small per-node catalogue. thorough: 3 nodes over a medium catalogue plus
	// 2 nodes over the full one (every endpoint condition, every advertisement selection).
	nodeStates := mkStates([]int{0, 1}, []int{0, 1, 4})
	if thorough {
		nodeStates = mkStates([]int{0, 1, 2}, []int{0, 1, 3, 4})
	}
	res.Info["node_states"] = len(nodeStates)
	N := 3
	work := 0
	var rec func(nodes []l2Node)
	rec = func(nodes []l2Node) {
		if len(nodes) == N {
			for _, disabled := range []bool{false, true} {
				for _, ign := range []bool{false, true} {
					for _, local := range []bool{false, true} {
						for _, extra := range []int{0, 1} {
							for si, ss := range svcSets {
								if si > 3 && extra == 1 {
									continue
								}
								v := &l2View{Nodes: append([]l2Node{}, nodes...), Disabled: disabled, IgnoreExc: ign, Local: local, ExtraEP: extra, Slices: 1 + (si % 2), Addr: ss[0][len(ss[0])-1], Services: ss}
								if len(ss) > 1 {
									v.Addr = a4
								}
								res.Sample(v)
								f.checkView(res, v)
								distinct++
							}
						}
					}
				}
			}
			return
		}
		for _, st := range nodeStates {
			if len(nodes) == 0 {
				work++
				if !verifrt.Mine(work) {
					continue
				}
			}
			rec(append(nodes, st))
		}
	}
	rec(nil)
	// endpoint product: nodes that are alive, known and healthy; every selection x endpoint layouts including a pod
	// that is terminating but serving and two pods on one node in both listing orders
	nodeStates = nil
	for _, sel := range []int{0, 1} {
		for _, ep := range []int{0, 1, 4, 6, 7, 8} {
			nodeStates = append(nodeStates, l2Node{true, true, 0, sel, ep, 0})
		}
	}
	res.Info["node_states_endpoint_product"] = len(nodeStates)
	rec(nil)
	// spelling product: how "available" and "excluded" are written on the Node object
	nodeStates = nil
	for _, cond := range []int{0, 2} {
		for _, sp := range []int{0, 1, 2, 3} {
			nodeStates = append(nodeStates, l2Node{Alive: true, Known: true, Cond: cond, Sel: 1, EP: 1, Spelling: sp})
		}
	}
	res.Info["node_states_spelling_product"] = len(nodeStates)
	rec(nil)
	if thorough {
		nodeStates = mkStates([]int{0, 1, 2, 3}, []int{0, 1, 2, 3, 4, 5})
		res.Info["node_states_full_2_nodes"] = len(nodeStates)
		N = 2
		rec(nil)
	}
	// map-iteration orders of the candidate lists: all nodes eligible, every order vector with <= 2 deviations
	for n := 2; n <= 5; n++ {
		if !verifrt.Mine(n) {
			continue
		}
		nodes := make([]l2Node, n)
		for i := range nodes {
			nodes[i] = l2Node{true, true, 0, 1, 1, 0}
		}
		for _, local := range []bool{false, true} {
			for _, ss := range svcSets {
				v := &l2View{Nodes: nodes, Local: local, Slices: 1, Addr: ss[0][0], Services: ss}
				if len(ss) > 1 {
					v.Addr = a4
				}
				verifrt.ExploreChoices(2, []string{"maporder"}, func(ch *verifrt.Chooser) {
					// discover the choice points with the first node's evaluation
					pool, nodesM, slices, info := v.build()
					f.sl.info = info
					svc := &v1.Service{Spec: v1.ServiceSpec{ExternalTrafficPolicy: v1.ServiceExternalTrafficPolicyTypeCluster}}
					if local {
						svc.Spec.ExternalTrafficPolicy = v1.ServiceExternalTrafficPolicyTypeLocal
					}
					f.ctrls["n1"].ShouldAnnounce(log.NewNopLogger(), "x", []net.IP{net.ParseIP(v.Addr)}, pool, svc, slices, nodesM)
					verifrt.SetChooser(nil)
					for on := 0; on <= n; on++ {
						vv := *v
						vv.MapOrder = append([]int{}, ch.Trace...)
						vv.MapOrderNode = on
						f.checkView(res, &vv)
						distinct++
					}
					verifrt.SetChooser(ch)
				}, nil)
			}
		}
	}
	res.Count("distinct_nontrivial", distinct)
}

// ---------------- C12 ----------------

type c12Case struct {
	Addrs    []string `json:"addrs"`
	S        []string `json:"eligible_set"`
	T        []string `json:"other_set"`
	MapOrder []int    `json:"map_order_choices,omitempty"`
	Local    bool     `json:"local_policy"`
	Names    string   `json:"node_name_universe,omitempty"` // "" = short names, "long" = names longer than 64 characters with a common 64-character prefix
}

var l2ShortNames = []string{"n1", "n2", "n3", "n4", "n5"}

// long names as managed clusters generate them (cluster-pool-group-random suffix): longer than a hash block, equal in the first 64 characters
var l2LongNames = []string{
	"gke-prod-europe-west4-payments-general-purpose-n2-standard-8-5f3a9c1e-x7k2",
	"gke-prod-europe-west4-payments-general-purpose-n2-standard-8-5f3a9c1e-b0qd",
	"gke-prod-europe-west4-payments-general-purpose-n2-standard-8-5f3a9c1e-m4vz",
	"gke-prod-europe-west4-payments-general-purpose-n2-standard-8-5f3a9c1e-a1aa",
	"gke-prod-europe-west4-payments-general-purpose-n2-standard-8-5f3a9c1e-zz9z",
}

// fully qualified names: equal host parts in different zones, host parts that are prefixes of one another
var l2FQDNNames = []string{"worker-1.zone-a.example.com", "worker-1.zone-b.example.com", "worker-2.zone-a.example.com", "worker-2.zone-b.example.com", "worker-10.zone-a.example.com"}

// names where one is another plus a digit, to go with addresses where one is another with that digit in front
var l2CollideNames = []string{"node1", "node11", "node2", "node21", "node3"}
var l2CollideAddrs = [][]string{{"10.0.0.7"}, {"110.0.0.7"}, {"10.0.0.71"}, {"210.0.0.7"}, {"92.168.1.5"}, {"192.168.1.5"}, {"1.0.0.7"}, {"11.0.0.7"}}

// a cluster larger than any fixed-size scratch buffer one would think of
var l2LargeNames = func() []string {
	var out []string
	for i := 1; i <= 24; i++ {
		out = append(out, fmt.Sprintf("worker-%02d", i))
	}
	return out
}()

func (f *l2Fixture) winner(set []string, addrs []string, svcName string, local bool, order []int) []string {
	in := map[string]bool{}
	for _, n := range set {
		in[n] = true
	}
	v := &l2View{Local: local, Slices: 1}
	for _, n := range l2NodeNames {
		if in[n] {
			v.Nodes = append(v.Nodes, l2Node{true, true, 0, 1, 1, 0})
		} else {
			v.Nodes = append(v.Nodes, l2Node{false, true, 0, 1, 1, 0}) // known, selected, has an endpoint, but no live speaker
		}
	}
	return f.announcers(v, svcName, addrs, order)
}

func subsetsOf(names []string) [][]string {
	var out [][]string
	for m := 1; m < 1<<len(names); m++ {
		var s []string
		for i, n := range names {
			if m&(1<<i) != 0 {
				s = append(s, n)
			}
		}
		out = append(out, s)
	}
	return out
}

func contains(s []string, x string) bool {
	for _, y := range s {
		if y == x {
			return true
		}
	}
	return false
}

func isSubset(a, b []string) bool {
	for _, x := range a {
		if !contains(b, x) {
			return false
		}
	}
	return true
}

func TestVerif_C12(t *testing.T) {
	res := verifrt.NewResult("C12")
	defer res.Write()
	fixtures := map[string]*l2Fixture{}
	var f *l2Fixture
	useNames := func(kind string) {
		l2NodeNames = l2ShortNames
		switch kind {
		case "long":
			l2NodeNames = l2LongNames
		case "collide":
			l2NodeNames = l2CollideNames
		case "fqdn":
			l2NodeNames = l2FQDNNames
		case "large":
			l2NodeNames = l2LargeNames
		}
		if fixtures[kind] == nil {
			fixtures[kind] = newL2Fixture()
		}
		f = fixtures[kind]
	}
	defer func() { l2NodeNames = l2ShortNames }()
	useNames("")
	addrCatalogue := [][]string{{"10.0.0.5"}, {"10.0.0.6"}, {"fc00::5"}, {"10.0.0.5", "fc00::5"}, {"fc00::5", "10.0.0.5"}, {"192.168.1.240"}, {"10.0.0.7"}, {"10.0.0.8"}}
	nAddr := 40
	if verifrt.Thorough() {
		nAddr = 254
	}
	for i := 1; i <= nAddr; i++ {
		addrCatalogue = append(addrCatalogue, []string{fmt.Sprintf("10.0.1.%d", i)})
	}
	check := func(c c12Case) {
		res.Count("evaluations", 1)
		useNames(c.Names)
		wS := f.winner(c.S, c.Addrs, "svcA", c.Local, c.MapOrder)
		if len(wS) != 1 || !contains(c.S, wS[0]) {
			if len(c.MapOrder) == 0 || c12ConfirmNative(f, res, c, f.winner(c.S, c.Addrs, "svcA", c.Local, nil)) {
				res.Violate("C12 not exactly one eligible winner", fmt.Sprintf("eligible %v, announcers %v", c.S, wS), c)
			}
			return
		}
		res.Outcome("winner=" + wS[0])
		if c.T == nil && len(c.MapOrder) == 0 {
			// the long-lived controllers have evaluated many other services before: speakers that start now must agree with them
			if wf := newL2Fixture().winner(c.S, c.Addrs, "svcA", c.Local, nil); fmt.Sprint(wf) != fmt.Sprint(wS) {
				res.Violate("C12 winner depends on the history of earlier views kind=differs-from-freshly-started-speakers", fmt.Sprintf("eligible %v address %v: long-lived speakers %v, fresh speakers %v", c.S, c.Addrs, wS, wf), c)
			}
		}
		if c.T == nil {
			// independence: service name, evaluation repetition (history), other addresses of the service
			if w2 := f.winner(c.S, c.Addrs, "another-service-name", c.Local, c.MapOrder); fmt.Sprint(w2) != fmt.Sprint(wS) {
				res.Violate("C12 winner depends on the service name", fmt.Sprintf("%v vs %v", wS, w2), c)
			}
			if w3 := f.winner(c.S, c.Addrs, "svcA", c.Local, nil); fmt.Sprint(w3) != fmt.Sprint(wS) && c12ConfirmNative(f, res, c, w3) {
				res.Violate("C12 winner depends on the listing order of the nodes", fmt.Sprintf("map order %v: %v, default order: %v", c.MapOrder, wS, w3), c)
			}
			if len(c.Addrs) == 1 {
				for _, other := range []string{"fc00::77", "172.16.3.3"} {
					if strings.Contains(other, ":") == strings.Contains(c.Addrs[0], ":") {
						continue
					}
					w4 := f.winner(c.S, []string{c.Addrs[0], other}, "svcA", c.Local, c.MapOrder)
					if fmt.Sprint(w4) != fmt.Sprint(wS) {
						res.Violate("C12 winner for an address depends on the service's other addresses", fmt.Sprintf("%v alone: %v, with %s: %v", c.Addrs, wS, other, w4), c)
					}
					w5 := f.winner(c.S, []string{other, c.Addrs[0]}, "svcA", c.Local, c.MapOrder)
					if fmt.Sprint(w5) != fmt.Sprint(wS) {
						res.Violate("C12 winner for an address depends on the service's other addresses position=second", fmt.Sprintf("%v alone: %v, listed after %s: %v", c.Addrs, wS, other, w5), c)
					}
				}
			}
			return
		}
		wT := f.winner(c.T, c.Addrs, "svcA", c.Local, c.MapOrder)
		if len(wT) != 1 {
			res.Violate("C12 not exactly one eligible winner", fmt.Sprintf("eligible %v, announcers %v", c.T, wT), c)
			return
		}
		// re-evaluate S after T on the same long-lived controllers: the answer must not depend on history
		if wS2 := f.winner(c.S, c.Addrs, "svcA", c.Local, c.MapOrder); fmt.Sprint(wS2) != fmt.Sprint(wS) {
			res.Violate("C12 winner depends on the history of earlier views", fmt.Sprintf("eligible %v: first %v, after evaluating %v: %v", c.S, wS, c.T, wS2), c)
		}
		if isSubset(c.T, c.S) {
			if contains(c.T, wS[0]) && wT[0] != wS[0] {
				res.Violate("C12 address moved although its announcer stayed eligible (nodes removed)", fmt.Sprintf("S=%v winner %s; T=%v winner %s", c.S, wS[0], c.T, wT[0]), c)
			}
		}
		if isSubset(c.S, c.T) {
			if wT[0] != wS[0] && contains(c.S, wT[0]) {
				res.Violate("C12 address moved between two nodes that were both eligible before and after (nodes added)", fmt.Sprintf("S=%v winner %s; T=%v winner %s", c.S, wS[0], c.T, wT[0]), c)
			}
		}
	}
	if raw, ok := verifrt.ReplayCase(); ok {
		var c c12Case
		if err := json.Unmarshal(raw, &c); err != nil {
			t.Fatal(err)
		}
		check(c)
		res.Replayed = true
		return
	}
	var distinct int64
	work := 0
	for _, kind := range []string{"", "long", "collide", "fqdn", "large"} {
		useNames(kind)
		var all [][]string
		cat := addrCatalogue
		switch kind {
		case "long", "fqdn":
			if len(cat) > 20 {
				cat = cat[:20]
			}
		case "collide":
			cat = l2CollideAddrs
		case "large":
			// every prefix of the node list from 14 nodes on, and each of them with one node taken out
			cat = cat[:6]
			for _, k := range []int{15, 16, 17, 18, 24} {
				S := append([]string{}, l2NodeNames[:k]...)
				all = append(all, S)
				for drop := 0; drop < k; drop++ {
					T := append(append([]string{}, S[:drop]...), S[drop+1:]...)
					all = append(all, T)
				}
			}
		}
		if all == nil {
			all = subsetsOf(l2NodeNames)
		}
		for _, addrs := range cat {
			for _, local := range []bool{false, true} {
				work++
				if kind == "collide" {
					// state kept across evaluations is the point of this universe: one process sees all of its addresses
					if verifrt.Shard() != 0 {
						continue
					}
				} else if !verifrt.Mine(work) {
					continue
				}
				for _, S := range all {
					c := c12Case{Addrs: addrs, S: S, Local: local, Names: kind}
					res.Sample(c)
					check(c)
					distinct++
					// every explored map-iteration order of the candidate list
					for _, ord := range c12Orders(len(S)) {
						if kind == "large" {
							break // listing-order independence is covered by the small universes
						}
						cc := c
						cc.MapOrder = ord
						check(cc)
						distinct++
					}
					for _, T := range all {
						if (isSubset(T, S) || isSubset(S, T)) && len(T) != len(S) {
							cc := c12Case{Addrs: addrs, S: S, T: T, Local: local, Names: kind}
							check(cc)
							distinct++
						}
					}
				}
			}
		}
	}
	res.Count("distinct_nontrivial", distinct)
}

// c12ConfirmNative (F1): the explored order must be realisable - with the runtime's own iteration order the
// winner must itself come out different from the default-order winner at least once.
func c12ConfirmNative(f *l2Fixture, res *verifrt.Result, c c12Case, def []string) bool {
	verifrt.MapNative = true
	defer func() { verifrt.MapNative = false }()
	for i := 0; i < 4096; i++ {
		if w := f.winner(c.S, c.Addrs, "svcA", c.Local, nil); fmt.Sprint(w) != fmt.Sprint(def) {
			res.Count("order_candidates_confirmed_on_native_order", 1)
			return true
		}
	}
	res.Count("unconfirmed_order_candidates", 1)
	return false
}

// c12Orders: choice vectors for the (at most two) map ranges of one ShouldAnnounce call over n candidates.
func c12Orders(n int) [][]int {
	k := 1
	switch {
	case n <= 1:
		return nil
	case n == 2:
		k = 2
	case n == 3:
		k = 6
	default:
		k = n + 1
	}
	var out [][]int
	for a := 1; a < k; a++ {
		out = append(out, []int{a})
	}
	return out
}
