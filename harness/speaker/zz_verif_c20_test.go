//go:build verif

package main

// C20 (speaker half): service, configuration and node events delivered concurrently through the
// real k8s.Listener wrappers to the real speaker controller (layer-2 announcer + BGP controller
// with recording sessions), together with the layer-2 status fetcher and the per-service BGP
// peers fetcher. All interleavings with <= N preemptions; oracle: no panic / deadlock, final
// announcements equal the serial execution in lock order. Free-running -race pass of the same bodies.

import (
	"encoding/json"
	"fmt"
	"os"
	"regexp"
	"strings"
	"sync"
	"testing"
	"time"

	"github.com/go-kit/log"
	"go.universe.tf/metallb/internal/config"
	"go.universe.tf/metallb/internal/k8s"
	"go.universe.tf/metallb/internal/k8s/controllers"
	"go.universe.tf/metallb/internal/layer2"
	"go.universe.tf/metallb/internal/verifenv"
	"go.universe.tf/metallb/internal/verifrt"
	v1 "k8s.io/api/core/v1"
	discovery "k8s.io/api/discovery/v1"
	metav1 "k8s.io/apimachinery/pkg/apis/meta/v1"
	"k8s.io/apimachinery/pkg/types"
	"k8s.io/apimachinery/pkg/util/sets"
)

type c20sCall struct {
	Kind string `json:"kind"` // svc | cfg | node
	Svc  int    `json:"svc,omitempty"`
	Var  int    `json:"variant,omitempty"`
	EP   int    `json:"endpoints,omitempty"`
	Cfg  int    `json:"config,omitempty"`
	Node int    `json:"node_variant,omitempty"`
}

type c20sScenario struct {
	Name    string     `json:"name"`
	Pre     []c20sCall `json:"pre"`
	Svc     []c20sCall `json:"service_worker"`
	Cfg     []c20sCall `json:"config_worker"`
	Node    []c20sCall `json:"node_worker"`
	Fetches int        `json:"fetches"`
}

type c20sCase struct {
	Scenario c20sScenario `json:"scenario"`
	Schedule []int        `json:"schedule"`
}

type c20sH struct {
	sys   *spkSys
	u     *spkUniverse
	lst   *k8s.Listener
	order []string
	cfgs  []*config.Config
}

func newC20sH() *c20sH {
	u := spkUniverseFor("C09", true)
	s := &spkSys{u: u, otherAlive: false, nodeVar: map[string]int{}, store: verifenv.NewStore()} // this node is the only live speaker: it wins every election
	h := &c20sH{sys: s, u: u}
	// the controller is built by the real newController through spkSys.start; handlers are called directly
	s.start()
	if sc := verifrt.CurSched(); sc != nil || true {
		// callbacks are scheduling points (in production they hand over to other goroutines)
		l2 := s.c.protocolHandlers[config.Layer2].(*layer2Controller)
		l2.onStatusChange = func(types.NamespacedName) {
			if sc := verifrt.CurSched(); sc != nil {
				sc.Yield(nil, "layer2StatusChange")
			}
		}
		bc := s.c.protocolHandlers[config.BGP].(*bgpController)
		bc.adsChangedCallback = func(string) {
			if sc := verifrt.CurSched(); sc != nil {
				sc.Yield(nil, "adsChangedCallback")
			}
		}
	}
	h.lst = &k8s.Listener{
		ServiceChanged: func(l log.Logger, name string, svc *v1.Service, eps []discovery.EndpointSlice) controllers.SyncState {
			h.order = append(h.order, "svc")
			return s.c.SetBalancer(l, name, svc, eps)
		},
		ConfigChanged: func(l log.Logger, cfg *config.Config) controllers.SyncState {
			h.order = append(h.order, "cfg")
			return s.c.SetConfig(l, cfg)
		},
		NodeChanged: func(l log.Logger, n *v1.Node) controllers.SyncState {
			h.order = append(h.order, "node")
			return s.c.SetNode(l, n)
		},
	}
	for _, c := range u.Configs {
		var nodes []v1.Node
		for name := range u.NodeVars {
			nodes = append(nodes, *h.node(name, 0))
		}
		secrets := map[string]v1.Secret{}
		for _, sec := range c.Secrets {
			secrets[sec.Name] = sec
		}
		cfg, err := config.For(config.ClusterResources{Pools: c.Pools, L2Advs: c.L2Advs, BGPAdvs: c.BGPAdvs, Peers: c.Peers, Communities: c.Comms, Nodes: nodes, PasswordSecrets: secrets, BFDProfiles: c.BFDs}, config.DontValidate)
		if err != nil {
			panic(err)
		}
		h.cfgs = append(h.cfgs, cfg)
	}
	return h
}

func (h *c20sH) node(name string, vi int) *v1.Node {
	nv := h.u.NodeVars[name][vi]
	n := &v1.Node{ObjectMeta: metav1.ObjectMeta{Name: name, Labels: map[string]string{}}}
	for k, v := range nv.Labels {
		n.Labels[k] = v
	}
	st := v1.ConditionFalse
	if nv.Unavailable {
		st = v1.ConditionTrue
	}
	n.Status.Conditions = []v1.NodeCondition{{Type: v1.NodeNetworkUnavailable, Status: st}}
	return n
}

func (h *c20sH) call(c c20sCall) {
	switch c.Kind {
	case "svc":
		name := h.u.Svcs[c.Svc]
		var svc *v1.Service
		var eps []discovery.EndpointSlice
		if c.Var >= 0 {
			svc = h.sys.mkSvc(name, h.u.SvcVars[c.Var])
			if e := h.u.EPVars[c.EP].EPs; e != nil {
				eps = []discovery.EndpointSlice{{Endpoints: e}}
			}
		}
		h.lst.ServiceHandler(log.NewNopLogger(), "ns/"+name, svc, eps)
	case "cfg":
		h.lst.ConfigHandler(log.NewNopLogger(), h.cfgs[c.Cfg])
	case "node":
		h.lst.NodeHandler(log.NewNopLogger(), h.node(spkMe, c.Node))
	}
}

func (h *c20sH) dump() string { return h.sys.memoryDump() + h.sys.observable() }

func c20sScenarios() []c20sScenario {
	svc := func(i, v, ep int) c20sCall { return c20sCall{Kind: "svc", Svc: i, Var: v, EP: ep} }
	cfg := func(j int) c20sCall { return c20sCall{Kind: "cfg", Cfg: j} }
	node := func(v int) c20sCall { return c20sCall{Kind: "node", Node: v} }
	// configs (C09 universe): 0 l2-all, 2 l2-eth0, 4 bgp-a, 5 bgp-b+c+l2 ; node variants of me: 0 ok, 1 unavailable, 3 rack-c
	return []c20sScenario{
		{Name: "services-vs-l2-interface-change-vs-node-unavailable", Pre: []c20sCall{cfg(0), node(0), svc(0, 0, 0)}, Svc: []c20sCall{svc(1, 2, 0), svc(0, 3, 0)}, Cfg: []c20sCall{cfg(2)}, Node: []c20sCall{node(1)}, Fetches: 2},
		{Name: "services-vs-bgp-config-vs-node-labels", Pre: []c20sCall{cfg(5), node(0), svc(0, 0, 0)}, Svc: []c20sCall{svc(1, 2, 0), svc(0, -1, 0)}, Cfg: []c20sCall{cfg(4)}, Node: []c20sCall{node(3)}, Fetches: 2},
		{Name: "re-announce-vs-status-fetch", Pre: []c20sCall{cfg(2), node(0), svc(0, 0, 0)}, Svc: []c20sCall{svc(0, 0, 0), svc(0, 3, 0)}, Cfg: []c20sCall{cfg(0)}, Node: nil, Fetches: 3},
		// no call before the workers start: first events of a fresh process (lazily initialised state in the listener / controllers)
		{Name: "first-events-of-a-fresh-process", Pre: nil, Svc: []c20sCall{svc(0, 0, 0), svc(1, 2, 0)}, Cfg: []c20sCall{cfg(5), cfg(0)}, Node: []c20sCall{node(0), node(1)}, Fetches: 2},
		{Name: "node-flap-vs-services", Pre: []c20sCall{cfg(5), node(0), svc(0, 0, 0), svc(1, 2, 0)}, Svc: []c20sCall{svc(0, 4, 0)}, Cfg: nil, Node: []c20sCall{node(3), node(0)}, Fetches: 2},
	}
}

var c20Iter int

func c20sRun(sc c20sScenario) *c20sH {
	h := newC20sH()
	for _, c := range sc.Pre {
		h.call(c)
	}
	h.sys.ann.VerifDrainSpam()
	h.order = nil
	s := verifrt.CurSched()
	remaining := 0
	var wg sync.WaitGroup
	type namedBody struct {
		name string
		body func()
	}
	var bodies []namedBody
	run := func(name string, body func()) { bodies = append(bodies, namedBody{name, body}) }
	startAll := func() {
		// free-running pass: rotate the start order with the iteration so that each body gets to run first
		k := 0
		if s == nil && len(bodies) > 0 {
			k = c20Iter % len(bodies)
		}
		for i := range bodies {
			b := bodies[(i+k)%len(bodies)]
			if s != nil {
				remaining++
				verifrt.Go(b.name, func() { b.body(); remaining-- })
				continue
			}
			wg.Add(1)
			go func() { defer wg.Done(); b.body() }()
		}
	}
	worker := func(name string, calls []c20sCall) {
		if len(calls) == 0 {
			return
		}
		run(name, func() {
			for _, c := range calls {
				h.call(c)
			}
		})
	}
	worker("serviceWorker", sc.Svc)
	worker("configWorker", sc.Cfg)
	worker("nodeWorker", sc.Node)
	run("statusFetchers", func() {
		n := 0
		var l2results [][]layer2.IPAdvertisement
		var peerResults []sets.Set[string]
		for i := 0; i < sc.Fetches; i++ {
			for _, svc := range h.u.Svcs {
				l2results = append(l2results, h.sys.c.layer2StatusFetchFunc(types.NamespacedName{Namespace: "ns", Name: svc}))
				peerResults = append(peerResults, h.sys.c.bgpPeersFetcher("ns/"+svc))
			}
		}
		// The results are consumed the way the status reconcilers do - every advertisement's interfaces are
		// read, every peer listed - but after the fetch calls returned: a consumer may hold a result for as
		// long as it likes, and no lock operation of the fetcher follows the reads.
		for _, r := range l2results {
			for _, adv := range r {
				n += len(adv.GetInterfaces().UnsortedList())
				if adv.IsAllInterfaces() {
					n++
				}
			}
		}
		for _, p := range peerResults {
			n += len(p.UnsortedList())
		}
		_ = n
	})
	startAll()
	if s != nil {
		s.Yield(func() bool { return remaining == 0 }, "join")
	} else {
		wg.Wait()
	}
	h.sys.ann.VerifDrainSpam()
	return h
}

func c20sSerial(sc c20sScenario, order []string) (string, error) {
	h := newC20sH()
	for _, c := range sc.Pre {
		h.call(c)
	}
	idx := map[string]int{}
	lists := map[string][]c20sCall{"svc": sc.Svc, "cfg": sc.Cfg, "node": sc.Node}
	for _, o := range order {
		l := lists[o]
		if idx[o] >= len(l) {
			return "", fmt.Errorf("order %v has more %s calls than the scenario", order, o)
		}
		h.call(l[idx[o]])
		idx[o]++
	}
	return h.dump(), nil
}

func c20sCheck(res *verifrt.Result, sc c20sScenario, h *c20sH, s *verifrt.Sched) {
	c := c20sCase{Scenario: sc, Schedule: append([]int{}, s.Trace...)}
	viol := func(sig, detail string) {
		res.Violate(sig, detail+"\n  scenario: "+sc.Name+"\n  schedule: "+s.Describe(), c)
	}
	if s.Panic != "" {
		viol("C20 speaker: panic", s.Panic)
		return
	}
	if s.Deadlock {
		viol("C20 speaker: deadlock "+strings.Join(s.Blocked, ", "), "")
		return
	}
	if s.HorizonHit {
		res.Count("horizon_hits", 1)
		return
	}
	if len(h.order) != len(sc.Svc)+len(sc.Cfg)+len(sc.Node) {
		viol("C20 speaker: handler calls lost", fmt.Sprint(h.order))
		return
	}
	want, err := c20sSerial(sc, h.order)
	if err != nil {
		viol("C20 speaker: lock order inconsistent", err.Error())
		return
	}
	if got := h.dump(); got != want {
		x, y := firstDiff(got, want)
		viol("C20 speaker: final state differs from the serial execution in lock order kind="+strings.SplitN(strings.Fields(x+" "+y+" ?")[0], "=", 2)[0], fmt.Sprintf("order %v\nconcurrent has %q, serial has %q", h.order, x, y))
	}
	res.Outcome(sc.Name + ":" + strings.Join(h.order, ","))
}

func TestVerif_C20spk(t *testing.T) {
	res := verifrt.NewResult("C20")
	defer res.Write()
	mkSched := func() *verifrt.Sched { return &verifrt.Sched{Horizon: 8000, Daemon: map[string]bool{}} }
	if raw, ok := verifrt.ReplayCase(); ok {
		var c c20sCase
		if err := json.Unmarshal(raw, &c); err != nil {
			t.Fatal(err)
		}
		for i := 0; i < 5; i++ {
			s := mkSched()
			s.Prefix = c.Schedule
			var h *c20sH
			s.Run(func() { h = c20sRun(c.Scenario) })
			c20sCheck(res, c.Scenario, h, s)
		}
		res.Replayed = true
		return
	}
	bound := 2
	if verifrt.Thorough() {
		bound = 3
	}
	if verifrt.Shard() == 0 {
		c20WiringCheck(res)
	}
	deadline := time.Now().Add(verifrt.Budget())
	for si, sc := range c20sScenarios() {
		sc := sc
		var h *c20sH
		for b := 0; b <= bound; b++ {
			st := verifrt.Explore(b, deadline, mkSched, func(s *verifrt.Sched) { h = c20sRun(sc) }, func(s *verifrt.Sched) {
				res.Count("executions", 1)
				res.Count("transitions", int64(len(s.Trace)))
				if res.Counters["executions"]%2000 == 1 {
					res.Sample(map[string]interface{}{"scenario": sc.Name, "schedule": s.Describe()})
				}
				c20sCheck(res, sc, h, s)
			}, func(k int) bool { return verifrt.Mine(k + si) })
			if st.Cut {
				res.NotExhaustive("time budget in scenario " + sc.Name)
				break
			}
		}
	}
	res.Info["preemption_bound_speaker"] = bound
	res.Count("states", res.Counters["executions"])
	res.Count("traces_validated_against_impl", res.Counters["executions"])
	res.Count("distinct_nontrivial", res.Counters["executions"])
}

func TestVerif_C20spkRace(t *testing.T) {
	res := verifrt.NewResult("C20")
	defer res.Write()
	for i := 0; i < 200; i++ {
		c20Iter = i
		for _, sc := range c20sScenarios() {
			c20sRun(sc)
			res.Count("evaluations", 1)
		}
	}
	res.Count("distinct_nontrivial", int64(len(c20sScenarios())))
}

// c20WiringCheck is the assumption check of DESIGN section 4: k8s.New cannot run offline, so it is checked
// syntactically that the reconcilers are given the locking wrappers and run one worker each.
func c20WiringCheck(res *verifrt.Result) {
	src, err := os.ReadFile("../internal/k8s/k8s.go")
	if err != nil {
		res.Note("wiring check skipped: %v", err)
		return
	}
	for _, h := range []string{"ServiceHandler", "ConfigHandler", "PoolHandler", "NodeHandler"} {
		if !regexp.MustCompile(`Handler:\s+cfg\.` + h + `\b`).Match(src) {
			res.Violate("C20 wiring: a reconciler is not given the locking wrapper "+h, "internal/k8s/k8s.go does not pass cfg."+h+" as Handler", map[string]string{"part": "wiring"})
		}
	}
	for _, f := range []string{"../internal/k8s/k8s.go", "../internal/k8s/controllers/service_controller.go", "../internal/k8s/controllers/config_controller.go", "../internal/k8s/controllers/node_controller.go", "../internal/k8s/controllers/pool_controller.go"} {
		if b, err := os.ReadFile(f); err == nil && strings.Contains(string(b), "MaxConcurrentReconciles") {
			res.Violate("C20 wiring: a reconciler runs several workers", f+" sets MaxConcurrentReconciles", map[string]string{"part": "wiring"})
		}
	}
	res.Info["wiring_check"] = "k8s.New passes cfg.{Service,Config,Pool,Node}Handler; no MaxConcurrentReconciles"
}
