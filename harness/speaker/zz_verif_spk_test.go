//go:build verif

package main

import (
	"encoding/json"
	"fmt"
	"net"
	"os"
	"sort"
	"strings"
	"testing"
	"time"

	metallbv1beta1 "go.universe.tf/metallb/api/v1beta1"
	metallbv1beta2 "go.universe.tf/metallb/api/v1beta2"
	"go.universe.tf/metallb/internal/config"
	"go.universe.tf/metallb/internal/verifrt"
	"go.universe.tf/metallb/internal/verifrt/refcidr"
	v1 "k8s.io/api/core/v1"
	discovery "k8s.io/api/discovery/v1"
	metav1 "k8s.io/apimachinery/pkg/apis/meta/v1"
	"k8s.io/utils/ptr"
)

func spkPool(name string, addrs ...string) metallbv1beta1.IPAddressPool {
	return metallbv1beta1.IPAddressPool{ObjectMeta: metav1.ObjectMeta{Name: name, Namespace: spkNS}, Spec: metallbv1beta1.IPAddressPoolSpec{Addresses: addrs}}
}

func msel(k, v string) []metav1.LabelSelector {
	return []metav1.LabelSelector{{MatchLabels: map[string]string{k: v}}}
}

func spkUniverseFor(prop string, thorough bool) *spkUniverse {
	poolA := spkPool("pool-a", "10.0.1.0/24", "fc00:1::/64")
	poolB := spkPool("pool-b", "10.0.2.0/24")
	p1 := metallbv1beta2.BGPPeer{ObjectMeta: metav1.ObjectMeta{Name: "p1", Namespace: spkNS}, Spec: metallbv1beta2.BGPPeerSpec{MyASN: 64512, ASN: 64513, Address: "10.1.1.1"}}
	p2 := metallbv1beta2.BGPPeer{ObjectMeta: metav1.ObjectMeta{Name: "p2", Namespace: spkNS}, Spec: metallbv1beta2.BGPPeerSpec{MyASN: 64512, ASN: 64514, Address: "10.1.1.2", NodeSelectors: msel("rack", "a")}}
	l2 := func(name string, ifs ...string) metallbv1beta1.L2Advertisement {
		return metallbv1beta1.L2Advertisement{ObjectMeta: metav1.ObjectMeta{Name: name, Namespace: spkNS}, Spec: metallbv1beta1.L2AdvertisementSpec{Interfaces: ifs}}
	}
	bgpAdv := func(name string, l4, l6 int32, lp uint32, comms []string, peers []string, nodeSel []metav1.LabelSelector, pools []string) metallbv1beta1.BGPAdvertisement {
		return metallbv1beta1.BGPAdvertisement{ObjectMeta: metav1.ObjectMeta{Name: name, Namespace: spkNS}, Spec: metallbv1beta1.BGPAdvertisementSpec{
			AggregationLength: ptr.To(l4), AggregationLengthV6: ptr.To(l6), LocalPref: lp, Communities: comms, Peers: peers, NodeSelectors: nodeSel, IPAddressPools: pools}}
	}
	advA := bgpAdv("adv-a", 32, 128, 0, []string{"65000:1"}, nil, nil, nil)
	advB := bgpAdv("adv-b", 24, 64, 100, []string{"65000:2", "large:1:2:3"}, []string{"p1"}, nil, []string{"pool-a"})
	advC := bgpAdv("adv-c", 32, 128, 0, nil, []string{"p2"}, msel("rack", "a"), nil)
	advE := bgpAdv("adv-e", 32, 128, 0, nil, []string{"p1"}, nil, nil)
	advE2 := bgpAdv("adv-e2", 32, 128, 0, []string{"65000:9"}, []string{"p1"}, nil, nil)
	advApa := bgpAdv("adv-a-pool-a", 32, 128, 0, []string{"65000:1"}, nil, nil, []string{"pool-a"})
	advEpb := bgpAdv("adv-e-pool-b", 32, 128, 0, nil, []string{"p1"}, nil, []string{"pool-b"})
	advCpc := bgpAdv("adv-c-pool-c", 32, 128, 0, nil, []string{"p2"}, nil, []string{"pool-c"})
	poolC := spkPool("pool-c", "10.0.3.0/24")
	advD := bgpAdv("adv-d", 32, 128, 0, nil, nil, msel("rack", "b"), nil)
	peers := []metallbv1beta2.BGPPeer{p1, p2}
	u := &spkUniverse{Name: prop, Svcs: []string{"s1", "s2"}, Ifs: []string{"eth0", "eth1"}, AddrUniverse: []string{"10.0.1.1", "10.0.1.9", "fc00:1::1", "10.0.2.7", "fc00:1::2"}}
	u.NodeVars = map[string][]spkNodeVariant{
		spkMe: {{"rack-a", map[string]string{"rack": "a"}, false}, {"rack-a-unavailable", map[string]string{"rack": "a"}, true},
			{"rack-a-excluded", map[string]string{"rack": "a", v1.LabelNodeExcludeBalancers: ""}, false}, {"rack-c", map[string]string{"rack": "c"}, false},
			{"rack-a-excluded-unavailable", map[string]string{"rack": "a", v1.LabelNodeExcludeBalancers: ""}, true}},
		"other": {{"rack-b", map[string]string{"rack": "b"}, false}, {"rack-b-unavailable", map[string]string{"rack": "b"}, true}},
	}
	u.SvcVars = []spkSvcVariant{
		{"lb-a", v1.ServiceTypeLoadBalancer, false, []string{"10.0.1.1"}},
		{"lb-none", v1.ServiceTypeLoadBalancer, false, nil},
		{"lb-b", v1.ServiceTypeLoadBalancer, false, []string{"10.0.1.9"}},
		{"lb-a+a6", v1.ServiceTypeLoadBalancer, false, []string{"10.0.1.1", "fc00:1::1"}},
		{"lb-a-local", v1.ServiceTypeLoadBalancer, true, []string{"10.0.1.1"}},
		{"clusterip-a", v1.ServiceTypeClusterIP, false, []string{"10.0.1.1"}},
		{"lb-poolb", v1.ServiceTypeLoadBalancer, false, []string{"10.0.2.7"}},
		// dual-stack with the IPv6 address listed first: the layer-2 election hashes the FIRST listed address
		// (with both speakers alive, fc00:1::2 elects this node and 10.0.1.1 the other one)
		{"lb-a6'+a", v1.ServiceTypeLoadBalancer, false, []string{"fc00:1::2", "10.0.1.1"}},
		{"lb-outside", v1.ServiceTypeLoadBalancer, false, []string{"172.16.9.9"}},
		{"lb-bogus", v1.ServiceTypeLoadBalancer, false, []string{"bogus"}},
	}
	ep := func(node string, ready bool) discovery.Endpoint {
		return discovery.Endpoint{Addresses: []string{"10.244.0.1"}, NodeName: ptr.To(node), Conditions: discovery.EndpointConditions{Ready: ptr.To(ready)}}
	}
	u.EPVars = []spkEPVariant{
		{"ready-on-me", []discovery.Endpoint{ep(spkMe, true)}},
		{"none", nil},
		{"ready-on-other", []discovery.Endpoint{ep("other", true)}},
		{"notready-on-me", []discovery.Endpoint{ep(spkMe, false)}},
	}
	if prop == "C05" {
		u.L2 = false
		u.Configs = []spkConfig{
			{Name: "bgp-a", Pools: []metallbv1beta1.IPAddressPool{poolA, poolB}, BGPAdvs: []metallbv1beta1.BGPAdvertisement{advA}, Peers: peers},
			{Name: "bgp-b+c", Pools: []metallbv1beta1.IPAddressPool{poolA, poolB}, BGPAdvs: []metallbv1beta1.BGPAdvertisement{advB, advC}, Peers: peers},
			{Name: "bgp-a+b", Pools: []metallbv1beta1.IPAddressPool{poolA, poolB}, BGPAdvs: []metallbv1beta1.BGPAdvertisement{advA, advB}, Peers: peers},
			{Name: "bgp-d-other-node", Pools: []metallbv1beta1.IPAddressPool{poolA}, BGPAdvs: []metallbv1beta1.BGPAdvertisement{advD}, Peers: peers},
			{Name: "bgp-a-p1-only", Pools: []metallbv1beta1.IPAddressPool{poolA, poolB}, BGPAdvs: []metallbv1beta1.BGPAdvertisement{advA}, Peers: peers[:1]},
			{Name: "no-advs", Pools: []metallbv1beta1.IPAddressPool{poolA, poolB}, Peers: peers},
			{Name: "bgp-a+e+c-unrestricted-and-two-peer-restricted", Pools: []metallbv1beta1.IPAddressPool{poolA, poolB}, BGPAdvs: []metallbv1beta1.BGPAdvertisement{advA, advE, advC}, Peers: peers},
			{Name: "bgp-e+c-but-peer-p1-deconfigured", Pools: []metallbv1beta1.IPAddressPool{poolA, poolB}, BGPAdvs: []metallbv1beta1.BGPAdvertisement{advE2, advC}, Peers: peers[1:]},
			{Name: "bgp-e2+c", Pools: []metallbv1beta1.IPAddressPool{poolA, poolB}, BGPAdvs: []metallbv1beta1.BGPAdvertisement{advE2, advC}, Peers: peers},
			{Name: "pool-restricted-advertisements", Pools: []metallbv1beta1.IPAddressPool{poolA, poolB, poolC}, BGPAdvs: []metallbv1beta1.BGPAdvertisement{advApa, advEpb, advCpc}, Peers: peers},
			{Name: "bgp-e+c-same-attributes-different-peers", Pools: []metallbv1beta1.IPAddressPool{poolA, poolB}, BGPAdvs: []metallbv1beta1.BGPAdvertisement{advE, advC}, Peers: peers},
		}
		u.SvcVars = []spkSvcVariant{u.SvcVars[0], u.SvcVars[1], u.SvcVars[2], u.SvcVars[3], u.SvcVars[4],
			{"lb-c", v1.ServiceTypeLoadBalancer, false, []string{"10.0.1.200"}}, {"lb-poolb", v1.ServiceTypeLoadBalancer, false, []string{"10.0.2.7"}},
			{"lb-poolc", v1.ServiceTypeLoadBalancer, false, []string{"10.0.3.7"}},
			// dual-stack with the IPv6 address listed first (the per-family aggregation lengths must not depend on the order)
			{"lb-a6+a", v1.ServiceTypeLoadBalancer, false, []string{"fc00:1::1", "10.0.1.1"}}}
		// two peers on one address (another port), as two routers behind one virtual address or two VRFs: sessions are per peer
		p1b := *p1.DeepCopy()
		p1b.Name = "p1b"
		p1b.Spec.Port = 1179
		u.Configs = append(u.Configs,
			spkConfig{Name: "bgp-a-two-peers-on-one-address", Pools: []metallbv1beta1.IPAddressPool{poolA, poolB}, BGPAdvs: []metallbv1beta1.BGPAdvertisement{advA}, Peers: []metallbv1beta2.BGPPeer{p1, p1b, p2}},
			spkConfig{Name: "bgp-e-two-peers-on-one-address", Pools: []metallbv1beta1.IPAddressPool{poolA, poolB}, BGPAdvs: []metallbv1beta1.BGPAdvertisement{advE}, Peers: []metallbv1beta2.BGPPeer{p1, p1b, p2}})
		// the fourth service has the NAME of the first one, in another namespace
		u.Svcs = []string{"s1", "s2", "s3", "ns2/s1"}
		u.SvcVarsFor = map[int][]int{2: {1, 6}, 3: {1, 6, 7}}
		u.Configs = append(u.Configs, spkConfig{Name: "bgp-pool-a-only+pool-b-unadvertised", Pools: []metallbv1beta1.IPAddressPool{poolA, poolB}, BGPAdvs: []metallbv1beta1.BGPAdvertisement{advB}, Peers: peers})
		u.EPVars = u.EPVars[:3]
		u.NodeVars[spkMe] = []spkNodeVariant{u.NodeVars[spkMe][0], u.NodeVars[spkMe][3], u.NodeVars[spkMe][1], u.NodeVars[spkMe][2], u.NodeVars[spkMe][4]}
		u.NodeVars["other"] = u.NodeVars["other"][:1]
		return u
	}
	u.L2 = true
	u.Configs = []spkConfig{
		{Name: "l2-all", Pools: []metallbv1beta1.IPAddressPool{poolA}, L2Advs: []metallbv1beta1.L2Advertisement{l2("l2")}},
		{Name: "no-advs", Pools: []metallbv1beta1.IPAddressPool{poolA}},
		{Name: "l2-eth0", Pools: []metallbv1beta1.IPAddressPool{poolA}, L2Advs: []metallbv1beta1.L2Advertisement{l2("l2", "eth0")}},
		{Name: "l2-eth9-absent", Pools: []metallbv1beta1.IPAddressPool{poolA}, L2Advs: []metallbv1beta1.L2Advertisement{l2("l2", "eth9")}},
		{Name: "bgp-a", Pools: []metallbv1beta1.IPAddressPool{poolA}, BGPAdvs: []metallbv1beta1.BGPAdvertisement{advA}, Peers: peers},
		{Name: "bgp-b+c+l2", Pools: []metallbv1beta1.IPAddressPool{poolA}, L2Advs: []metallbv1beta1.L2Advertisement{l2("l2")}, BGPAdvs: []metallbv1beta1.BGPAdvertisement{advB, advC}, Peers: peers},
		{Name: "pool-shrunk", Pools: []metallbv1beta1.IPAddressPool{spkPool("pool-a", "10.0.1.0/30", "fc00:1::/64")}, L2Advs: []metallbv1beta1.L2Advertisement{l2("l2")}},
		{Name: "bgp-pool-a-only+pool-b-unadvertised", Pools: []metallbv1beta1.IPAddressPool{poolA, poolB}, BGPAdvs: []metallbv1beta1.BGPAdvertisement{advB}, Peers: peers},
		{Name: "pool-renamed", Pools: []metallbv1beta1.IPAddressPool{spkPool("pool-x", "10.0.1.0/24", "fc00:1::/64")}, L2Advs: []metallbv1beta1.L2Advertisement{l2("l2")}, BGPAdvs: []metallbv1beta1.BGPAdvertisement{advA}, Peers: peers},
	}
	// the same peers, p1 authenticated with the content of a Secret: the two configurations differ in nothing but that content
	p1s := *p1.DeepCopy()
	p1s.Spec.PasswordSecret = v1.SecretReference{Name: "bgp-secret", Namespace: spkNS}
	secret := func(pw string) v1.Secret {
		return v1.Secret{ObjectMeta: metav1.ObjectMeta{Name: "bgp-secret", Namespace: spkNS}, Type: v1.SecretTypeBasicAuth, Data: map[string][]byte{"password": []byte(pw)}}
	}
	u.Configs = append(u.Configs,
		spkConfig{Name: "bgp-a-p1-secret", Pools: []metallbv1beta1.IPAddressPool{poolA}, BGPAdvs: []metallbv1beta1.BGPAdvertisement{advA}, Peers: []metallbv1beta2.BGPPeer{p1s, p2}, Secrets: []v1.Secret{secret("one")}},
		spkConfig{Name: "bgp-a-p1-secret-rotated", Pools: []metallbv1beta1.IPAddressPool{poolA}, BGPAdvs: []metallbv1beta1.BGPAdvertisement{advA}, Peers: []metallbv1beta2.BGPPeer{p1s, p2}, Secrets: []v1.Secret{secret("two")}})
	// ... and one that differs from bgp-a in nothing but the BFD profile peer p1 uses
	p1bfd := *p1.DeepCopy()
	p1bfd.Spec.BFDProfile = "fast"
	u.Configs = append(u.Configs, spkConfig{Name: "bgp-a-p1-bfd", Pools: []metallbv1beta1.IPAddressPool{poolA}, BGPAdvs: []metallbv1beta1.BGPAdvertisement{advA}, Peers: []metallbv1beta2.BGPPeer{p1bfd, p2},
		BFDs: []metallbv1beta1.BFDProfile{{ObjectMeta: metav1.ObjectMeta{Name: "fast", Namespace: spkNS}, Spec: metallbv1beta1.BFDProfileSpec{ReceiveInterval: ptr.To(uint32(100))}}}})
	if !thorough {
		u.SvcVars = u.SvcVars[:8]
		u.NodeVars[spkMe] = []spkNodeVariant{u.NodeVars[spkMe][0], u.NodeVars[spkMe][1], u.NodeVars[spkMe][2], u.NodeVars[spkMe][4]}
	}
	return u
}

// ---------- reference model of what this node should announce over BGP (refbgp / C10 eligibility) ----------

func selMatch(sels []metav1.LabelSelector, lbl map[string]string) bool {
	if len(sels) == 0 {
		return true
	}
	for _, s := range sels {
		ok := true
		for k, v := range s.MatchLabels {
			if lbl[k] != v {
				ok = false
			}
		}
		if ok {
			return true
		}
	}
	return false
}

func epCanServeRef(e discovery.Endpoint) bool {
	if e.Conditions.Ready == nil || *e.Conditions.Ready {
		return true
	}
	return e.Conditions.Serving != nil && *e.Conditions.Serving
}

// refReadyEndpoint: some endpoint address all of whose carrying entries (restricted to onNode when non-empty) can serve.
func refReadyEndpoint(eps []discovery.Endpoint, onNode string) bool {
	state := map[string]bool{}
	for _, e := range eps {
		if onNode != "" && (e.NodeName == nil || *e.NodeName != onNode) {
			continue
		}
		for _, a := range e.Addresses {
			if cur, ok := state[a]; !ok {
				state[a] = epCanServeRef(e)
			} else {
				state[a] = cur && epCanServeRef(e)
			}
		}
	}
	for _, ok := range state {
		if ok {
			return true
		}
	}
	return false
}

type refBGP struct {
	Live     []string            // live peers
	Routes   map[string][]string // peer -> sorted route strings
	SvcPeers map[string][]string // service key -> peers
}

func (s *spkSys) refBGP() *refBGP {
	cfg := s.u.Configs[s.cfgIdx]
	me := s.u.NodeVars[spkMe][s.nodeVar[spkMe]]
	r := &refBGP{Routes: map[string][]string{}, SvcPeers: map[string][]string{}}
	for _, p := range cfg.Peers {
		if selMatch(p.Spec.NodeSelectors, me.Labels) {
			r.Live = append(r.Live, p.Name)
			r.Routes[p.Name] = nil
		}
	}
	_, excluded := me.Labels[v1.LabelNodeExcludeBalancers]
	routeSets := map[string]map[string]bool{}
	pfxOffered := map[string]map[string]bool{} // peer -> prefix
	svcPfx := map[string]map[string]bool{}
	for _, n := range s.u.Svcs {
		svc := s.svcObj(n)
		if svc == nil || svc.Spec.Type != v1.ServiceTypeLoadBalancer || len(svc.Status.LoadBalancer.Ingress) == 0 {
			continue
		}
		var ips []net.IP
		bad := false
		for _, in := range svc.Status.LoadBalancer.Ingress {
			ip := net.ParseIP(in.IP)
			if ip == nil {
				bad = true
			}
			ips = append(ips, ip)
		}
		if bad {
			continue
		}
		// the pool that contains all addresses
		var pool *metallbv1beta1.IPAddressPool
		for i := range cfg.Pools {
			var set refcidr.Set
			for _, e := range cfg.Pools[i].Spec.Addresses {
				es, _ := refcidr.ParseEntry(e)
				set = refcidr.Union(set, es)
			}
			all := true
			for _, ip := range ips {
				if !set.ContainsIP(ip) {
					all = false
				}
			}
			if all {
				pool = &cfg.Pools[i]
			}
		}
		if pool == nil {
			continue
		}
		// advertisements of the pool selecting this node
		var advs []metallbv1beta1.BGPAdvertisement
		for _, a := range cfg.BGPAdvs {
			attached := len(a.Spec.IPAddressPools) == 0 && len(a.Spec.IPAddressPoolSelectors) == 0
			for _, pn := range a.Spec.IPAddressPools {
				if pn == pool.Name {
					attached = true
				}
			}
			if attached && selMatch(a.Spec.NodeSelectors, me.Labels) {
				advs = append(advs, a)
			}
		}
		if len(advs) == 0 || me.Unavailable || (excluded && !s.u.IgnoreExcludeLB) {
			continue
		}
		eps := s.epsOf(n)
		if svc.Spec.ExternalTrafficPolicy == v1.ServiceExternalTrafficPolicyTypeLocal {
			if !refReadyEndpoint(eps, spkMe) {
				continue
			}
		} else if !refReadyEndpoint(eps, "") {
			continue
		}
		key := svcKey(n)
		svcPfx[key] = map[string]bool{}
		for _, ip := range ips {
			for _, a := range advs {
				l, bits := int(*a.Spec.AggregationLength), 32
				if ip.To4() == nil {
					l, bits = int(*a.Spec.AggregationLengthV6), 128
				}
				m := net.CIDRMask(l, bits)
				pfx := (&net.IPNet{IP: ip.Mask(m), Mask: m}).String()
				var comms []string
				for _, c := range a.Spec.Communities {
					comms = append(comms, strings.TrimPrefix(c, "large:"))
				}
				sort.Strings(comms)
				route := fmt.Sprintf("%s lp=%d comm=%v", pfx, a.Spec.LocalPref, comms)
				svcPfx[key][pfx] = true
				for _, p := range r.Live {
					named := len(a.Spec.Peers) == 0
					for _, pn := range a.Spec.Peers {
						if pn == p {
							named = true
						}
					}
					if !named {
						continue
					}
					if routeSets[p] == nil {
						routeSets[p], pfxOffered[p] = map[string]bool{}, map[string]bool{}
					}
					routeSets[p][route] = true
					pfxOffered[p][pfx] = true
				}
			}
		}
	}
	for p, set := range routeSets {
		for rt := range set {
			r.Routes[p] = append(r.Routes[p], rt)
		}
		sort.Strings(r.Routes[p])
	}
	for svc, pf := range svcPfx {
		for _, p := range r.Live {
			for x := range pf {
				if pfxOffered[p][x] {
					r.SvcPeers[svc] = append(r.SvcPeers[svc], p)
					break
				}
			}
		}
		sort.Strings(r.SvcPeers[svc])
	}
	sort.Strings(r.Live)
	return r
}

type spkCase struct {
	NoBurst  bool            `json:"no_bursts"`
	Preload  int             `json:"preloaded_services"`
	Rich     bool            `json:"rich_initial_state"`
	IgnoreEx bool            `json:"ignore_exclude_lb"`
	MLOff    bool            `json:"memberlist_disabled_and_node_other_created_later,omitempty"`
	Prop     string          `json:"prop"`
	Thorough bool            `json:"thorough_universe"`
	History  []verifrt.Event `json:"history"`
	Readable []string        `json:"readable"`
}

type spkOracle struct {
	prop     string
	thorough bool
	u        *spkUniverse
	res      *verifrt.Result
}

func (o *spkOracle) mkCase(hist []verifrt.Event) spkCase {
	c := spkCase{Prop: o.prop, Thorough: o.thorough, History: hist, Preload: o.u.Preload, IgnoreEx: o.u.IgnoreExcludeLB, Rich: o.u.Rich != nil, NoBurst: o.u.NoBurst, MLOff: o.u.MLDisabled}
	var nodeNames []string
	for n := range o.u.NodeVars {
		nodeNames = append(nodeNames, n)
	}
	sort.Strings(nodeNames)
	for _, e := range hist {
		switch e.Kind {
		case "svc":
			c.Readable = append(c.Readable, fmt.Sprintf("service %s := %s", o.u.Svcs[e.A], o.u.SvcVars[e.B].Name))
		case "mknode":
			c.Readable = append(c.Readable, "Node object "+e.S+" is created")
		case "delsvc":
			c.Readable = append(c.Readable, "delete service "+o.u.Svcs[e.A])
		case "eps":
			c.Readable = append(c.Readable, fmt.Sprintf("endpoints of %s := %s", o.u.Svcs[e.A], o.u.EPVars[e.B].Name))
		case "cfg":
			c.Readable = append(c.Readable, "config := "+o.u.Configs[e.A].Name)
		case "node":
			c.Readable = append(c.Readable, fmt.Sprintf("node %s := %s", e.S, o.u.NodeVars[e.S][e.B].Name))
		case "member":
			c.Readable = append(c.Readable, "speaker on other toggles alive")
		case "dcfg":
			c.Readable = append(c.Readable, "deliver config")
		case "dnode":
			c.Readable = append(c.Readable, "deliver node "+e.S)
		case "dsvc":
			c.Readable = append(c.Readable, "deliver "+e.S)
		}
	}
	return c
}

func (o *spkOracle) violate(hist []verifrt.Event, sig, detail string) {
	c := o.mkCase(hist)
	if o.u.MLDisabled && strings.HasPrefix(sig, "C09 announcements differ from a fresh speaker") {
		// without memberlist the candidates of the layer-2 election are the Node objects this speaker has seen: a Node
		// created after services were evaluated is a cause of its own (one signature whatever the symptom)
		for _, e := range hist {
			if e.Kind == "mknode" {
				sig = "C09 announcements differ from a fresh speaker cause=node-object-created-after-services-were-evaluated memberlist=disabled"
				break
			}
		}
	}
	o.res.Violate(sig, detail+"\n  history: "+strings.Join(c.Readable, " ; "), c)
}

func firstDiff(a, b string) (string, string) {
	la, lb := strings.Split(a, "\n"), strings.Split(b, "\n")
	for i := 0; i < len(la) || i < len(lb); i++ {
		x, y := "", ""
		if i < len(la) {
			x = la[i]
		}
		if i < len(lb) {
			y = lb[i]
		}
		if x != y {
			return x, y
		}
	}
	return "", ""
}

func (o *spkOracle) after(sys verifrt.System, hist []verifrt.Event, ev verifrt.Event, pre interface{}, isNew bool) {
	s := sys.(*spkSys)
	if s.panicMsg != "" {
		o.violate(hist, o.prop+" handler panic", s.panicMsg)
		return
	}
	for _, m := range s.mgr.misuse {
		o.violate(hist, "C05 session misuse: "+strings.Fields(m)[0]+" "+strings.Fields(m)[1], m)
	}
	if o.prop == "C09" && isNew && !s.quiescent() && s.settledModuloRetries() {
		// nothing is pending but retries of deliveries the handlers refused: a speaker started now on the same cluster
		// state must be refusing the same thing - if it settles, the long-lived one is stuck on something only it remembers
		// (refusing a configuration that orphans a service this speaker still announces is by design: the refusal is
		// explained when the long-lived speaker announces a service the fresh one does not)
		f, ok := s.freshSys()
		explained := false
		if ok {
			fa := f.announcedNames()
			for n := range s.announcedNames() {
				explained = explained || !fa[n]
			}
		}
		if ok && !explained {
			// "keeps refusing" must be true of the next attempt too: deliver the pending retries on a copy of this state
			// (replay of the history on a fresh system); a retry that goes through now was only waiting for its turn
			rep := (&verifrt.BFS{New: func() verifrt.System { return newSpkSys(o.u) }, Res: verifrt.NewResult(o.prop)}).Replay(hist).(*spkSys)
			before := len(rep.errKeys)
			for i := 0; i < 4 && !rep.quiescent(); i++ {
				for _, e := range rep.Enabled() {
					if !e.User && !e.Fault {
						rep.Apply(e)
						break
					}
				}
			}
			if rep.quiescent() || len(rep.errKeys) < before {
				return
			}
			var pend []string
			for k := range s.errKeys {
				pend = append(pend, k)
			}
			sort.Strings(pend)
			o.violate(hist, "C09 the speaker keeps refusing what a freshly started speaker accepts pending="+strings.Join(pend, ",")+" after="+s.lastUser,
				"the long-lived speaker retries "+strings.Join(pend, ",")+" forever; a fresh speaker on the same objects settles")
		}
		return
	}
	if !isNew || !s.quiescent() {
		return
	}
	if o.prop == "C09" {
		live := s.observable()
		fresh, ok := s.freshObservable()
		if !ok {
			o.res.Count("fresh_instance_not_quiescent", 1)
			return
		}
		if live != fresh {
			x, y := firstDiff(live, fresh)
			kind := strings.Fields(x + " " + y + " ?")[0]
			keyOf := func(l string) string {
				f := strings.Fields(l)
				if len(f) >= 2 {
					return strings.SplitN(f[0]+" "+f[1], "=", 2)[0]
				}
				return l
			}
			what := "differs"
			switch {
			case x == "" || (y != "" && keyOf(x) != keyOf(y) && y < x):
				what = "missing"
				kind = strings.Fields(y + " ?")[0]
			case y == "" || keyOf(x) != keyOf(y):
				what = "stale-extra"
			}
			if kind == "answer" && what == "differs" {
				vx, vy := strings.SplitN(x+"=", "=", 3), strings.SplitN(y+"=", "=", 3)
				what = "differs:" + vx[1] + "-vs-fresh:" + vy[1]
			}
			o.violate(hist, fmt.Sprintf("C09 announcements differ from a fresh speaker kind=%s %s after=%s", kind, what, s.lastUser),
				fmt.Sprintf("live has %q, fresh speaker has %q\n--- live:\n%s--- fresh:\n%s", x, y, live, fresh))
		}
	}
	if o.prop == "C05" {
		ref := s.refBGP()
		live := s.mgr.live()
		var lp []string
		for p := range live {
			lp = append(lp, p)
		}
		sort.Strings(lp)
		if fmt.Sprint(lp) != fmt.Sprint(ref.Live) {
			o.violate(hist, "C05 sessions differ from the peers selecting this node", fmt.Sprintf("live sessions %v, expected %v", lp, ref.Live))
			return
		}
		for _, p := range ref.Live {
			if fmt.Sprint(live[p]) != fmt.Sprint(ref.Routes[p]) {
				extra, missing := diffSets(live[p], ref.Routes[p])
				kind := "extra-route"
				if len(extra) == 0 {
					kind = "missing-route"
				} else if len(missing) > 0 {
					kind = "wrong-attributes-or-prefix"
				}
				o.violate(hist, "C05 routes offered to a peer differ kind="+kind+" after="+s.lastUser, fmt.Sprintf("peer %s is offered %v, expected %v", p, live[p], ref.Routes[p]))
			}
		}
		for _, n := range o.u.Svcs {
			key := svcKey(n)
			got := s.c.bgpPeersFetcher(key).UnsortedList()
			sort.Strings(got)
			if fmt.Sprint(got) != fmt.Sprint(ref.SvcPeers[key]) && !(len(got) == 0 && len(ref.SvcPeers[key]) == 0) {
				kind := "stale-peer"
				if len(got) < len(ref.SvcPeers[key]) {
					kind = "missing-peer"
				}
				o.violate(hist, "C05 peers reported for a service differ kind="+kind+" after="+s.lastUser, fmt.Sprintf("service %s reported as advertised to %v, expected %v (live %v)", key, got, ref.SvcPeers[key], live))
			}
		}
	}
}

func diffSets(a, b []string) (onlyA, onlyB []string) {
	ma, mb := map[string]bool{}, map[string]bool{}
	for _, x := range a {
		ma[x] = true
	}
	for _, x := range b {
		mb[x] = true
	}
	for x := range ma {
		if !mb[x] {
			onlyA = append(onlyA, x)
		}
	}
	for x := range mb {
		if !ma[x] {
			onlyB = append(onlyB, x)
		}
	}
	return
}

func runSpk(t *testing.T, prop string) {
	res := verifrt.NewResult(prop)
	defer res.Write()
	thorough := verifrt.Thorough()
	depth := 3
	if thorough {
		depth = 4
	}
	if d := os.Getenv("VERIF_DEPTH"); d != "" {
		fmt.Sscan(d, &depth)
	}
	if raw, ok := verifrt.ReplayCase(); ok {
		var c spkCase
		if err := json.Unmarshal(raw, &c); err != nil {
			t.Fatal(err)
		}
		u := spkUniverseFor(prop, c.Thorough)
		u.Preload, u.IgnoreExcludeLB = c.Preload, c.IgnoreEx
		if c.MLOff {
			u.MLDisabled, u.LateNodes = true, map[string]bool{"other": true}
		}
		if c.Rich {
			u.NoBurst = true
			u.Rich = [][2]int{{0, 3}, {1, 2}, {2, 6}, {3, 7}}
			for i, cc := range u.Configs {
				if cc.Name == "pool-restricted-advertisements" {
					u.InitCfg = i
				}
			}
		}
		o := &spkOracle{prop: prop, thorough: c.Thorough, u: u, res: res}
		b := &verifrt.BFS{New: func() verifrt.System { return newSpkSys(u) }, After: o.after, Res: res}
		b.Replay(c.History)
		res.Replayed = true
		return
	}
	work := 0
	type startT struct {
		preload int
		ignore  bool
		mlOff   bool
	}
	// the last start state: speakers without memberlist (every known Node counts as a live speaker), and the Node
	// object of the other node is created while this speaker already announces a service
	starts := []startT{{0, false, false}, {1, false, false}, {2, false, false}, {1, true, false}, {-1, false, false}, {1, false, true}}
	for _, st := range starts {
		u := spkUniverseFor(prop, thorough)
		u.Preload, u.IgnoreExcludeLB = st.preload, st.ignore
		if st.mlOff {
			if prop != "C09" {
				continue
			}
			u.MLDisabled, u.LateNodes = true, map[string]bool{"other": true}
		}
		// bursts of two user events: everywhere for C09; for C05 (wider alphabet) from the start state with one announced service
		u.NoBurst = prop == "C05" && !(st.preload == 1 && !st.ignore) && !thorough
		if st.preload == -1 {
			if prop != "C05" {
				continue
			}
			// a rich non-initial state: four announced services over three pools with pool-restricted advertisements
			u.Preload = 0
			u.NoBurst = true
			u.Rich = [][2]int{{0, 3}, {1, 2}, {2, 6}, {3, 7}}
			for i, c := range u.Configs {
				if c.Name == "pool-restricted-advertisements" {
					u.InitCfg = i
				}
			}
		}
		o := &spkOracle{prop: prop, thorough: thorough, u: u, res: res}
		// initial settling in canonical order, then one work item per first user event
		init := newSpkSys(u)
		var prefix []verifrt.Event
		for !init.quiescent() {
			e := init.Enabled()[0]
			prefix = append(prefix, e)
			init.Apply(e)
		}
		var roots [][]verifrt.Event
		for _, e := range init.Enabled() {
			if e.User {
				work++
				if verifrt.Mine(work) {
					roots = append(roots, append(append([]verifrt.Event{}, prefix...), e))
				}
			}
		}
		b := &verifrt.BFS{New: func() verifrt.System { return newSpkSys(u) }, Roots: roots, MaxUser: depth, Horizon: 80, After: o.after, Res: res,
			Deadline: time.Now().Add(verifrt.Budget())}
		if st.mlOff && !thorough {
			b.MaxUser = 2 // quick tier: the creation of the Node object and one more event, in every delivery order
		}
		if prop == "C05" && st.preload == 1 && !st.ignore && !st.mlOff {
			// one refused session update (Session.Set returns an error once): the retry must still publish the routes
			spkFaultMenu = true
			b.MaxFault = 1
		} else {
			spkFaultMenu = false
		}
		spkReadFaultMenu = false
		if prop == "C09" {
			// one failing API read (List / Get) inside a delivery: the delivery is retried, nothing half-read is applied
			spkReadFaultMenu = true
			b.MaxFault = 1
			if !thorough {
				// quick tier: the kinds whose absence changes what the universe's configurations mean
				spkReadFaultKinds["dcfg"] = []string{"IPAddressPool", "BGPPeer", "L2Advertisement", "BGPAdvertisement", "Secret", "Node"}
			}
		}
		if prop == "C09" {
			// a speaker that never settles does not converge at all: states from which no delivery order reaches quiescence
			b.Quiescent = func(sys verifrt.System) bool { return sys.(*spkSys).settledModuloRetries() }
			b.OnLivelock = func(hist []verifrt.Event, stuck int) {
				c := o.mkCase(hist)
				res.Violate("C09 the speaker never reaches quiescence: every delivery order keeps it re-syncing",
					fmt.Sprintf("%d states from which no quiescent state is reachable by deliveries\n  history: %s", stuck, strings.Join(c.Readable, " ; ")), c)
			}
		}
		for _, r := range roots {
			b.Replay(r)
			res.Sample(o.mkCase(r).Readable)
		}
		b.Run()
	}
	res.Count("traces_validated_against_impl", res.Counters["transitions"])
	res.Count("distinct_nontrivial", res.Counters["states"])
	res.Info["depth_user_events"] = depth
}

func TestVerif_C05(t *testing.T) { runSpk(t, "C05") }
func TestVerif_C09(t *testing.T) { runSpk(t, "C09") }

var _ = config.BGP
