//go:build verif

package main

// Speaker-level driver for C05 and C09: the real speaker controller built by the
// real newController (recording BGP session manager injected through newBGP;
// layer2.New with its two background loops suppressed), behind the real
// k8s.Listener wrappers, driven by the real ServiceReconciler (endpoints on),
// ConfigReconciler and NodeReconciler over the verifenv store.

import (
	"context"
	"fmt"
	"net"
	"sort"
	"strings"

	"github.com/go-kit/log"
	metallbv1beta1 "go.universe.tf/metallb/api/v1beta1"
	metallbv1beta2 "go.universe.tf/metallb/api/v1beta2"
	"go.universe.tf/metallb/internal/bgp"
	"go.universe.tf/metallb/internal/config"
	"go.universe.tf/metallb/internal/k8s"
	"go.universe.tf/metallb/internal/k8s/controllers"
	"go.universe.tf/metallb/internal/layer2"
	"go.universe.tf/metallb/internal/speakerlist"
	"go.universe.tf/metallb/internal/verifenv"
	"go.universe.tf/metallb/internal/verifrt"
	v1 "k8s.io/api/core/v1"
	discovery "k8s.io/api/discovery/v1"
	metav1 "k8s.io/apimachinery/pkg/apis/meta/v1"
	"k8s.io/apimachinery/pkg/types"
	ctrl "sigs.k8s.io/controller-runtime"
	"sigs.k8s.io/controller-runtime/pkg/client"
	"sigs.k8s.io/controller-runtime/pkg/event"
)

const spkNS = "metallb-system"
const spkMe = "me"

// ---- recording session manager ----

type recSession struct {
	name    string
	params  bgp.SessionParameters
	closed  bool
	setN    int
	last    []*bgp.Advertisement
	mgr     *recMgr
}

func (s *recSession) Set(advs ...*bgp.Advertisement) error {
	if s.closed {
		s.mgr.misuse = append(s.mgr.misuse, "Set on closed session "+s.name)
	}
	if s.mgr.failSets > 0 {
		// environment fault: the BGP implementation refuses this update (the peer keeps what it had)
		s.mgr.failSets--
		return fmt.Errorf("verif: injected Set failure")
	}
	if s.mgr.failAt > 0 {
		// environment fault: the n-th session update of this delivery is refused (the earlier ones went through)
		s.mgr.setCalls++
		if s.mgr.setCalls == s.mgr.failAt {
			return fmt.Errorf("verif: injected Set failure")
		}
	}
	s.setN++
	s.last = advs
	return nil
}

func (s *recSession) Close() error {
	s.closed = true
	return nil
}

type recMgr struct {
	sessions []*recSession
	misuse   []string
	failSets int // the next failSets Set calls fail
	failAt   int // the failAt-th Set call of the current delivery fails (0: none)
	setCalls int
}

func (m *recMgr) NewSession(l log.Logger, args bgp.SessionParameters) (bgp.Session, error) {
	s := &recSession{name: args.SessionName, params: args, mgr: m}
	m.sessions = append(m.sessions, s)
	return s, nil
}
func (m *recMgr) SyncBFDProfiles(profiles map[string]*config.BFDProfile) error { return nil }
func (m *recMgr) SyncExtraInfo(extras string) error                          { return nil }
func (m *recMgr) SetEventCallback(func(interface{}))                         {}

func routeString(a *bgp.Advertisement) string {
	var cs []string
	for _, c := range a.Communities {
		cs = append(cs, c.String())
	}
	sort.Strings(cs)
	return fmt.Sprintf("%s lp=%d comm=%v", a.Prefix.String(), a.LocalPref, cs)
}

// live returns peer name -> sorted set of routes last Set (duplicates collapsed).
func (m *recMgr) live() map[string][]string {
	out := map[string][]string{}
	for _, s := range m.sessions {
		if s.closed {
			continue
		}
		set := map[string]bool{}
		for _, a := range s.last {
			set[routeString(a)] = true
		}
		var rs []string
		for r := range set {
			rs = append(rs, r)
		}
		sort.Strings(rs)
		if _, dup := out[s.name]; dup {
			m.misuse = append(m.misuse, "two live sessions for peer "+s.name)
		}
		out[s.name] = rs
	}
	return out
}

// ---- universe ----

type spkConfig struct {
	Name    string
	Pools   []metallbv1beta1.IPAddressPool
	L2Advs  []metallbv1beta1.L2Advertisement
	BGPAdvs []metallbv1beta1.BGPAdvertisement
	Peers   []metallbv1beta2.BGPPeer
	Comms   []metallbv1beta1.Community
	Secrets []v1.Secret
	BFDs    []metallbv1beta1.BFDProfile
}

type spkSvcVariant struct {
	Name   string
	Type   v1.ServiceType
	Local  bool
	Status []string
}

type spkEPVariant struct {
	Name string
	EPs  []discovery.Endpoint
}

type spkNodeVariant struct {
	Name        string
	Labels      map[string]string
	Unavailable bool
}

type spkUniverse struct {
	Name     string
	Configs  []spkConfig
	Svcs     []string // service names (namespace "ns"), or "<namespace>/<name>"
	SvcVars  []spkSvcVariant
	EPVars   []spkEPVariant
	NodeVars map[string][]spkNodeVariant // per node name
	L2       bool
	// Preload: the cluster already has service s1 (variant 0) with its endpoints (variant 0) when the speaker
	// starts; Preload == 2: also s2 with the same variant (two services sharing the address).
	Preload int
	// Rich, when set, replaces Preload: explicit (service index, variant index) pairs announced at start under config InitCfg.
	Rich    [][2]int
	InitCfg int
	// SvcVarsFor restricts the variants offered for a service index (nil = all).
	SvcVarsFor map[int][]int
	// IgnoreExcludeLB: the speaker process runs with --ignore-exclude-lb.
	IgnoreExcludeLB bool
	// NoBurst: user events only at quiescent states (the rich start state has too wide an alphabet for bursts)
	NoBurst bool
	Ifs     []string
	AddrUniverse []string
	// MLDisabled: the speakers run without memberlist (every known Node counts as having a live speaker).
	// LateNodes: nodes whose Node object does not exist when the speaker starts; event "mknode" creates it.
	MLDisabled bool
	LateNodes  map[string]bool
}

type nopSvcClient struct{}

func (nopSvcClient) UpdateStatus(svc *v1.Service) error                           { return nil }
func (nopSvcClient) Infof(svc *v1.Service, desc, msg string, args ...interface{})  {}
func (nopSvcClient) Errorf(svc *v1.Service, desc, msg string, args ...interface{}) {}

type spkSList struct{ s *spkSys }

func (l spkSList) UsableSpeakers() speakerlist.SpeakerListInfo {
	if l.s.u.MLDisabled {
		return speakerlist.SpeakerListInfo{Disabled: true}
	}
	nodes := map[string]bool{spkMe: true}
	if l.s.otherAlive {
		nodes["other"] = true
	}
	return speakerlist.SpeakerListInfo{Nodes: nodes}
}
func (l spkSList) Rejoin() {}

type spkSys struct {
	u      *spkUniverse
	store  *verifenv.Store
	svcQ   *verifenv.Queue
	cfgQ   *verifenv.Queue
	nodeQ  *verifenv.Queue
	c      *controller
	mgr    *recMgr
	ann    *layer2.Announce
	lst    *k8s.Listener
	sr     *controllers.ServiceReconciler
	cr     *controllers.ConfigReconciler
	nr     *controllers.NodeReconciler
	reloadCh chan event.GenericEvent

	cfgIdx     int
	otherAlive bool
	nodeVar    map[string]int
	panicMsg   string
	lastUser   string
	burst      int // user events applied since the last delivery
	// errKeys: pending keys whose last delivery ended with an error from the handler (the real queue retries them with
	// back-off, possibly forever: a refused configuration stays refused until somebody changes something)
	errKeys map[string]bool
	statusEvents int
	adsEvents    int
}

func newSpkSys(u *spkUniverse) *spkSys {
	s := &spkSys{u: u, store: verifenv.NewStore(), otherAlive: true, nodeVar: map[string]int{}, errKeys: map[string]bool{}}
	for n := range u.NodeVars {
		if !u.LateNodes[n] {
			s.putNode(n, 0)
		}
	}
	s.putConfig(u.InitCfg)
	s.start()
	s.cfgQ.Add("config")
	for n := range u.NodeVars {
		if !u.LateNodes[n] {
			s.nodeQ.Add(n)
		}
	}
	pre := u.Rich
	if pre == nil {
		for i := 0; i < u.Preload && i < len(u.Svcs); i++ {
			pre = append(pre, [2]int{i, 0})
		}
	}
	for _, pv := range pre {
		n := u.Svcs[pv[0]]
		s.store.Put(s.mkSvc(n, u.SvcVars[pv[1]]))
		s.store.Put(&discovery.EndpointSlice{ObjectMeta: metav1.ObjectMeta{Name: svcName(n) + "-eps", Namespace: svcNS(n), Labels: map[string]string{discovery.LabelServiceName: svcName(n)}},
			AddressType: discovery.AddressTypeIPv4, Endpoints: u.EPVars[0].EPs})
		s.svcQ.Add(svcKey(n))
	}
	return s
}

func (s *spkSys) putNode(name string, vi int) {
	nv := s.u.NodeVars[name][vi]
	n := &v1.Node{ObjectMeta: metav1.ObjectMeta{Name: name, Labels: map[string]string{}}}
	for k, v := range nv.Labels {
		n.Labels[k] = v
	}
	st := v1.ConditionFalse
	if nv.Unavailable {
		st = v1.ConditionTrue
	}
	n.Status.Conditions = []v1.NodeCondition{{Type: v1.NodeNetworkUnavailable, Status: st}}
	n.Status.Addresses = []v1.NodeAddress{{Type: v1.NodeInternalIP, Address: map[string]string{spkMe: "172.16.0.1", "other": "172.16.0.2"}[name]}}
	s.store.Put(n)
	s.nodeVar[name] = vi
}

func (s *spkSys) putConfig(j int) {
	for _, k := range []string{"IPAddressPool", "L2Advertisement", "BGPAdvertisement", "BGPPeer", "Community", "Secret", "BFDProfile"} {
		s.store.RemoveAll(k)
	}
	c := s.u.Configs[j]
	for i := range c.Pools {
		s.store.Put(c.Pools[i].DeepCopy())
	}
	for i := range c.L2Advs {
		s.store.Put(c.L2Advs[i].DeepCopy())
	}
	for i := range c.BGPAdvs {
		s.store.Put(c.BGPAdvs[i].DeepCopy())
	}
	for i := range c.Peers {
		s.store.Put(c.Peers[i].DeepCopy())
	}
	for i := range c.Comms {
		s.store.Put(c.Comms[i].DeepCopy())
	}
	for i := range c.Secrets {
		s.store.Put(c.Secrets[i].DeepCopy())
	}
	for i := range c.BFDs {
		s.store.Put(c.BFDs[i].DeepCopy())
	}
	s.cfgIdx = j
}

func (s *spkSys) start() {
	s.svcQ, s.cfgQ, s.nodeQ = verifenv.NewQueue(), verifenv.NewQueue(), verifenv.NewQueue()
	s.reloadCh = make(chan event.GenericEvent, 256)
	s.mgr = &recMgr{}
	verifrt.Suppress["interfaceScan"] = true
	verifrt.Suppress["spamLoop"] = true
	saved := newBGP
	newBGP = func(cfg controllerConfig) bgp.SessionManager { return s.mgr }
	c, err := newController(controllerConfig{
		MyNode: spkMe, Namespace: spkNS, Logger: log.NewNopLogger(), SList: spkSList{s}, bgpType: bgpFrr,
		IgnoreExcludeLB: s.u.IgnoreExcludeLB,
		DisableLayer2: !s.u.L2, Layer2StatusChange: func(types.NamespacedName) { s.statusEvents++ },
		BGPAdsChangedCallback: func(string) { s.adsEvents++ },
	})
	newBGP = saved
	if err != nil {
		panic(err)
	}
	c.client = nopSvcClient{}
	s.c = c
	if s.u.L2 {
		s.ann = c.protocolHandlers[config.Layer2].(*layer2Controller).announcer
		s.ann.VerifSetInterfaces(s.u.Ifs)
	}
	s.lst = &k8s.Listener{ServiceChanged: c.SetBalancer, ConfigChanged: c.SetConfig, NodeChanged: c.SetNode}
	reload := func() { s.reloadCh <- controllers.NewReloadEvent() }
	s.sr = &controllers.ServiceReconciler{Client: s.store, Logger: log.NewNopLogger(), Handler: s.lst.ServiceHandler, Endpoints: true, Reload: s.reloadCh}
	s.cr = &controllers.ConfigReconciler{Client: s.store, Logger: log.NewNopLogger(), Namespace: spkNS, Handler: s.lst.ConfigHandler,
		ValidateConfig: config.DontValidate, ForceReload: reload, BGPType: "frr"}
	s.nr = &controllers.NodeReconciler{Client: s.store, Logger: log.NewNopLogger(), NodeName: spkMe, Namespace: spkNS, Handler: s.lst.NodeHandler, ForceReload: reload}
}

func (s *spkSys) quiescent() bool { return s.svcQ.Empty() && s.cfgQ.Empty() && s.nodeQ.Empty() }

// settledModuloRetries: nothing is pending except retries of deliveries the handlers refused.
func (s *spkSys) settledModuloRetries() bool {
	for _, k := range s.cfgQ.Keys() {
		if !s.errKeys["cfg/"+k] {
			return false
		}
	}
	for _, k := range s.nodeQ.Keys() {
		if !s.errKeys["node/"+k] {
			return false
		}
	}
	for _, k := range s.svcQ.Keys() {
		if !s.errKeys["svc/"+k] {
			return false
		}
	}
	return true
}

func (s *spkSys) drain() {
	for {
		select {
		case <-s.reloadCh:
			s.svcQ.Add("reload")
		default:
			if s.ann != nil {
				s.ann.VerifDrainSpam()
			}
			return
		}
	}
}

// svcNS / svcName: an entry of Svcs is a service name in namespace "ns", or "<namespace>/<name>"
func svcNS(n string) string {
	if i := strings.Index(n, "/"); i >= 0 {
		return n[:i]
	}
	return "ns"
}

func svcName(n string) string { return n[strings.Index(n, "/")+1:] }

func svcKey(n string) string { return svcNS(n) + "/" + svcName(n) }

func (s *spkSys) svcObj(name string) *v1.Service {
	o, _ := s.store.Peek("Service", svcNS(name), svcName(name)).(*v1.Service)
	return o
}

func (s *spkSys) mkSvc(name string, v spkSvcVariant) *v1.Service {
	svc := &v1.Service{ObjectMeta: metav1.ObjectMeta{Name: svcName(name), Namespace: svcNS(name)}, Spec: v1.ServiceSpec{Type: v.Type,
		ExternalTrafficPolicy: v1.ServiceExternalTrafficPolicyTypeCluster, ClusterIP: "192.168.0.9", ClusterIPs: []string{"192.168.0.9"},
		Ports: []v1.ServicePort{{Port: 80, Protocol: v1.ProtocolTCP}}}}
	if v.Local {
		svc.Spec.ExternalTrafficPolicy = v1.ServiceExternalTrafficPolicyTypeLocal
	}
	for _, ip := range v.Status {
		svc.Status.LoadBalancer.Ingress = append(svc.Status.LoadBalancer.Ingress, v1.LoadBalancerIngress{IP: ip})
	}
	return svc
}

func svcSig(svc *v1.Service) string {
	var ips []string
	for _, in := range svc.Status.LoadBalancer.Ingress {
		ips = append(ips, in.IP)
	}
	return fmt.Sprintf("%s/%s/%v", svc.Spec.Type, svc.Spec.ExternalTrafficPolicy, ips)
}

func epSig(eps []discovery.Endpoint) string {
	var out []string
	for _, e := range eps {
		n := "<nil>"
		if e.NodeName != nil {
			n = *e.NodeName
		}
		r, sv := "nil", "nil"
		if e.Conditions.Ready != nil {
			r = fmt.Sprint(*e.Conditions.Ready)
		}
		if e.Conditions.Serving != nil {
			sv = fmt.Sprint(*e.Conditions.Serving)
		}
		out = append(out, fmt.Sprintf("%v@%s r=%s s=%s", e.Addresses, n, r, sv))
	}
	return strings.Join(out, ";")
}

func (s *spkSys) epsOf(svc string) []discovery.Endpoint {
	o, _ := s.store.Peek("EndpointSlice", svcNS(svc), svcName(svc)+"-eps").(*discovery.EndpointSlice)
	if o == nil {
		return nil
	}
	return o.Endpoints
}

func (s *spkSys) storeDump() string {
	var b strings.Builder
	fmt.Fprintf(&b, "cfg=%d otherAlive=%v nodes=%v\n", s.cfgIdx, s.otherAlive, s.nodeVar)
	for _, n := range s.u.Svcs {
		if svc := s.svcObj(n); svc != nil {
			fmt.Fprintf(&b, "svc %s %s eps=%s\n", n, svcSig(svc), epSig(s.epsOf(n)))
		} else if eps := s.epsOf(n); eps != nil {
			fmt.Fprintf(&b, "orphan-eps %s %s\n", n, epSig(eps))
		}
	}
	return b.String()
}

// observable is what the speaker announces (C09): announcer holdings, responder decisions, per live session routes.
func (s *spkSys) observable() string {
	var b strings.Builder
	if s.ann != nil {
		held := s.ann.VerifHeld()
		var ks []string
		for k := range held {
			ks = append(ks, k)
		}
		sort.Strings(ks)
		for _, k := range ks {
			fmt.Fprintf(&b, "l2 %s %v\n", k, held[k])
		}
		for _, ip := range s.u.AddrUniverse {
			for _, intf := range s.u.Ifs {
				fmt.Fprintf(&b, "answer %s@%s=%s\n", ip, intf, s.ann.VerifAnswer(net.ParseIP(ip), intf))
			}
		}
	}
	live := s.mgr.live()
	var ps []string
	for p := range live {
		ps = append(ps, p)
	}
	sort.Strings(ps)
	for _, p := range ps {
		fmt.Fprintf(&b, "bgp %s %v\n", p, live[p])
	}
	// the parameters each live session was created with (a session kept across a configuration change must be the
	// session a fresh speaker would open)
	var sl []string
	for _, rs := range s.mgr.sessions {
		if !rs.closed {
			sl = append(sl, fmt.Sprintf("bgp-session %s %+v\n", rs.name, rs.params))
		}
	}
	sort.Strings(sl)
	b.WriteString(strings.Join(sl, ""))
	return b.String()
}

func (s *spkSys) memoryDump() string {
	var b strings.Builder
	var ann []string
	for proto, m := range s.c.announced {
		for k, v := range m {
			if v {
				ann = append(ann, string(proto)+":"+k)
			}
		}
	}
	sort.Strings(ann)
	var ips []string
	for k, v := range s.c.svcIPs {
		ips = append(ips, fmt.Sprintf("%s=%v", k, v))
	}
	sort.Strings(ips)
	var nodes []string
	for k, n := range s.c.nodes {
		nodes = append(nodes, fmt.Sprintf("%s:%v:%v", k, n.Labels, n.Status.Conditions[0].Status))
	}
	sort.Strings(nodes)
	fmt.Fprintf(&b, "announced=%v svcIPs=%v nodes=%v cfgnil=%v\n", ann, ips, nodes, s.c.config == nil)
	bc := s.c.protocolHandlers[config.BGP].(*bgpController)
	var ads []string
	for k, v := range bc.svcAds {
		var rs []string
		for _, a := range v {
			rs = append(rs, routeString(a)+fmt.Sprint(a.Peers))
		}
		ads = append(ads, k+"="+strings.Join(rs, "|"))
	}
	sort.Strings(ads)
	var act []string
	for k, v := range bc.activeAds {
		l := v.UnsortedList()
		sort.Strings(l)
		act = append(act, fmt.Sprintf("%s=%v", k, l))
	}
	sort.Strings(act)
	var peers []string
	for _, p := range bc.peers {
		peers = append(peers, fmt.Sprintf("%s:%v", p.cfg.Name, p.session != nil))
	}
	sort.Strings(peers)
	fmt.Fprintf(&b, "svcAds=%v activeAds=%v peers=%v labels=%v\n", ads, act, peers, bc.nodeLabels)
	if s.ann != nil {
		b.WriteString(s.ann.VerifDump())
	}
	fmt.Fprintf(&b, "initial=%v\n", s.sr.VerifInitialLoadPerformed())
	return b.String()
}

var spkBurstMode = true

// spkFaultMenu: one refused session update as a bounded fault event (C05)
var spkFaultMenu = false

// spkReadFaultMenu: one failing API read inside a delivery as a bounded fault event (C09)
var spkReadFaultMenu = false
var spkReadFaultKinds = map[string][]string{
	"dcfg":  {"IPAddressPool", "BGPPeer", "BFDProfile", "L2Advertisement", "BGPAdvertisement", "Community", "Secret", "Node", "Namespace", "ConfigMap"},
	"dnode": {"Node"},
	"dsvc":  {"Service", "EndpointSlice"},
}

func (s *spkSys) retryMark() string {
	var ks []string
	for k := range s.errKeys {
		ks = append(ks, k)
	}
	sort.Strings(ks)
	if len(ks) == 0 {
		return ""
	}
	return "retrying " + strings.Join(ks, ",") + "\n"
}

func (s *spkSys) burstMark() string {
	if spkBurstMode && !s.u.NoBurst && s.burst == 1 && !s.quiescent() {
		return "user-event-may-follow\n"
	}
	return ""
}

func (s *spkSys) Key() string {
	return s.burstMark() + s.retryMark() + s.storeDump() + fmt.Sprintf("Q svc=%v cfg=%v node=%v\n", s.svcQ.Keys(), s.cfgQ.Keys(), s.nodeQ.Keys()) + s.memoryDump() + s.observable() + s.panicMsg
}

func (s *spkSys) Enabled() []verifrt.Event {
	if s.panicMsg != "" {
		return nil
	}
	var evs []verifrt.Event
	if s.cfgQ.Has("config") {
		evs = append(evs, verifrt.Event{Kind: "dcfg"})
	}
	for _, k := range s.nodeQ.Keys() {
		evs = append(evs, verifrt.Event{Kind: "dnode", S: k})
	}
	for _, k := range s.svcQ.Keys() {
		evs = append(evs, verifrt.Event{Kind: "dsvc", S: k})
	}
	if spkReadFaultMenu {
		// one read of the API (List of a kind, Get of the object) fails once during the delivery
		if s.cfgQ.Has("config") {
			for i := range spkReadFaultKinds["dcfg"] {
				evs = append(evs, verifrt.Event{Kind: "dcfg", A: 100 + i, Fault: true})
			}
		}
		for _, k := range s.nodeQ.Keys() {
			evs = append(evs, verifrt.Event{Kind: "dnode", S: k, A: 100, Fault: true})
		}
		for _, k := range s.svcQ.Keys() {
			for i := range spkReadFaultKinds["dsvc"] {
				evs = append(evs, verifrt.Event{Kind: "dsvc", S: k, A: 100 + i, Fault: true})
			}
		}
	}
	if spkFaultMenu && s.u.L2 == false {
		for _, k := range s.svcQ.Keys() {
			if k != "reload" {
				evs = append(evs, verifrt.Event{Kind: "dsvc", S: k, B: 1, Fault: true}) // the first session update of this delivery is refused
				evs = append(evs, verifrt.Event{Kind: "dsvc", S: k, B: 2, Fault: true}) // the second one is (the first peer already has the new routes)
			}
		}
	}
	// user events at quiescent states, and one more right after a user event before anything of it was delivered
	// (two API changes observed together)
	// (with the session-update fault in the menu also while nothing but the retry of a refused delivery is pending: a retry
	// in back-off waits arbitrarily long, the next change may well arrive first)
	if !s.quiescent() && !(spkBurstMode && !s.u.NoBurst && s.burst == 1) && !(spkFaultMenu && !s.u.L2 && s.cfgQ.Empty() && s.nodeQ.Empty() && s.settledModuloRetries()) {
		return evs
	}
	for i, n := range s.u.Svcs {
		cur := s.svcObj(n)
		for vi, v := range s.u.SvcVars {
			if allowed, ok := s.u.SvcVarsFor[i]; ok {
				in := false
				for _, a := range allowed {
					if a == vi {
						in = true
					}
				}
				if !in {
					continue
				}
			}
			if cur != nil && svcSig(cur) == svcSig(s.mkSvc(n, v)) {
				continue
			}
			evs = append(evs, verifrt.Event{Kind: "svc", A: i, B: vi, User: true})
		}
		if cur != nil {
			evs = append(evs, verifrt.Event{Kind: "delsvc", A: i, User: true})
		}
		for vi, v := range s.u.EPVars {
			if epSig(s.epsOf(n)) == epSig(v.EPs) {
				continue
			}
			evs = append(evs, verifrt.Event{Kind: "eps", A: i, B: vi, User: true})
		}
	}
	for j := range s.u.Configs {
		if j != s.cfgIdx {
			evs = append(evs, verifrt.Event{Kind: "cfg", A: j, User: true})
		}
	}
	var nodeNames []string
	for n := range s.u.NodeVars {
		nodeNames = append(nodeNames, n)
	}
	sort.Strings(nodeNames)
	for ni, n := range nodeNames {
		if s.store.Peek("Node", "", n) == nil {
			// the Node object does not exist yet: the only event is its creation
			evs = append(evs, verifrt.Event{Kind: "mknode", A: ni, S: n, User: true})
			continue
		}
		for vi := range s.u.NodeVars[n] {
			if vi != s.nodeVar[n] {
				evs = append(evs, verifrt.Event{Kind: "node", A: ni, B: vi, S: n, User: true})
			}
		}
	}
	evs = append(evs, verifrt.Event{Kind: "member", User: true})
	return evs
}

func (s *spkSys) guard(f func()) {
	defer func() {
		if r := recover(); r != nil {
			s.panicMsg = fmt.Sprint("PANIC: ", r)
		}
	}()
	f()
}

func (s *spkSys) Apply(ev verifrt.Event) {
	if ev.User {
		s.lastUser = ev.Kind
		s.burst++
		// whatever a user event makes pending is new work, not the retry of a refused one
		s.errKeys = map[string]bool{}
	} else {
		s.burst = 0
	}
	readFault := false
	if ev.Fault && ev.A >= 100 && (ev.Kind == "dcfg" || ev.Kind == "dnode" || ev.Kind == "dsvc") {
		kindToFail := spkReadFaultKinds[ev.Kind][ev.A-100]
		failed := false
		s.store.Fail = func(op, kind string) error {
			if (op == "list" || op == "get") && kind == kindToFail && !failed {
				failed = true
				readFault = true
				return fmt.Errorf("verif: injected read failure")
			}
			return nil
		}
		defer func() { s.store.Fail = nil }()
	}
	// a delivery that failed on an injected read failure is retried as new work, not as the retry of a refusal
	defer func() {
		if readFault {
			delete(s.errKeys, map[string]string{"dcfg": "cfg/config", "dnode": "node/" + ev.S, "dsvc": "svc/" + ev.S}[ev.Kind])
		}
	}()
	switch ev.Kind {
	case "svc":
		n := s.u.Svcs[ev.A]
		s.store.Put(s.mkSvc(n, s.u.SvcVars[ev.B]))
		s.svcQ.Add(svcKey(n))
	case "delsvc":
		n := s.u.Svcs[ev.A]
		s.store.Remove("Service", svcNS(n), svcName(n))
		s.svcQ.Add(svcKey(n))
	case "eps":
		n := s.u.Svcs[ev.A]
		v := s.u.EPVars[ev.B]
		if v.EPs == nil {
			s.store.Remove("EndpointSlice", svcNS(n), svcName(n)+"-eps")
		} else {
			s.store.Put(&discovery.EndpointSlice{ObjectMeta: metav1.ObjectMeta{Name: svcName(n) + "-eps", Namespace: svcNS(n), Labels: map[string]string{discovery.LabelServiceName: svcName(n)}},
				AddressType: discovery.AddressTypeIPv4, Endpoints: v.EPs})
		}
		s.svcQ.Add(svcKey(n))
	case "cfg":
		s.putConfig(ev.A)
		s.cfgQ.Add("config")
	case "node":
		old := s.u.NodeVars[ev.S][s.nodeVar[ev.S]]
		s.putNode(ev.S, ev.B)
		nw := s.u.NodeVars[ev.S][ev.B]
		// NodeReconciler predicate: label change or network availability change; ConfigReconciler: label change
		s.nodeQ.Add(ev.S)
		if fmt.Sprint(old.Labels) != fmt.Sprint(nw.Labels) {
			s.cfgQ.Add("config")
		}
	case "mknode":
		// a Node object is created: the node reconciler and the configuration reconciler both watch node creations
		s.putNode(ev.S, 0)
		s.nodeQ.Add(ev.S)
		s.cfgQ.Add("config")
	case "member":
		s.otherAlive = !s.otherAlive
		s.svcQ.Add("reload") // the speaker list forces a sync on membership changes
	case "dcfg":
		s.cfgQ.Take("config")
		s.guard(func() {
			if _, err := s.cr.Reconcile(context.Background(), ctrl.Request{NamespacedName: types.NamespacedName{Namespace: spkNS, Name: "x"}}); err != nil {
				s.cfgQ.Add("config")
				s.errKeys["cfg/config"] = true
			} else {
				delete(s.errKeys, "cfg/config")
			}
		})
	case "dnode":
		s.nodeQ.Take(ev.S)
		s.guard(func() {
			if _, err := s.nr.Reconcile(context.Background(), ctrl.Request{NamespacedName: types.NamespacedName{Name: ev.S}}); err != nil {
				s.nodeQ.Add(ev.S)
				s.errKeys["node/"+ev.S] = true
			} else {
				delete(s.errKeys, "node/"+ev.S)
			}
		})
	case "dsvc":
		s.svcQ.Take(ev.S)
		if ev.B == 2 {
			s.mgr.failAt, s.mgr.setCalls = 2, 0
		} else {
			s.mgr.failSets = ev.B
		}
		defer func() { s.mgr.failSets, s.mgr.failAt = 0, 0 }()
		req := ctrl.Request{NamespacedName: types.NamespacedName{Namespace: "metallbreload", Name: "reload"}}
		if ev.S != "reload" {
			parts := strings.SplitN(ev.S, "/", 2)
			req = ctrl.Request{NamespacedName: types.NamespacedName{Namespace: parts[0], Name: parts[1]}}
		}
		s.guard(func() {
			if _, err := s.sr.Reconcile(context.Background(), req); err != nil {
				s.svcQ.Add(ev.S)
				s.errKeys["svc/"+ev.S] = true
			} else {
				delete(s.errKeys, "svc/"+ev.S)
			}
		})
	default:
		panic("unknown event " + ev.Kind)
	}
	s.drain()
}

// settle delivers pending work in canonical order (config, nodes, services) until quiescent.
func (s *spkSys) settle(max int) bool {
	for i := 0; i < max && !s.quiescent(); i++ {
		switch {
		case s.cfgQ.Has("config"):
			s.Apply(verifrt.Event{Kind: "dcfg"})
		case !s.nodeQ.Empty():
			s.Apply(verifrt.Event{Kind: "dnode", S: s.nodeQ.Keys()[0]})
		default:
			k := s.svcQ.Keys()
			pick := k[0]
			for _, x := range k {
				if x == "reload" {
					pick = x
				}
			}
			s.Apply(verifrt.Event{Kind: "dsvc", S: pick})
		}
	}
	return s.quiescent()
}

// freshObservable starts a fresh speaker on a copy of the final cluster state, feeds it in canonical
// order (config, nodes, full sync) and returns what it announces.
func (s *spkSys) freshObservable() (string, bool) {
	f, ok := s.freshSys()
	return f.observable(), ok
}

// announcedNames is the set of services the controller counts as announced on some protocol.
func (s *spkSys) announcedNames() map[string]bool {
	out := map[string]bool{}
	for _, m := range s.c.announced {
		for k, v := range m {
			if v {
				out[k] = true
			}
		}
	}
	return out
}

func (s *spkSys) freshSys() (*spkSys, bool) {
	f := &spkSys{u: s.u, store: s.store, otherAlive: s.otherAlive, nodeVar: s.nodeVar, cfgIdx: s.cfgIdx, errKeys: map[string]bool{}}
	f.start()
	f.cfgQ.Add("config")
	for n := range s.u.NodeVars {
		if s.store.Peek("Node", "", n) != nil {
			f.nodeQ.Add(n)
		}
	}
	for _, k := range s.store.Keys("Service") {
		f.svcQ.Add(k)
	}
	ok := f.settle(80)
	return f, ok && f.panicMsg == ""
}

var _ client.Object = &v1.Service{}
