//go:build verif

package main

// C15 (password / secret-reference part): every peer credential combination x BGP type x
// secret-handling mode through the real passwordForSession and the real frr-k8s session manager:
// the neighbor carries either the password or the secret reference, never both.

import (
	"encoding/json"
	"fmt"
	"testing"

	"github.com/go-kit/log"
	frrv1beta1 "github.com/metallb/frr-k8s/api/v1beta1"
	"go.universe.tf/metallb/internal/bgp"
	bgpfrrk8s "go.universe.tf/metallb/internal/bgp/frrk8s"
	"go.universe.tf/metallb/internal/config"
	"go.universe.tf/metallb/internal/logging"
	"go.universe.tf/metallb/internal/verifrt"
	v1 "k8s.io/api/core/v1"
)

type c15pwCase struct {
	Password string `json:"password"`
	Secret   bool   `json:"secret_ref"`
	BGPType  string `json:"bgp_type"`
	Handling int    `json:"secret_handling"`
}

func c15pwCheck(res *verifrt.Result, c c15pwCase) {
	res.Count("evaluations", 1)
	peer := &config.Peer{Name: "p", Password: c.Password}
	if c.Secret {
		peer.SecretPassword = "from-secret"
		peer.PasswordRef = v1.SecretReference{Name: "bgp-secret", Namespace: "metallb-system"}
	}
	pw, ref := passwordForSession(peer, bgpImplementation(c.BGPType), SecretHandling(c.Handling))
	res.Outcome(fmt.Sprintf("%s handling=%d pw=%v ref=%v", c.BGPType, c.Handling, pw != "", ref.Name != ""))
	if pw != "" && ref.Name != "" {
		res.Violate("C15 session gets both a password and a secret reference", fmt.Sprintf("%q %v", pw, ref), c)
	}
	wantPW, wantRef := c.Password, ""
	if c.Secret {
		if c.BGPType == "frr-k8s" && SecretHandling(c.Handling) == SecretPassThrough {
			wantRef = "bgp-secret"
		} else {
			wantPW = "from-secret"
		}
	}
	if pw != wantPW || ref.Name != wantRef {
		res.Violate("C15 session credentials differ from the peer's", fmt.Sprintf("got password %q ref %q, want %q %q", pw, ref.Name, wantPW, wantRef), c)
	}
	if c.BGPType != "frr-k8s" {
		return
	}
	sm := bgpfrrk8s.NewSessionManager(log.NewNopLogger(), logging.LevelInfo, "node1", "frr-k8s-system")
	var last frrv1beta1.FRRConfiguration
	sm.SetEventCallback(func(i interface{}) { last = i.(frrv1beta1.FRRConfiguration) })
	if _, err := sm.NewSession(log.NewNopLogger(), bgp.SessionParameters{PeerAddress: "10.1.1.1", PeerASN: 64513, MyASN: 64512, Password: pw, PasswordRef: ref, SessionName: "p"}); err != nil {
		res.Violate("C15 session refused", err.Error(), c)
		return
	}
	n := last.Spec.BGP.Routers[0].Neighbors[0]
	if n.Password != "" && n.PasswordSecret.Name != "" {
		res.Violate("C15 both password and secret reference on one neighbor", fmt.Sprint(n.Password, n.PasswordSecret), c)
	}
	if n.Password != wantPW || n.PasswordSecret.Name != wantRef {
		res.Violate("C15 neighbor credentials differ from the peer's", fmt.Sprintf("got %q %v", n.Password, n.PasswordSecret), c)
	}
}

func TestVerif_C15pw(t *testing.T) {
	res := verifrt.NewResult("C15")
	defer res.Write()
	if raw, ok := verifrt.ReplayCase(); ok {
		var c c15pwCase
		_ = json.Unmarshal(raw, &c)
		c15pwCheck(res, c)
		res.Replayed = true
		return
	}
	var n int64
	for _, pw := range []string{"", "plain"} {
		for _, sec := range []bool{false, true} {
			if pw != "" && sec {
				continue // rejected by the configuration parser; passwordForSession panics by contract
			}
			for _, bt := range []string{"native", "frr", "frr-k8s"} {
				for _, h := range []int{int(SecretPassThrough), int(SecretConvert)} {
					c := c15pwCase{pw, sec, bt, h}
					res.Sample(c)
					c15pwCheck(res, c)
					n++
				}
			}
		}
	}
	res.Count("distinct_nontrivial", n)
	res.Count("programs", n)
}
