//go:build verif

package main

// C10 - BGP announcement eligibility: exhaustive enumeration of endpoint-slice
// layouts x node state x advertisement selection x policy on the real
// bgpController.ShouldAnnounce, and (positive half) on the real speaker
// controller.SetBalancer with a recording session manager: routes appear iff
// the node announces.

import (
	"encoding/json"
	"fmt"
	"net"
	"testing"

	"github.com/go-kit/log"
	"go.universe.tf/metallb/internal/bgp"
	"go.universe.tf/metallb/internal/config"
	"go.universe.tf/metallb/internal/verifrt"
	v1 "k8s.io/api/core/v1"
	discovery "k8s.io/api/discovery/v1"
	metav1 "k8s.io/apimachinery/pkg/apis/meta/v1"
	"k8s.io/apimachinery/pkg/util/sets"
)

type c10Entry struct {
	Ready   int `json:"ready"`   // 0 nil, 1 true, 2 false
	Serving int `json:"serving"` // 0 nil, 1 true, 2 false
	Node    int `json:"node"`    // 0 me, 1 other, 2 nil
	Addrs   int `json:"addrs"`   // 1 {a}, 2 {b}, 3 {a,b}
	Term    int `json:"terminating,omitempty"` // 0 nil, 1 true (enumerated with ready=false only, as Kubernetes publishes it)
}

type c10Case struct {
	Entries   []c10Entry `json:"entries"`
	Split     int        `json:"first_slice_len"` // entries[:Split] in slice 1, rest in slice 2 (0 = single slice)
	NodeKnown bool       `json:"node_known"`
	Unavail   bool       `json:"network_unavailable"`
	Excluded  bool       `json:"exclude_label"`
	IgnoreExc bool       `json:"ignore_exclude_lb"`
	// CondStatus: how a NetworkUnavailable condition that does not say "True" is written: "" = status False,
	// "Unknown" = status Unknown, "absent" = no such condition (all three mean: not unavailable).
	CondStatus string `json:"network_unavailable_condition_when_not_true,omitempty"`
	// LabelValue: the value of the exclude label when Excluded ("" by default; the label excludes whatever its value).
	LabelValue string `json:"exclude_label_value,omitempty"`
	AdvSel    int        `json:"adv_selects"` // 0 me, 1 other only, 2 nobody (no advertisement), 3 two advs: other and me
	Local     bool       `json:"local_policy"`
}

func tri(x int) *bool {
	switch x {
	case 1:
		t := true
		return &t
	case 2:
		f := false
		return &f
	}
	return nil
}

func (c *c10Case) build() (*config.Pool, *v1.Service, []discovery.EndpointSlice, map[string]*v1.Node) {
	var eps []discovery.Endpoint
	for _, e := range c.Entries {
		ep := discovery.Endpoint{Conditions: discovery.EndpointConditions{Ready: tri(e.Ready), Serving: tri(e.Serving), Terminating: tri(e.Term)}}
		switch e.Node {
		case 0:
			n := spkMe
			ep.NodeName = &n
		case 1:
			n := "other"
			ep.NodeName = &n
		}
		if e.Addrs&1 != 0 {
			ep.Addresses = append(ep.Addresses, "10.244.0.1")
		}
		if e.Addrs&2 != 0 {
			ep.Addresses = append(ep.Addresses, "10.244.0.2")
		}
		eps = append(eps, ep)
	}
	var slices []discovery.EndpointSlice
	if c.Split > 0 && c.Split < len(eps) {
		slices = []discovery.EndpointSlice{{Endpoints: eps[:c.Split]}, {Endpoints: eps[c.Split:]}}
	} else {
		slices = []discovery.EndpointSlice{{Endpoints: eps}}
	}
	pool := &config.Pool{Name: "p"}
	switch c.AdvSel {
	case 0:
		pool.BGPAdvertisements = []*config.BGPAdvertisement{{Name: "a", AggregationLength: 32, AggregationLengthV6: 128, Nodes: map[string]bool{spkMe: true}}}
	case 1:
		pool.BGPAdvertisements = []*config.BGPAdvertisement{{Name: "a", AggregationLength: 32, AggregationLengthV6: 128, Nodes: map[string]bool{"other": true}}}
	case 3:
		pool.BGPAdvertisements = []*config.BGPAdvertisement{{Name: "a", AggregationLength: 32, AggregationLengthV6: 128, Nodes: map[string]bool{"other": true}},
			{Name: "b", AggregationLength: 24, AggregationLengthV6: 128, Nodes: map[string]bool{spkMe: true, "other": false}}}
	}
	svc := &v1.Service{ObjectMeta: metav1.ObjectMeta{Name: "s", Namespace: "ns"}, Spec: v1.ServiceSpec{Type: v1.ServiceTypeLoadBalancer, ExternalTrafficPolicy: v1.ServiceExternalTrafficPolicyTypeCluster},
		Status: v1.ServiceStatus{LoadBalancer: v1.LoadBalancerStatus{Ingress: []v1.LoadBalancerIngress{{IP: "10.0.1.1"}}}}}
	if c.Local {
		svc.Spec.ExternalTrafficPolicy = v1.ServiceExternalTrafficPolicyTypeLocal
	}
	nodes := map[string]*v1.Node{}
	if c.NodeKnown {
		n := &v1.Node{ObjectMeta: metav1.ObjectMeta{Name: spkMe, Labels: map[string]string{}}}
		st := v1.ConditionFalse
		if c.Unavail {
			st = v1.ConditionTrue
		}
		n.Status.Conditions = []v1.NodeCondition{{Type: v1.NodeNetworkUnavailable, Status: st}}
		if !c.Unavail {
			switch c.CondStatus {
			case "Unknown":
				n.Status.Conditions[0].Status = v1.ConditionUnknown
			case "absent":
				n.Status.Conditions = []v1.NodeCondition{{Type: v1.NodeReady, Status: v1.ConditionUnknown}}
			}
		}
		if c.Excluded {
			n.Labels[v1.LabelNodeExcludeBalancers] = c.LabelValue
		}
		nodes[spkMe] = n
	}
	return pool, svc, slices, nodes
}

func canServe(e c10Entry) bool { return e.Ready == 0 || e.Ready == 1 || e.Serving == 1 }

// expected: the iff of the statement; ambiguous reports layouts excluded under Local policy (DESIGN F6).
func (c *c10Case) expected() (announce bool, ambiguous bool) {
	if c.AdvSel == 1 || c.AdvSel == 2 {
		return false, false
	}
	if c.NodeKnown && c.Unavail {
		return false, false
	}
	if c.NodeKnown && c.Excluded && !c.IgnoreExc {
		return false, false
	}
	ready := func(onlyMe bool) bool {
		for bit := 1; bit <= 2; bit <<= 1 {
			seen, ok := false, true
			for _, e := range c.Entries {
				if e.Addrs&bit == 0 {
					continue
				}
				if onlyMe && e.Node != 0 {
					continue
				}
				seen = true
				if !canServe(e) {
					ok = false
				}
			}
			if seen && ok {
				return true
			}
		}
		return false
	}
	if !c.Local {
		return ready(false), false
	}
	// Local: an address carried by entries on different nodes with conflicting conditions is ambiguous
	for bit := 1; bit <= 2; bit <<= 1 {
		meOK, otherBad, meSeen := true, false, false
		for _, e := range c.Entries {
			if e.Addrs&bit == 0 {
				continue
			}
			if e.Node == 0 {
				meSeen = true
				if !canServe(e) {
					meOK = false
				}
			} else if !canServe(e) {
				otherBad = true
			}
		}
		if meSeen && meOK && otherBad {
			ambiguous = true
		}
	}
	return ready(true), ambiguous
}

type c10Fix struct {
	bc  *bgpController
	mgr *recMgr
	c   *controller
}

func newC10Fix() *c10Fix {
	f := &c10Fix{mgr: &recMgr{}}
	f.bc = &bgpController{logger: log.NewNopLogger(), myNode: spkMe, svcAds: map[string][]*bgp.Advertisement{}, activeAds: map[string]sets.Set[string]{},
		adsChangedCallback: func(string) {}, sessionManager: f.mgr, bgpType: bgpFrr}
	sess, _ := f.mgr.NewSession(log.NewNopLogger(), bgp.SessionParameters{SessionName: "p1"})
	f.bc.peers = []*peer{{cfg: &config.Peer{Name: "p1"}, session: sess, id: "p1"}}
	f.c = &controller{myNode: spkMe, protocolHandlers: map[config.Proto]Protocol{config.BGP: f.bc}, protocols: []config.Proto{config.BGP},
		announced: map[config.Proto]map[string]bool{config.BGP: {}}, svcIPs: map[string][]net.IP{}, nodes: map[string]*v1.Node{}, client: nopSvcClient{}}
	return f
}

func (f *c10Fix) check(res *verifrt.Result, c *c10Case) {
	res.Count("evaluations", 1)
	pool, svc, slices, nodes := c.build()
	f.bc.ignoreExcludeLB = c.IgnoreExc
	want, amb := c.expected()
	if amb {
		res.Count("ambiguous_local_layouts_not_judged", 1)
		return
	}
	reason := f.bc.ShouldAnnounce(log.NewNopLogger(), "ns/s", []net.IP{net.ParseIP("10.0.1.1")}, pool, svc, slices, nodes)
	got := reason == ""
	res.Outcome(fmt.Sprintf("announce=%v reason=%s", got, reason))
	feat := func() string {
		s := fmt.Sprintf("policy=%s", map[bool]string{false: "cluster", true: "local"}[c.Local])
		conflict := false
		for bit := 1; bit <= 2; bit <<= 1 {
			ok, bad := false, false
			for _, e := range c.Entries {
				if e.Addrs&bit != 0 {
					if canServe(e) {
						ok = true
					} else {
						bad = true
					}
				}
			}
			if ok && bad {
				conflict = true
			}
		}
		if conflict {
			s += " conflicting-conditions-for-one-address"
		}
		for _, e := range c.Entries {
			if e.Node == 2 && canServe(e) {
				s += " serving-entry-without-node-name"
				break
			}
		}
		if c.Unavail && c.NodeKnown {
			s += " node-network-unavailable"
		}
		if c.Excluded && c.NodeKnown {
			s += fmt.Sprintf(" node-excluded ignore=%v", c.IgnoreExc)
		}
		if c.AdvSel != 0 {
			s += fmt.Sprintf(" adv-selection=%d", c.AdvSel)
		}
		return s
	}
	if got != want {
		dir := "announces-although-not-eligible"
		if want {
			dir = "does-not-announce-although-eligible"
		}
		res.Violate("C10 "+dir+" "+feat(), fmt.Sprintf("ShouldAnnounce returned %q, expected announce=%v", reason, want), c)
		return
	}
	// positive half through the real speaker controller: routes appear iff the node announces
	f.c.config = &config.Config{Pools: &config.Pools{ByName: map[string]*config.Pool{"p": pool}}}
	pool.CIDR = []*net.IPNet{{IP: net.ParseIP("10.0.1.0").To4(), Mask: net.CIDRMask(24, 32)}}
	f.c.nodes = nodes
	f.c.SetBalancer(log.NewNopLogger(), "ns/s", svc, slices)
	routes := f.mgr.live()["p1"]
	if (len(routes) > 0) != want {
		res.Violate("C10 routes-do-not-follow-eligibility "+feat(), fmt.Sprintf("routes %v while announce expected=%v", routes, want), c)
	}
	f.c.SetBalancer(log.NewNopLogger(), "ns/s", nil, nil)
	if r := f.mgr.live()["p1"]; len(r) != 0 {
		res.Violate("C10 routes-remain-after-delete", fmt.Sprint(r), c)
	}
}

func TestVerif_C10(t *testing.T) {
	res := verifrt.NewResult("C10")
	defer res.Write()
	f := newC10Fix()
	if raw, ok := verifrt.ReplayCase(); ok {
		var c c10Case
		if err := json.Unmarshal(raw, &c); err != nil {
			t.Fatal(err)
		}
		f.check(res, &c)
		res.Replayed = true
		return
	}
	var entries []c10Entry
	for r := 0; r < 3; r++ {
		for s := 0; s < 3; s++ {
			for n := 0; n < 3; n++ {
				for a := 1; a <= 3; a++ {
					entries = append(entries, c10Entry{r, s, n, a, 0})
					if r == 2 {
						entries = append(entries, c10Entry{r, s, n, a, 1}) // a pod shutting down: not ready, terminating, serving or not
					}
				}
			}
		}
	}
	var distinct int64
	work := 0
	runLayout := func(es []c10Entry, full bool) {
		splits := []int{0}
		if len(es) >= 2 {
			splits = append(splits, 1)
		}
		if len(es) >= 3 {
			splits = append(splits, 2)
		}
		for _, split := range splits {
			for _, local := range []bool{false, true} {
				if !full {
					c := &c10Case{Entries: es, Split: split, NodeKnown: true, Local: local}
					f.check(res, c)
					distinct++
					continue
				}
				for _, known := range []bool{true, false} {
					for _, un := range []bool{false, true} {
						for _, ex := range []bool{false, true} {
							if !known && (un || ex) {
								continue
							}
							for _, ign := range []bool{false, true} {
								for adv := 0; adv < 4; adv++ {
									c := &c10Case{Entries: es, Split: split, NodeKnown: known, Unavail: un, Excluded: ex, IgnoreExc: ign, AdvSel: adv, Local: local}
									res.Sample(c)
									f.check(res, c)
									distinct++
								}
							}
						}
					}
				}
			}
		}
	}
	// 0, 1 and 2 entries with the full node/advertisement product; 3 entries with the default node state
	if verifrt.Mine(0) {
		// spellings of the node state: a NetworkUnavailable condition that is Unknown or absent is not "unavailable";
		// the exclude label excludes whatever its value
		for _, e := range entries {
			if e.Term != 0 || e.Addrs != 1 {
				continue
			}
			for _, local := range []bool{false, true} {
				for _, ign := range []bool{false, true} {
					for _, cs := range []string{"Unknown", "absent"} {
						for _, ex := range []bool{false, true} {
							c := &c10Case{Entries: []c10Entry{e}, NodeKnown: true, CondStatus: cs, Excluded: ex, IgnoreExc: ign, Local: local}
							f.check(res, c)
							distinct++
						}
					}
					for _, lv := range []string{"false", "true", "0", "no"} {
						for _, un := range []bool{false, true} {
							c := &c10Case{Entries: []c10Entry{e}, NodeKnown: true, Unavail: un, Excluded: true, LabelValue: lv, IgnoreExc: ign, Local: local}
							f.check(res, c)
							distinct++
						}
					}
				}
			}
		}
		runLayout(nil, true)
		for _, e := range entries {
			runLayout([]c10Entry{e}, true)
		}
	}
	for _, e1 := range entries {
		work++
		if !verifrt.Mine(work) {
			continue
		}
		for _, e2 := range entries {
			runLayout([]c10Entry{e1, e2}, true)
			if verifrt.Thorough() {
				for _, e3 := range entries {
					runLayout([]c10Entry{e1, e2, e3}, false)
				}
			} else {
				for i := 0; i < len(entries); i += 5 {
					runLayout([]c10Entry{e1, e2, entries[i]}, false)
				}
			}
		}
	}
	res.Count("distinct_nontrivial", distinct)
}
