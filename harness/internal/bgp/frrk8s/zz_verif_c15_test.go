//go:build verif

package frr

// C15 - FRR-K8s mode: the FRRConfiguration handed to frr-k8s offers each neighbor exactly what
// was requested, is deterministic, and denotes the same per-neighbor routes as the FRR-mode
// configuration generated from the same sessions (differential against frrinterp's meaning of
// the C14 text).

import (
	"encoding/json"
	"fmt"
	"reflect"
	"sort"
	"strings"
	"testing"

	"github.com/go-kit/log"
	frrv1beta1 "github.com/metallb/frr-k8s/api/v1beta1"
	"go.universe.tf/metallb/internal/bgp"
	bgpfrr "go.universe.tf/metallb/internal/bgp/frr"
	"go.universe.tf/metallb/internal/logging"
	"go.universe.tf/metallb/internal/verifrt"
)

type c15Case struct {
	Sessions    []int    `json:"sessions"`
	AdvSets     [][]int  `json:"adv_sets"`
	PreAdvSets  [][]int  `json:"adv_sets_set_before,omitempty"` // per session: a Set call made before the final one
	CreateOrder []int    `json:"create_order"`
	SetOrder    []int    `json:"set_order"`
	MapOrder    []int    `json:"map_order_choices,omitempty"`
	Names       []string `json:"names,omitempty"`
}

var c15AdvSets = [][]int{{}, {0}, {1}, {2}, {3}, {4}, {5}, {6}, {0, 1}, {2, 1}, {0, 3, 4}, {3, 7}, {2, 5, 6}, {3, 8}, {3, 0, 3, 7}, {1, 5}, {8, 3, 0}}

func (c *c15Case) build() []bgpfrr.VerifSession {
	cat, advs := bgpfrr.VerifSessionCatalogue(), bgpfrr.VerifAdvCatalogue()
	var out []bgpfrr.VerifSession
	for i, si := range c.Sessions {
		s := cat[si]
		for _, ai := range c.AdvSets[i] {
			s.Advs = append(s.Advs, advs[ai].Adv())
		}
		if c.PreAdvSets != nil {
			s.HasPre = true
			for _, ai := range c.PreAdvSets[i] {
				s.PreAdvs = append(s.PreAdvs, advs[ai].Adv())
			}
		}
		out = append(out, s)
	}
	return out
}

func c15Render(sessions []bgpfrr.VerifSession, createOrder, setOrder []int) (*frrv1beta1.FRRConfiguration, int, error) {
	sm := NewSessionManager(log.NewNopLogger(), logging.LevelInfo, "node1", "frr-k8s-system")
	var last *frrv1beta1.FRRConfiguration
	n := 0
	sm.SetEventCallback(func(i interface{}) {
		c := i.(frrv1beta1.FRRConfiguration)
		last = c.DeepCopy()
		n++
	})
	ss := make([]bgp.Session, len(sessions))
	for _, i := range createOrder {
		s, err := sm.NewSession(log.NewNopLogger(), sessions[i].Params)
		if err != nil {
			return nil, n, err
		}
		ss[i] = s
	}
	for _, i := range setOrder {
		if sessions[i].HasPre {
			if err := ss[i].Set(sessions[i].PreAdvs...); err != nil {
				return nil, n, err
			}
		}
	}
	for _, i := range setOrder {
		if err := ss[i].Set(sessions[i].Advs...); err != nil {
			return nil, n, err
		}
	}
	return last, n, nil
}

func ident(n int) []int {
	p := make([]int, n)
	for i := range p {
		p[i] = i
	}
	return p
}

func fam(pfx string) string {
	if strings.Contains(pfx, ":") {
		return "ipv6"
	}
	return "ipv4"
}

// k8sMeaning: prefix -> attributes for one neighbor of the FRRConfiguration.
func k8sMeaning(n *frrv1beta1.Neighbor) map[string]bgpfrr.VerifRouteMeaning {
	m := map[string]bgpfrr.VerifRouteMeaning{}
	for _, p := range n.ToAdvertise.Allowed.Prefixes {
		m[p] = bgpfrr.VerifRouteMeaning{}
	}
	for _, lp := range n.ToAdvertise.PrefixesWithLocalPref {
		for _, p := range lp.Prefixes {
			if cur, ok := m[p]; ok {
				cur.LocalPref = lp.LocalPref
				m[p] = cur
			}
		}
	}
	for _, cp := range n.ToAdvertise.PrefixesWithCommunity {
		for _, p := range cp.Prefixes {
			if cur, ok := m[p]; ok {
				if strings.HasPrefix(cp.Community, "large:") {
					cur.Large = append(cur.Large, strings.TrimPrefix(cp.Community, "large:"))
				} else {
					cur.Comms = append(cur.Comms, cp.Community)
				}
				m[p] = cur
			}
		}
	}
	for p, cur := range m {
		sort.Strings(cur.Comms)
		sort.Strings(cur.Large)
		m[p] = cur
	}
	return m
}

func sortedUnique(l []string) bool {
	for i := 1; i < len(l); i++ {
		if l[i-1] >= l[i] {
			return false
		}
	}
	return true
}

func c15Check(res *verifrt.Result, c *c15Case) *frrv1beta1.FRRConfiguration {
	res.Count("evaluations", 1)
	sessions := c.build()
	for _, s := range sessions {
		if _, inc := bgpfrr.VerifRequested(s); inc {
			return nil
		}
	}
	var cfg *frrv1beta1.FRRConfiguration
	var err error
	verifrt.RunWithChoices(c.MapOrder, []string{"maporder"}, func(*verifrt.Chooser) {
		cfg, _, err = c15Render(sessions, c.CreateOrder, c.SetOrder)
	})
	if err != nil || cfg == nil {
		res.Violate("C15 generation fails on a valid session set", fmt.Sprint(err), c)
		return nil
	}
	res.Count("programs", 1)
	dump, _ := json.Marshal(cfg.Spec)
	if !reflect.DeepEqual(cfg.Spec.NodeSelector.MatchLabels, map[string]string{"kubernetes.io/hostname": "node1"}) || len(cfg.Spec.NodeSelector.MatchExpressions) != 0 {
		res.Violate("C15 node selector does not target exactly this node", fmt.Sprint(cfg.Spec.NodeSelector), c)
	}
	wantRouter := map[string]map[string]bool{}
	for _, s := range sessions {
		req, _ := bgpfrr.VerifRequested(s)
		rid := ""
		if s.Params.RouterID != nil {
			rid = s.Params.RouterID.String()
		}
		rk := fmt.Sprintf("%d|%s|%s", s.Params.MyASN, s.Params.VRFName, rid)
		if wantRouter[rk] == nil {
			wantRouter[rk] = map[string]bool{}
		}
		for p := range req {
			wantRouter[rk][p] = true
		}
		// find the neighbor
		var nb *frrv1beta1.Neighbor
		for ri := range cfg.Spec.BGP.Routers {
			r := &cfg.Spec.BGP.Routers[ri]
			if fmt.Sprintf("%d|%s|%s", r.ASN, r.VRF, r.ID) != rk {
				continue
			}
			for ni := range r.Neighbors {
				n := &r.Neighbors[ni]
				if n.Address == s.Params.PeerAddress && n.Interface == s.Params.PeerInterface {
					if nb != nil {
						res.Violate("C15 neighbor listed twice", s.Name, c)
					}
					nb = n
				}
			}
		}
		if nb == nil {
			res.Violate("C15 neighbor missing from its router", s.Name+"\n"+string(dump), c)
			continue
		}
		p := s.Params
		// session parameters
		bad := func(param, got, want string) {
			res.Violate("C15 session parameter missing or wrong param="+param, fmt.Sprintf("%s: %s = %q, requested %q\n%s", s.Name, param, got, want, dump), c)
		}
		if nb.ASN != p.PeerASN || string(nb.DynamicASN) != p.DynamicASN {
			bad("asn", fmt.Sprint(nb.ASN, nb.DynamicASN), fmt.Sprint(p.PeerASN, p.DynamicASN))
		}
		if (nb.Port == nil && p.PeerPort != 0) || (nb.Port != nil && *nb.Port != p.PeerPort) {
			bad("port", fmt.Sprint(nb.Port), fmt.Sprint(p.PeerPort))
		}
		durS := func(d interface{ String() string }, isNil bool) string {
			if isNil {
				return "<nil>"
			}
			return d.String()
		}
		if (nb.HoldTime == nil) != (p.HoldTime == nil) || (p.HoldTime != nil && nb.HoldTime.Duration != *p.HoldTime) {
			bad("holdTime", durS(nb.HoldTime, nb.HoldTime == nil), fmt.Sprint(p.HoldTime))
		}
		if (nb.KeepaliveTime == nil) != (p.KeepAliveTime == nil) || (p.KeepAliveTime != nil && nb.KeepaliveTime.Duration != *p.KeepAliveTime) {
			bad("keepaliveTime", durS(nb.KeepaliveTime, nb.KeepaliveTime == nil), fmt.Sprint(p.KeepAliveTime))
		}
		if (nb.ConnectTime == nil) != (p.ConnectTime == nil) || (p.ConnectTime != nil && nb.ConnectTime.Duration != *p.ConnectTime) {
			bad("connectTime", durS(nb.ConnectTime, nb.ConnectTime == nil), fmt.Sprint(p.ConnectTime))
		}
		if nb.EBGPMultiHop != p.EBGPMultiHop {
			bad("ebgpMultiHop", fmt.Sprint(nb.EBGPMultiHop), fmt.Sprint(p.EBGPMultiHop))
		}
		if nb.BFDProfile != p.BFDProfile {
			bad("bfdProfile", nb.BFDProfile, p.BFDProfile)
		}
		if nb.EnableGracefulRestart != p.GracefulRestart {
			bad("gracefulRestart", fmt.Sprint(nb.EnableGracefulRestart), fmt.Sprint(p.GracefulRestart))
		}
		if nb.DisableMP != p.DisableMP {
			bad("disableMP", fmt.Sprint(nb.DisableMP), fmt.Sprint(p.DisableMP))
		}
		wantSrc := ""
		if p.SourceAddress != nil {
			wantSrc = p.SourceAddress.String()
		}
		if nb.SourceAddress != wantSrc {
			bad("sourceAddress", nb.SourceAddress, wantSrc)
		}
		if nb.Password != "" && nb.PasswordSecret.Name != "" {
			res.Violate("C15 both password and secret reference on one neighbor", s.Name, c)
		}
		if nb.Password != p.Password || nb.PasswordSecret.Name != p.PasswordRef.Name || nb.PasswordSecret.Namespace != p.PasswordRef.Namespace {
			bad("password/secret", fmt.Sprint(nb.Password, nb.PasswordSecret), fmt.Sprint(p.Password, p.PasswordRef))
		}
		// advertised prefixes
		var wantAllowed []string
		for pfx := range req {
			wantAllowed = append(wantAllowed, pfx)
		}
		sort.Strings(wantAllowed)
		if !sortedUnique(nb.ToAdvertise.Allowed.Prefixes) {
			res.Violate("C15 allowed prefixes not sorted or contain duplicates", fmt.Sprintf("%s: %v", s.Name, nb.ToAdvertise.Allowed.Prefixes), c)
		}
		if fmt.Sprint(nb.ToAdvertise.Allowed.Prefixes) != fmt.Sprint(wantAllowed) && !(len(wantAllowed) == 0 && len(nb.ToAdvertise.Allowed.Prefixes) == 0) {
			res.Violate("C15 allowed prefixes differ from the requested set", fmt.Sprintf("%s: allowed %v, requested %v", s.Name, nb.ToAdvertise.Allowed.Prefixes, wantAllowed), c)
		}
		seenC := map[string]bool{}
		for _, cp := range nb.ToAdvertise.PrefixesWithCommunity {
			if seenC[cp.Community] {
				res.Violate("C15 community listed twice", cp.Community, c)
			}
			seenC[cp.Community] = true
			if !sortedUnique(cp.Prefixes) || len(cp.Prefixes) == 0 {
				res.Violate("C15 community prefixes not sorted, duplicated or empty", fmt.Sprintf("%s: %s %v", s.Name, cp.Community, cp.Prefixes), c)
			}
		}
		seenL := map[uint32]bool{}
		for _, lp := range nb.ToAdvertise.PrefixesWithLocalPref {
			if seenL[lp.LocalPref] || lp.LocalPref == 0 {
				res.Violate("C15 local preference listed twice or zero", fmt.Sprint(lp.LocalPref), c)
			}
			seenL[lp.LocalPref] = true
			if !sortedUnique(lp.Prefixes) || len(lp.Prefixes) == 0 {
				res.Violate("C15 local-pref prefixes not sorted, duplicated or empty", fmt.Sprintf("%s: %d %v", s.Name, lp.LocalPref, lp.Prefixes), c)
			}
		}
		got := k8sMeaning(nb)
		for pfx, want := range req {
			if g, ok := got[pfx]; ok && g.String() != want.String() {
				kind := "communities"
				if g.LocalPref != want.LocalPref {
					kind = "local-pref"
				}
				res.Violate("C15 attributes associated with a prefix differ kind="+kind, fmt.Sprintf("%s: %s has %v, requested %v\n%s", s.Name, pfx, g, want, dump), c)
			}
		}
		// entries in the community / local-pref lists for prefixes that did not request them
		for _, cp := range nb.ToAdvertise.PrefixesWithCommunity {
			for _, pfx := range cp.Prefixes {
				want, ok := req[pfx]
				cname := strings.TrimPrefix(cp.Community, "large:")
				if !ok || !(contains(want.Comms, cname) || contains(want.Large, cname)) {
					res.Violate("C15 community associated with a prefix that did not request it", fmt.Sprintf("%s: %s -> %s", s.Name, cp.Community, pfx), c)
				}
			}
		}
		for _, lp := range nb.ToAdvertise.PrefixesWithLocalPref {
			for _, pfx := range lp.Prefixes {
				if want, ok := req[pfx]; !ok || want.LocalPref != lp.LocalPref {
					res.Violate("C15 local preference associated with a prefix that did not request it", fmt.Sprintf("%s: %d -> %s", s.Name, lp.LocalPref, pfx), c)
				}
			}
		}
	}
	for ri := range cfg.Spec.BGP.Routers {
		r := &cfg.Spec.BGP.Routers[ri]
		rk := fmt.Sprintf("%d|%s|%s", r.ASN, r.VRF, r.ID)
		var want []string
		for p := range wantRouter[rk] {
			want = append(want, p)
		}
		sort.Strings(want)
		if fmt.Sprint(r.Prefixes) != fmt.Sprint(want) && !(len(want) == 0 && len(r.Prefixes) == 0) {
			res.Violate("C15 router prefixes differ from the union of requested prefixes", fmt.Sprintf("router %s: %v, requested %v", rk, r.Prefixes, want), c)
		}
		delete(wantRouter, rk)
	}
	for rk, w := range wantRouter {
		if len(w) > 0 {
			res.Violate("C15 router missing", rk, c)
		}
	}
	// differential against FRR mode (sessions with a secret reference have no FRR-mode counterpart of the password)
	text, _, ferr := bgpfrr.VerifRender(sessions, c.CreateOrder, c.SetOrder)
	if ferr == nil {
		universe := []string{"10.9.9.9/32", "fc00:9::9/128"}
		for _, it := range bgpfrr.VerifAdvCatalogue() {
			universe = append(universe, it.Pfx)
		}
		frrM, problems := bgpfrr.VerifFRRMeaning(text, sessions, universe)
		if len(problems) == 0 && frrM != nil {
			for _, s := range sessions {
				var nb *frrv1beta1.Neighbor
				for ri := range cfg.Spec.BGP.Routers {
					for ni := range cfg.Spec.BGP.Routers[ri].Neighbors {
						n := &cfg.Spec.BGP.Routers[ri].Neighbors[ni]
						if n.Address == s.Params.PeerAddress && n.Interface == s.Params.PeerInterface && cfg.Spec.BGP.Routers[ri].VRF == s.Params.VRFName {
							nb = n
						}
					}
				}
				if nb == nil {
					continue
				}
				km := k8sMeaning(nb)
				for _, pfx := range universe {
					res.Count("disagreements_checked", 1)
					kv, kok := km[pfx]
					if kok && !bgpfrr.VerifActivated(s.Params, fam(pfx)) {
						kok = false
					}
					fv, fok := frrM[s.Name][pfx]
					if kok != fok || (kok && kv.String() != fv.String()) {
						res.Violate("C15 FRR-K8s and FRR mode denote different routes for a neighbor", fmt.Sprintf("%s %s: frr-k8s %v/%v, frr %v/%v", s.Name, pfx, kok, kv, fok, fv), c)
					}
				}
			}
		}
	}
	res.Outcome(fmt.Sprintf("neighbors=%d", len(sessions)))
	return cfg
}

func contains(l []string, x string) bool {
	for _, y := range l {
		if y == x {
			return true
		}
	}
	return false
}

func TestVerif_C15(t *testing.T) {
	res := verifrt.NewResult("C15")
	defer res.Write()
	if raw, ok := verifrt.ReplayCase(); ok {
		var c c15Case
		if err := json.Unmarshal(raw, &c); err != nil {
			t.Fatal(err)
		}
		ref := c
		ref.CreateOrder, ref.SetOrder, ref.MapOrder = ident(len(c.Sessions)), ident(len(c.Sessions)), nil
		c0 := c15Check(res, &ref)
		if c1 := c15Check(res, &c); !reflect.DeepEqual(c0, c1) {
			res.Violate("C15 resource depends on creation/Set/map order", "differs", c)
		}
		res.Replayed = true
		return
	}
	cat := bgpfrr.VerifSessionCatalogue()
	thorough := verifrt.Thorough()
	var distinct int64
	runSet := func(sess []int, advChoices [][]int) {
		k := len(sess)
		idx := make([]int, k)
		for {
			c := &c15Case{Sessions: sess, CreateOrder: ident(k), SetOrder: ident(k)}
			for i := range sess {
				c.AdvSets = append(c.AdvSets, advChoices[idx[i]])
				c.Names = append(c.Names, cat[sess[i]].Name)
			}
			res.Sample(c)
			c0 := c15Check(res, c)
			distinct++
			if c0 != nil && k > 1 {
				verifrt.Perms(k, func(cp []int) {
					cpc := append([]int{}, cp...)
					verifrt.Perms(k, func(sp []int) {
						cc := *c
						cc.CreateOrder, cc.SetOrder = cpc, append([]int{}, sp...)
						got, _, err := c15Render(cc.build(), cc.CreateOrder, cc.SetOrder)
						res.Count("evaluations", 1)
						if err != nil || !reflect.DeepEqual(got, c0) {
							res.Violate("C15 resource depends on the creation or Set order", fmt.Sprintf("create %v set %v err=%v", cc.CreateOrder, cc.SetOrder, err), cc)
						}
					})
				})
				verifrt.ExploreChoices(1, []string{"maporder"}, func(ch *verifrt.Chooser) {
					got, _, err := c15Render(c.build(), c.CreateOrder, c.SetOrder)
					res.Count("evaluations", 1)
					if err != nil || !reflect.DeepEqual(got, c0) {
						cc := *c
						cc.MapOrder = append([]int{}, ch.Trace...)
						verifrt.SetChooser(nil)
						res.Violate("C15 resource depends on map iteration order", fmt.Sprintf("map order %v err=%v", cc.MapOrder, err), cc)
						verifrt.SetChooser(ch)
					}
				}, nil)
			}
			j := 0
			for j < k {
				idx[j]++
				if idx[j] < len(advChoices) {
					break
				}
				idx[j] = 0
				j++
			}
			if j == k {
				break
			}
		}
	}
	reduced := [][]int{{}, {1}, {8}, {0, 3, 4}, {2, 5, 6}, {3, 0, 3, 7}}
	work := 0
	// histories of two Set calls on one session: the resource must equal the one of the final Set alone
	for i := range cat {
		work++
		if !verifrt.Mine(work) {
			continue
		}
		for _, pre := range c15AdvSets {
			for _, fin := range c15AdvSets {
				c := &c15Case{Sessions: []int{i}, AdvSets: [][]int{fin}, PreAdvSets: [][]int{pre}, CreateOrder: ident(1), SetOrder: ident(1), Names: []string{cat[i].Name}}
				skip := false
				for _, s := range c.build() {
					for _, l := range [][]*bgp.Advertisement{s.Advs, s.PreAdvs} {
						if _, inc := bgpfrr.VerifRequested(bgpfrr.VerifSession{Advs: l}); inc {
							skip = true
						}
					}
				}
				if skip {
					continue
				}
				c15Check(res, c)
				distinct++
			}
		}
	}
	for i := range cat {
		work++
		if verifrt.Mine(work) {
			runSet([]int{i}, c15AdvSets)
		}
	}
	for i := range cat {
		for j := i + 1; j < len(cat); j++ {
			work++
			if verifrt.Mine(work) {
				if thorough {
					runSet([]int{i, j}, c15AdvSets)
				} else {
					runSet([]int{i, j}, c15AdvSets[:15])
				}
			}
		}
	}
	for i := range cat {
		for j := i + 1; j < len(cat); j++ {
			for k := j + 1; k < len(cat); k++ {
				work++
				if !verifrt.Mine(work) || (!thorough && (i+j+k)%6 != 0) {
					continue
				}
				runSet([]int{i, j, k}, reduced)
			}
		}
	}
	res.Count("distinct_nontrivial", distinct)
}
