//go:build verif

package native

// C16 - native BGP wire format: ENUM of all encoder inputs over boundary
// catalogues, decoded by the independent bgpwire decoder, and a grammar-bounded
// enumeration of byte strings (with every truncation point) fed to readOpen.

import (
	"bytes"
	"encoding/json"
	"fmt"
	"io"
	"net"
	"os"
	"reflect"
	"testing"
	"time"

	"go.universe.tf/metallb/internal/bgp"
	"go.universe.tf/metallb/internal/bgp/community"
	"go.universe.tf/metallb/internal/verifrt"
)

type c16UpdCase struct {
	Kind      string   `json:"kind"` // update | withdraw | open | keepalive | sequence
	PrefixIP  string   `json:"prefix_ip,omitempty"`
	PrefixLen int      `json:"prefix_len,omitempty"`
	IP16      bool     `json:"ip_16byte_form,omitempty"`
	ASN       uint32   `json:"asn,omitempty"`
	IBGP      bool     `json:"ibgp,omitempty"`
	FBASN     bool     `json:"fbasn,omitempty"`
	LocalPref uint32   `json:"local_pref,omitempty"`
	Comms     []uint32 `json:"communities,omitempty"`
	LargeComm bool     `json:"large_community,omitempty"`
	NextHop   []byte   `json:"next_hop,omitempty"`
	Withdraw  []string `json:"withdraw,omitempty"`
	HoldS     int      `json:"hold_s,omitempty"`
	RouterID  []byte   `json:"router_id,omitempty"`
	Prior     string   `json:"prior,omitempty"` // a failing call made before this one (scratch state must not leak)
	// withdraw-many: Many prefixes 10.x.y.0/ManyLen (every third one a /32 host route when ManyMixed) withdrawn in one call
	Many      int  `json:"many,omitempty"`
	ManyLen   int  `json:"many_len,omitempty"`
	ManyMixed bool `json:"many_mixed,omitempty"`
}

type c16OpenCase struct {
	Kind    string `json:"kind"` // readopen
	Bytes   []byte `json:"bytes"`
	OneByte bool   `json:"one_byte_reads"`
	Desc    string `json:"desc"`
}

// countingReader delivers a fixed byte string, counting the bytes handed out.
type countingReader struct {
	b       []byte
	off     int
	oneByte bool
}

func (r *countingReader) Read(p []byte) (int, error) {
	if r.off >= len(r.b) {
		return 0, io.EOF
	}
	n := len(p)
	if r.oneByte && n > 1 {
		n = 1
	}
	n = copy(p[:n], r.b[r.off:])
	r.off += n
	return n, nil
}

func commList(vals []uint32, large bool) []community.BGPCommunity {
	var out []community.BGPCommunity
	for _, v := range vals {
		c, err := community.New(fmt.Sprintf("%d:%d", v>>16, v&0xffff))
		if err != nil {
			panic(err)
		}
		out = append(out, c)
	}
	if large {
		c, err := community.New("large:1:2:3")
		if err != nil {
			panic(err)
		}
		out = append(out, c)
	}
	return out
}

func c16Communities(n int) []uint32 {
	bound := []uint32{0, 1, 0xffff, 0x10000, 0xffffffff, 0xfde80064, 0x7fffffff, 0x80000000}
	var out []uint32
	for i := 0; i < n; i++ {
		if i < len(bound) {
			out = append(out, bound[i])
		} else {
			out = append(out, uint32(0xfde80000+i))
		}
	}
	return out
}

func c16RunUpdate(res *verifrt.Result, c c16UpdCase) {
	res.Count("evaluations", 1)
	defer func() {
		if r := recover(); r != nil {
			res.Violate("encoder-panic kind="+c.Kind, fmt.Sprint(r), c)
		}
	}()
	if c.Prior != "" {
		// a failing encode first: eBGP, 2-byte peer, ASN > 65535 (or a large community)
		var sink bytes.Buffer
		bad := &bgp.Advertisement{Prefix: &net.IPNet{IP: net.IPv4(9, 9, 9, 9).To4(), Mask: net.CIDRMask(32, 32)}}
		switch c.Prior {
		case "asn-too-high":
			_ = sendUpdate(&sink, 70000, false, false, net.IPv4(1, 1, 1, 1).To4(), bad)
		case "large-community":
			bad.Communities = commList(nil, true)
			_ = sendUpdate(&sink, 100, true, true, net.IPv4(1, 1, 1, 1).To4(), bad)
		case "write-error":
			_ = sendUpdate(failWriter{}, 100, true, true, net.IPv4(1, 1, 1, 1).To4(), bad)
			_ = sendWithdraw(failWriter{}, []*net.IPNet{bad.Prefix})
		}
	}
	var w bytes.Buffer
	switch c.Kind {
	case "update":
		ip := net.ParseIP(c.PrefixIP).To4()
		mask := net.CIDRMask(c.PrefixLen, 32)
		pfx := &net.IPNet{IP: ip.Mask(mask), Mask: mask}
		if c.IP16 {
			pfx.IP = pfx.IP.To16()
		}
		adv := &bgp.Advertisement{Prefix: pfx, LocalPref: c.LocalPref, Communities: commList(c.Comms, c.LargeComm)}
		err := sendUpdate(&w, c.ASN, c.IBGP, c.FBASN, net.IP(c.NextHop), adv)
		valid := !(!c.IBGP && !c.FBASN && c.ASN > 65535) && !c.LargeComm && len(c.Comms) <= 63 && len(c.NextHop) == 4
		nh := fmt.Sprintf("nexthop-bytes=%d", len(c.NextHop))
		if err != nil {
			res.Outcome("update:error")
			if valid {
				res.Violate("encoder-fails-on-valid-input kind=update", err.Error(), c)
			}
			if w.Len() != 0 {
				res.Violate("encoder-error-after-partial-write kind=update", fmt.Sprintf("%d bytes written and error %v", w.Len(), err), c)
			}
			return
		}
		msgs, derr := wireDecodeAll(w.Bytes(), c.FBASN)
		if derr != nil || len(msgs) != 1 || msgs[0].Update == nil {
			if !valid && len(c.NextHop) == 4 {
				// outside the valid domain the encoder may fail, but must not emit garbage either
				res.Violate("malformed-message-outside-valid-domain kind=update", fmt.Sprintf("%v (%d msgs)", derr, len(msgs)), c)
				return
			}
			res.Violate("malformed-update "+nh+" prior="+c.Prior, fmt.Sprintf("decode error: %v; %d messages; bytes % x", derr, len(msgs), w.Bytes()), c)
			return
		}
		if !valid {
			res.Outcome("update:encoded-outside-domain")
			return
		}
		u := msgs[0].Update
		bad := func(what, detail string) {
			res.Violate("update-content-differs field="+what, detail, c)
		}
		if len(u.Withdrawn) != 0 {
			bad("withdrawn", fmt.Sprint(u.Withdrawn))
		}
		var want wirePrefix
		want.Len = c.PrefixLen
		copy(want.Addr[:], ip.Mask(mask))
		if len(u.NLRI) != 1 || u.NLRI[0] != want {
			bad("nlri", fmt.Sprintf("got %v want %v", u.NLRI, want))
		}
		if !u.HasOrigin || u.Origin != 0 {
			bad("origin", fmt.Sprint(u.Origin))
		}
		if c.IBGP {
			if len(u.ASPath) != 0 {
				bad("as_path", fmt.Sprintf("iBGP with AS path %v", u.ASPath))
			}
			if !u.HasLocalPref || u.LocalPref != c.LocalPref {
				bad("local_pref", fmt.Sprintf("got %v/%d want %d", u.HasLocalPref, u.LocalPref, c.LocalPref))
			}
		} else {
			if len(u.ASPath) != 1 || len(u.ASPath[0]) != 1 || u.ASPath[0][0] != c.ASN {
				bad("as_path", fmt.Sprintf("eBGP AS path %v want [[%d]]", u.ASPath, c.ASN))
			}
			if u.HasLocalPref {
				bad("local_pref", "LOCAL_PREF sent to an eBGP peer")
			}
		}
		if !u.HasNextHop || !u.NextHop.Equal(net.IP(c.NextHop)) {
			bad("next_hop", fmt.Sprintf("got %v want %v", u.NextHop, net.IP(c.NextHop)))
		}
		if len(c.Comms) == 0 {
			if u.HasCommunity {
				bad("communities", "COMMUNITIES attribute without communities")
			}
		} else if !reflect.DeepEqual(sortedU32(u.Communities), sortedU32(c.Comms)) {
			bad("communities", fmt.Sprintf("got %v want %v", u.Communities, c.Comms))
		}
		res.Outcome(fmt.Sprintf("update:ok ibgp=%v fbasn=%v comms=%d", c.IBGP, c.FBASN, len(c.Comms)))
	case "withdraw":
		var pfxs []*net.IPNet
		var want []wirePrefix
		for _, s := range c.Withdraw {
			_, n, err := net.ParseCIDR(s)
			if err != nil {
				panic(err)
			}
			pfxs = append(pfxs, n)
			var wp wirePrefix
			wp.Len, _ = n.Mask.Size()
			copy(wp.Addr[:], n.IP.To4())
			want = append(want, wp)
		}
		if err := sendWithdraw(&w, pfxs); err != nil {
			res.Violate("encoder-fails-on-valid-input kind=withdraw", err.Error(), c)
			return
		}
		msgs, derr := wireDecodeAll(w.Bytes(), true)
		if derr != nil || len(msgs) != 1 || msgs[0].Update == nil {
			res.Violate("malformed-withdraw prior="+c.Prior, fmt.Sprintf("decode error: %v; bytes % x", derr, w.Bytes()), c)
			return
		}
		u := msgs[0].Update
		if !reflect.DeepEqual(u.Withdrawn, want) || len(u.NLRI) != 0 || u.HasAttrs {
			res.Violate("withdraw-content-differs", fmt.Sprintf("got withdrawn=%v nlri=%v attrs=%v want %v", u.Withdrawn, u.NLRI, u.HasAttrs, want), c)
		}
		res.Outcome(fmt.Sprintf("withdraw:ok n=%d", len(want)))
	case "withdraw-many":
		// a long list of withdrawals in one call: however it is split, every message is a well-formed one of at most 4096
		// bytes (RFC 4271 section 4) and together they withdraw exactly the list
		var pfxs []*net.IPNet
		want := map[wirePrefix]int{}
		for i := 0; i < c.Many; i++ {
			l := c.ManyLen
			if c.ManyMixed && i%3 == 2 {
				l = 32
			}
			ip := net.IPv4(10, byte(i>>8), byte(i), 0).To4()
			n := &net.IPNet{IP: ip.Mask(net.CIDRMask(l, 32)), Mask: net.CIDRMask(l, 32)}
			pfxs = append(pfxs, n)
			var wp wirePrefix
			wp.Len = l
			copy(wp.Addr[:], n.IP)
			want[wp]++
		}
		if err := sendWithdraw(&w, pfxs); err != nil {
			res.Violate("encoder-fails-on-valid-input kind=withdraw-many", err.Error(), c)
			return
		}
		raw := w.Bytes()
		for off := 0; off+19 <= len(raw); {
			l := int(raw[off+16])<<8 | int(raw[off+17])
			if l > 4096 {
				res.Violate("withdraw-message-longer-than-4096-bytes", fmt.Sprintf("%d prefixes of length /%d (mixed=%v) withdrawn in one call: message of %d bytes", c.Many, c.ManyLen, c.ManyMixed, l), c)
				return
			}
			if l < 19 {
				break
			}
			off += l
		}
		msgs, derr := wireDecodeAll(raw, true)
		if derr != nil {
			res.Violate("malformed-withdraw many", fmt.Sprintf("decode error: %v; %d bytes in %d messages", derr, len(raw), len(msgs)), c)
			return
		}
		got := map[wirePrefix]int{}
		for _, m := range msgs {
			if m.Update == nil || len(m.Update.NLRI) != 0 || m.Update.HasAttrs {
				res.Violate("withdraw-content-differs many", "a message of the withdrawal is not a pure withdrawal", c)
				return
			}
			for _, wp := range m.Update.Withdrawn {
				got[wp]++
			}
		}
		if !reflect.DeepEqual(got, want) {
			res.Violate("withdraw-content-differs many", fmt.Sprintf("%d distinct prefixes withdrawn, %d wanted", len(got), len(want)), c)
		}
		res.Outcome(fmt.Sprintf("withdraw-many:ok msgs=%d", len(msgs)))
	case "open":
		err := sendOpen(&w, c.ASN, net.IP(c.RouterID), time.Duration(c.HoldS)*time.Second)
		if err != nil {
			res.Violate("encoder-fails-on-valid-input kind=open", err.Error(), c)
			return
		}
		msgs, derr := wireDecodeAll(w.Bytes(), true)
		if derr != nil || len(msgs) != 1 || msgs[0].Open == nil {
			res.Violate("malformed-open", fmt.Sprintf("decode error: %v; bytes % x", derr, w.Bytes()), c)
			return
		}
		o := msgs[0].Open
		wantASN16 := int(c.ASN)
		if c.ASN > 65535 {
			wantASN16 = 23456
		}
		var rid [4]byte
		copy(rid[:], net.IP(c.RouterID).To4())
		switch {
		case o.Version != 4:
			res.Violate("open-content-differs field=version", fmt.Sprint(o.Version), c)
		case o.ASN16 != wantASN16:
			res.Violate("open-content-differs field=asn16", fmt.Sprintf("got %d want %d", o.ASN16, wantASN16), c)
		case !o.FBASN || o.ASN != c.ASN:
			res.Violate("open-content-differs field=asn32-capability", fmt.Sprintf("got %v/%d want %d", o.FBASN, o.ASN, c.ASN), c)
		case o.HoldTime != c.HoldS:
			res.Violate("open-content-differs field=hold_time", fmt.Sprintf("got %d want %d", o.HoldTime, c.HoldS), c)
		case o.RouterID != rid:
			res.Violate("open-content-differs field=router_id", fmt.Sprintf("got %v want %v", o.RouterID, rid), c)
		case !o.MP4:
			res.Violate("open-content-differs field=mp4-capability", "", c)
		}
		res.Outcome("open:ok")
	case "keepalive":
		if err := sendKeepalive(&w); err != nil {
			res.Violate("encoder-fails-on-valid-input kind=keepalive", err.Error(), c)
			return
		}
		msgs, derr := wireDecodeAll(w.Bytes(), true)
		if derr != nil || len(msgs) != 1 || msgs[0].Type != 4 {
			res.Violate("malformed-keepalive", fmt.Sprintf("%v % x", derr, w.Bytes()), c)
		}
		res.Outcome("keepalive:ok")
	}
}

type failWriter struct{}

func (failWriter) Write(p []byte) (int, error) { return 0, io.ErrClosedPipe }

// ---------------- readOpen ----------------

func hdr(marker bool, l int, typ int) []byte {
	b := make([]byte, 19)
	for i := 0; i < 16; i++ {
		b[i] = 0xff
	}
	if !marker {
		b[7] = 0xfe
	}
	b[16], b[17], b[18] = byte(l>>8), byte(l), byte(typ)
	return b
}

func openBody(version int, asn16 int, hold int, optsLen int, opts []byte) []byte {
	b := []byte{byte(version), byte(asn16 >> 8), byte(asn16), byte(hold >> 8), byte(hold), 10, 0, 0, 1, byte(optsLen)}
	return append(b, opts...)
}

type capT struct {
	name string
	b    []byte
}

func c16Caps() []capT {
	return []capT{
		{"as4=70000", []byte{65, 4, 0, 1, 0x11, 0x70}},
		{"as4=64512", []byte{65, 4, 0, 0, 0xfc, 0x00}},
		{"as4-len3", []byte{65, 3, 0, 1, 2}},
		{"as4-len5", []byte{65, 5, 0, 1, 2, 3, 4}},
		{"mp-v4", []byte{1, 4, 0, 1, 0, 1}},
		{"mp-v6", []byte{1, 4, 0, 2, 0, 1}},
		{"mp-v4-multicast", []byte{1, 4, 0, 1, 0, 2}},
		{"mp-len2", []byte{1, 2, 0, 1}},
		{"refresh", []byte{2, 0}},
		{"gr-len2", []byte{64, 2, 0, 120}},
		{"gr-len0", []byte{64, 0}},
		{"cap-overrun", []byte{70, 200, 1, 2}},
		// capabilities the session does not interpret: RFC 5492 has them ignored
		{"ext-nexthop", []byte{5, 6, 0, 1, 0, 1, 0, 2}},
		{"role", []byte{9, 1, 0}},
		{"private-239", []byte{239, 0}},
	}
}

func packOptions(caps [][]byte, split bool, optType int) []byte {
	var out []byte
	if len(caps) == 0 {
		return nil
	}
	if split {
		for _, c := range caps {
			out = append(out, byte(optType), byte(len(c)))
			out = append(out, c...)
		}
		return out
	}
	var all []byte
	for _, c := range caps {
		all = append(all, c...)
	}
	out = append(out, byte(optType), byte(len(all)))
	return append(out, all...)
}

// refOpen is the reference OPEN parser: it decides well-formedness and the expected result.
func refOpen(msg []byte) (wf bool, o *wireOpen) {
	m, n, err := wireDecode(msg, true)
	if err != nil || n != len(msg) || m.Open == nil {
		return false, nil
	}
	o = m.Open
	if o.Version != 4 || (o.HoldTime != 0 && o.HoldTime < 3) || !o.OnlyCap {
		return false, nil
	}
	return true, o
}

func c16RunReadOpen(res *verifrt.Result, c c16OpenCase, declared int) {
	res.Count("evaluations", 1)
	r := &countingReader{b: c.Bytes, oneByte: c.OneByte}
	var got *openResult
	var err error
	func() {
		defer func() {
			if p := recover(); p != nil {
				res.Violate("readopen-panic", fmt.Sprint(p), c)
				err = fmt.Errorf("panic")
			}
		}()
		got, err = readOpen(r)
	}()
	// bytes consumed never beyond the announced message length (the 19-byte header is always needed)
	limit := 19
	if len(c.Bytes) >= 19 {
		hdrOK := true
		for i := 0; i < 16; i++ {
			if c.Bytes[i] != 0xff {
				hdrOK = false
			}
		}
		if l := be16(c.Bytes[16:18]); hdrOK && l > limit {
			limit = l
		}
	}
	if r.off > limit {
		typ := -1
		if len(c.Bytes) >= 19 {
			typ = int(c.Bytes[18])
		}
		res.Violate(fmt.Sprintf("readopen-consumes-beyond-announced-length msgtype=%d", typ),
			fmt.Sprintf("%s: consumed %d bytes, message announces %d", c.Desc, r.off, limit), c)
	}
	// for a well-formed OPEN delivered completely the result must equal the reference
	if len(c.Bytes) >= 19 {
		l := be16(c.Bytes[16:18])
		if l >= 19 && l <= len(c.Bytes) {
			if wf, o := refOpen(c.Bytes[:l]); wf {
				res.Outcome("readopen:well-formed")
				if err != nil {
					res.Violate(fmt.Sprintf("readopen-rejects-well-formed-open len=%s", lenClass(l)), fmt.Sprintf("%s: %v", c.Desc, err), c)
					return
				}
				if got.asn != o.ASN || got.holdTime != time.Duration(o.HoldTime)*time.Second || got.fbasn != o.FBASN || got.mp4 != o.MP4 || got.mp6 != o.MP6 {
					res.Violate("readopen-result-differs", fmt.Sprintf("%s: got %+v want asn=%d hold=%d fbasn=%v mp4=%v mp6=%v", c.Desc, *got, o.ASN, o.HoldTime, o.FBASN, o.MP4, o.MP6), c)
				}
				return
			}
		}
	}
	if err == nil {
		res.Outcome("readopen:accepted-not-well-formed")
	} else {
		res.Outcome("readopen:rejected")
	}
}

func lenClass(l int) string {
	switch {
	case l == 29:
		return "29"
	case l < 37:
		return "30..36"
	default:
		return ">=37"
	}
}

func TestVerif_C16(t *testing.T) {
	// readOpen prints a debug line per OPEN on stdout: keep it away from the harness log
	if devnull, err := os.OpenFile(os.DevNull, os.O_WRONLY, 0); err == nil {
		os.Stdout = devnull
	}
	res := verifrt.NewResult("C16")
	defer res.Write()

	if raw, ok := verifrt.ReplayCase(); ok {
		var probe struct {
			Kind string `json:"kind"`
		}
		_ = json.Unmarshal(raw, &probe)
		if probe.Kind == "readopen" {
			var c c16OpenCase
			_ = json.Unmarshal(raw, &c)
			c16RunReadOpen(res, c, 0)
		} else {
			var c c16UpdCase
			_ = json.Unmarshal(raw, &c)
			c16RunUpdate(res, c)
		}
		res.Replayed = true
		return
	}
	thorough := verifrt.Thorough()
	var distinct int64
	work := 0
	mine := func() bool { work++; return verifrt.Mine(work) }

	// ---- encoders ----
	addrs := []string{"0.0.0.0", "255.255.255.255", "10.1.2.3", "170.85.170.85", "192.168.129.1", "1.0.0.128"}
	asns := []uint32{1, 255, 256, 65534, 65535, 65536, 65537, 4294967295, 23456}
	lps := []uint32{0, 1, 1 << 31, 4294967295}
	commNs := []int{0, 1, 2, 62, 63}
	if thorough {
		commNs = []int{0, 1, 2, 3, 31, 32, 62, 63, 64}
	}
	nhs := [][]byte{{10, 0, 0, 1}, {0, 0, 0, 0}, {255, 255, 255, 255}}
	for l := 0; l <= 32; l++ {
		if !mine() {
			continue
		}
		for _, a := range addrs {
			for _, ip16 := range []bool{false, true} {
				for _, asn := range asns {
					for _, ibgp := range []bool{true, false} {
						for _, fb := range []bool{true, false} {
							for _, lp := range lps {
								for _, cn := range commNs {
									for _, nh := range nhs {
										if ip16 && (lp != 1 || cn > 1) {
											continue // representation of the prefix IP is independent of attributes
										}
										c := c16UpdCase{Kind: "update", PrefixIP: a, PrefixLen: l, IP16: ip16, ASN: asn, IBGP: ibgp, FBASN: fb, LocalPref: lp, Comms: c16Communities(cn), NextHop: nh}
										res.Sample(c)
										c16RunUpdate(res, c)
										distinct++
									}
								}
							}
						}
					}
				}
			}
		}
	}
	if mine() {
		// outside / at the edge of the valid domain: large community, 16-byte next hops, >63 communities, after a failed call
		base := c16UpdCase{Kind: "update", PrefixIP: "10.1.2.3", PrefixLen: 32, ASN: 64512, IBGP: true, FBASN: true, LocalPref: 100, Comms: c16Communities(2), NextHop: []byte{10, 0, 0, 1}}
		for _, prior := range []string{"", "asn-too-high", "large-community", "write-error"} {
			for _, l := range []int{0, 8, 24, 32} {
				c := base
				c.Prior, c.PrefixLen = prior, l
				c16RunUpdate(res, c)
				w := c16UpdCase{Kind: "withdraw", Withdraw: []string{"10.0.0.1/32", "10.0.1.0/24"}, Prior: prior}
				c16RunUpdate(res, w)
				distinct += 2
			}
		}
		c := base
		c.LargeComm = true
		c16RunUpdate(res, c)
		c = base
		c.Comms = c16Communities(64)
		c16RunUpdate(res, c)
		for _, nh := range [][]byte{net.ParseIP("10.0.0.1").To16(), net.ParseIP("fc00::1")} {
			for _, ibgp := range []bool{true, false} {
				c = base
				c.NextHop, c.IBGP = nh, ibgp
				c16RunUpdate(res, c)
				distinct++
			}
		}
	}
	if mine() {
		// withdraws: 0..3 prefixes of all lengths
		var all []string
		for l := 0; l <= 32; l++ {
			_, n, _ := net.ParseCIDR(fmt.Sprintf("170.85.170.85/%d", l))
			all = append(all, n.String())
		}
		c16RunUpdate(res, c16UpdCase{Kind: "withdraw"})
		for i, a := range all {
			c16RunUpdate(res, c16UpdCase{Kind: "withdraw", Withdraw: []string{a}})
			for j, b := range all {
				c16RunUpdate(res, c16UpdCase{Kind: "withdraw", Withdraw: []string{a, b}})
				if thorough || (i%4 == 0 && j%4 == 0) {
					for k := 0; k < len(all); k += 5 {
						c16RunUpdate(res, c16UpdCase{Kind: "withdraw", Withdraw: []string{a, b, all[k]}})
						distinct++
					}
				}
				distinct++
			}
		}
		for _, asn := range append(asns, 64512, 4200000000) {
			for _, h := range []int{0, 3, 90, 180, 65535} {
				for _, rid := range [][]byte{{10, 0, 0, 1}, {0, 0, 0, 0}, {255, 255, 255, 255}, net.ParseIP("10.0.0.1").To16()} {
					c16RunUpdate(res, c16UpdCase{Kind: "open", ASN: asn, HoldS: h, RouterID: rid})
					distinct++
				}
			}
		}
		c16RunUpdate(res, c16UpdCase{Kind: "keepalive"})
		// long withdrawals around the sizes at which one message no longer suffices (814 host routes, 1018 /24s)
		for _, n := range []int{700, 814, 815, 816, 1017, 1018, 1019, 1100, 2500} {
			for _, l := range []int{32, 24, 16} {
				for _, mixed := range []bool{false, true} {
					c16RunUpdate(res, c16UpdCase{Kind: "withdraw-many", Many: n, ManyLen: l, ManyMixed: mixed})
					distinct++
				}
			}
		}
	}

	// ---- readOpen over the grammar ----
	caps := c16Caps()
	feed := func(desc string, msg []byte, trailing []byte) {
		full := append(append([]byte{}, msg...), trailing...)
		for _, one := range []bool{false, true} {
			c16RunReadOpen(res, c16OpenCase{Kind: "readopen", Bytes: full, OneByte: one, Desc: desc}, len(msg))
			distinct++
		}
		// every truncation point
		for cut := 0; cut < len(msg); cut++ {
			c16RunReadOpen(res, c16OpenCase{Kind: "readopen", Bytes: full[:cut], OneByte: false, Desc: desc + fmt.Sprintf(" truncated@%d", cut)}, len(msg))
			distinct++
		}
	}
	keepalive := hdr(true, 19, 4)
	trailers := [][]byte{nil, keepalive, bytes.Repeat([]byte{2, 6, 65, 4, 0, 0, 0xfd, 0xe8}, 40)}
	// all capability sequences of length <= 3, packed in one option or one option per capability
	var seqs [][]int
	seqs = append(seqs, nil)
	for i := range caps {
		seqs = append(seqs, []int{i})
		for j := range caps {
			seqs = append(seqs, []int{i, j})
			for k := range caps {
				seqs = append(seqs, []int{i, j, k})
			}
		}
	}
	for si, seq := range seqs {
		if !verifrt.Mine(si / 97) {
			continue
		}
		var cb [][]byte
		desc := "caps="
		for _, i := range seq {
			cb = append(cb, caps[i].b)
			desc += caps[i].name + ","
		}
		for _, split := range []bool{false, true} {
			if split && len(seq) < 2 {
				continue
			}
			opts := packOptions(cb, split, 2)
			body := openBody(4, 64512, 90, len(opts), opts)
			msg := append(hdr(true, 19+len(body), 1), body...)
			for ti, tr := range trailers {
				if ti == 2 && len(seq) > 1 && !thorough {
					continue
				}
				feed(fmt.Sprintf("%s split=%v trailer=%d", desc, split, ti), msg, tr)
			}
		}
	}
	if mine() {
		// optional parameters filling the one-byte length field up to its last values (253, 254, 255 bytes): the 4-byte-ASN
		// and IPv4 capabilities followed by a private capability padded to size, in one option and in one option each
		for _, total := range []int{252, 253, 254, 255} {
			for _, split := range []bool{false, true} {
				fixed := [][]byte{caps[0].b, caps[4].b}
				over := 2 // one option header
				if split {
					over = 6 // three option headers
				}
				fill := total - over - len(fixed[0]) - len(fixed[1]) - 2
				pad := append([]byte{239, byte(fill)}, bytes.Repeat([]byte{0xab}, fill)...)
				opts := packOptions(append(fixed, pad), split, 2)
				if len(opts) != total {
					t.Fatalf("harness: %d bytes of options instead of %d", len(opts), total)
				}
				body := openBody(4, 23456, 90, len(opts), opts)
				msg := append(hdr(true, 19+len(body), 1), body...)
				for _, tr := range trailers[:2] {
					feed(fmt.Sprintf("caps=as4=70000,mp-v4,private-239 padded to %d bytes of optional parameters split=%v", total, split), msg, tr)
				}
			}
		}
	}
	if mine() {
		// header / body variants on representative capability sets
		reps := [][]int{nil, {0}, {1}, {4, 5, 0}, {8}, {9, 4}, {2}, {11}}
		for _, seq := range reps {
			var cb [][]byte
			for _, i := range seq {
				cb = append(cb, caps[i].b)
			}
			for _, optType := range []int{2, 1, 255} {
				opts := packOptions(cb, false, optType)
				for _, version := range []int{4, 3, 5} {
					for _, asn16 := range []int{1, 64512, 23456, 65535} {
						for _, hold := range []int{0, 1, 2, 3, 90, 65535} {
							for _, optsLenDelta := range []int{0, -1, 1, 100} {
								ol := len(opts) + optsLenDelta
								if ol < 0 || ol > 255 {
									continue
								}
								body := openBody(version, asn16, hold, ol, opts)
								actual := 19 + len(body)
								for _, marker := range []bool{true, false} {
									for _, typ := range []int{1, 0, 2, 3, 4, 5} {
										for _, declared := range []int{0, 18, 19, 20, 21, 28, 29, 36, 37, actual, actual - 1, actual + 1, 4096, 65535} {
											if declared < 0 {
												continue
											}
											if (version != 4 || asn16 != 64512 || optType != 2 || optsLenDelta != 0) && (typ != 1 || !marker || declared != actual) {
												continue // vary one dimension group at a time beyond the header product
											}
											msg := append(hdr(marker, declared, typ), body...)
											desc := fmt.Sprintf("hdr marker=%v len=%d(actual %d) type=%d version=%d asn16=%d hold=%d optType=%d optsLenDelta=%d caps=%v", marker, declared, actual, typ, version, asn16, hold, optType, optsLenDelta, seq)
											for _, tr := range trailers[:2] {
												full := append(append([]byte{}, msg...), tr...)
												for _, one := range []bool{false, true} {
													c16RunReadOpen(res, c16OpenCase{Kind: "readopen", Bytes: full, OneByte: one, Desc: desc}, declared)
													distinct++
												}
											}
										}
									}
								}
							}
						}
					}
				}
			}
		}
		// NOTIFICATION bodies
		for _, l := range []int{19, 20, 21, 23} {
			for _, body := range [][]byte{nil, {2}, {2, 2}, {6, 5, 1, 2}} {
				msg := append(hdr(true, l, 3), body...)
				feed(fmt.Sprintf("notification len=%d body=%v", l, body), msg, keepalive)
			}
		}
	}
	res.Count("distinct_nontrivial", distinct)
}
