//go:build verif

package native

// C17 - native BGP session convergence: the real session (NewSession, run, connect,
// sendUpdates, consumeBGP, Set, Close, sendKeepalive) under the controlled scheduler, talking
// over an in-memory connection to a scripted peer automaton that decodes every message with the
// independent bgpwire decoder and maintains a routing table. All schedules with at most N
// preemptions of caller / run loop / reader / keepalive / peer-drop threads.

import (
	"context"
	"encoding/json"
	"errors"
	"fmt"
	"io"
	"net"
	"os"
	"sort"
	"strings"
	"testing"
	"time"

	"github.com/go-kit/log"
	"go.universe.tf/metallb/internal/bgp"
	"go.universe.tf/metallb/internal/bgp/community"
	"go.universe.tf/metallb/internal/verifrt"
	"go.universe.tf/metallb/internal/verifrt/vtime"
)

type c17Adv struct {
	Pfx  string   `json:"pfx"`
	LP   uint32   `json:"lp,omitempty"`
	Comm []uint32 `json:"comm,omitempty"`
	// Invalid: the advertisement carries 64 communities, which the session must refuse (the whole Set call
	// fails and must leave the session's routes as they were)
	Invalid bool `json:"invalid,omitempty"`
}

type c17Program struct {
	Name      string     `json:"name"`
	Sets      [][]c17Adv `json:"sets"`
	Close     bool       `json:"close"`
	Drops     int        `json:"drops"`
	Keepalive int        `json:"keepalives"`
	WrongASN  int        `json:"connections_with_unexpected_asn"` // the first k connections answer with an unexpected ASN
	IBGP      bool       `json:"ibgp"`
	Peer2Byte bool       `json:"peer_without_4byte_asn"`
	// CapFlip: connections after the first one answer with the opposite 4-byte-ASN capability (the peer was replaced or
	// reconfigured between two connections): what is negotiated belongs to a connection, not to the session
	CapFlip bool `json:"peer_capability_differs_after_first_connection,omitempty"`
	// HoldS: hold time of the session parameters in seconds: -1 = not set (default 90), 0 = keepalives disabled
	HoldS *int `json:"hold_time_s,omitempty"`
}

type c17Case struct {
	Program  c17Program `json:"program"`
	Schedule []int      `json:"schedule"`
	Bound    int        `json:"preemption_bound"`
	Steps    []string   `json:"steps,omitempty"`
}

// ---- in-memory connection + scripted peer ----

type vconn struct {
	h          *c17H
	id         int
	rbuf       []byte
	closedLoc  bool
	closedPeer bool
	in         []byte // bytes written by the session, not yet parsed
	state      int    // 0 awaiting OPEN, 1 OPEN exchanged
	table      map[string]string
	msgs       []string
	wrongASN   bool
	bytesW     int
}

func (c *vconn) Read(p []byte) (int, error) {
	if s := verifrt.CurSched(); s != nil {
		s.Yield(func() bool { return len(c.rbuf) > 0 || c.closedLoc || c.closedPeer }, "conn.Read")
	}
	if len(c.rbuf) > 0 {
		n := copy(p, c.rbuf)
		c.rbuf = c.rbuf[n:]
		return n, nil
	}
	if c.closedLoc {
		return 0, errors.New("use of closed network connection")
	}
	return 0, io.EOF
}

func (c *vconn) Write(p []byte) (int, error) {
	if s := verifrt.CurSched(); s != nil {
		s.Yield(nil, "conn.Write")
	}
	if c.closedLoc {
		return 0, errors.New("use of closed network connection")
	}
	if c.closedPeer {
		return 0, errors.New("broken pipe")
	}
	c.bytesW += len(p)
	c.h.bytesWritten += len(p)
	c.in = append(c.in, p...)
	c.h.peerFeed(c)
	return len(p), nil
}

func (c *vconn) Close() error {
	if !c.closedLoc {
		c.closedLoc = true
		c.h.connEnded(c)
	}
	return nil
}
func (c *vconn) LocalAddr() net.Addr                { return &net.TCPAddr{IP: net.IPv4(10, 0, 0, 1).To4(), Port: 40000} }
func (c *vconn) RemoteAddr() net.Addr               { return &net.TCPAddr{IP: net.IPv4(10, 0, 0, 2).To4(), Port: 179} }
func (c *vconn) SetDeadline(t time.Time) error      { return nil }
func (c *vconn) SetReadDeadline(t time.Time) error  { return nil }
func (c *vconn) SetWriteDeadline(t time.Time) error { return nil }

type c17H struct {
	prog         c17Program
	conns        []*vconn
	cur          *vconn
	dials        int
	bytesWritten int
	problems     []string
	myASN        uint32
	peerASN      uint32
	// snapshot when Close returned
	closeReturned bool
	dialsAtClose  int
	bytesAtClose  int
	lastSet       map[string]string
	mainDone      bool
}

func advKey(a c17Adv, ibgp bool) (string, string) {
	_, n, err := net.ParseCIDR(a.Pfx)
	if err != nil {
		panic(err)
	}
	lp := "-"
	if ibgp {
		lp = fmt.Sprint(a.LP)
	}
	cs := append([]uint32{}, a.Comm...)
	sort.Slice(cs, func(i, j int) bool { return cs[i] < cs[j] })
	return n.String(), fmt.Sprintf("lp=%s comm=%v", lp, cs)
}

func (h *c17H) dial(ctx context.Context, addr string, src net.IP, password string) (net.Conn, error) {
	if s := verifrt.CurSched(); s != nil {
		s.Yield(nil, "dial")
	}
	h.dials++
	c := &vconn{h: h, id: len(h.conns), table: map[string]string{}, wrongASN: len(h.conns) < h.prog.WrongASN}
	h.conns = append(h.conns, c)
	h.cur = c
	return c, nil
}

func (h *c17H) connEnded(c *vconn) {
	c.table = map[string]string{} // the peer flushes what it learnt over a connection that ended
	if h.cur == c {
		h.cur = nil
	}
}

func (h *c17H) peer2Byte(c *vconn) bool {
	if h.prog.CapFlip && c.id > 0 {
		return !h.prog.Peer2Byte
	}
	return h.prog.Peer2Byte
}

func (h *c17H) peerOpen(c *vconn) []byte {
	asn := h.peerASN
	if c.wrongASN {
		asn = 65099
	}
	var b []byte
	caps := []byte{1, 4, 0, 1, 0, 1}
	if !h.peer2Byte(c) {
		caps = append(caps, 65, 4, byte(asn>>24), byte(asn>>16), byte(asn>>8), byte(asn))
	}
	opt := append([]byte{2, byte(len(caps))}, caps...)
	body := []byte{4, byte(asn >> 8), byte(asn), 0, 90, 10, 0, 0, 2, byte(len(opt))}
	body = append(body, opt...)
	b = hdr(true, 19+len(body), 1)
	return append(b, body...)
}

// peerFeed parses the complete messages the session wrote so far.
func (h *c17H) peerFeed(c *vconn) {
	for len(c.in) >= 19 {
		l := be16(c.in[16:18])
		if l < 19 || l > 4096 {
			h.problems = append(h.problems, fmt.Sprintf("malformed message on connection %d: length %d", c.id, l))
			c.in = nil
			return
		}
		if len(c.in) < l {
			return
		}
		asn4 := !h.peer2Byte(c)
		m, _, err := wireDecode(c.in[:l], asn4)
		c.in = c.in[l:]
		if err != nil {
			h.problems = append(h.problems, fmt.Sprintf("malformed message on connection %d: %v", c.id, err))
			continue
		}
		switch m.Type {
		case 1:
			c.msgs = append(c.msgs, "OPEN")
			if c.state != 0 {
				h.problems = append(h.problems, "second OPEN on one connection")
			}
			c.state = 1
			wantHold := 90
			if h.prog.HoldS != nil {
				wantHold = *h.prog.HoldS
			}
			if m.Open != nil && m.Open.HoldTime != wantHold {
				h.problems = append(h.problems, fmt.Sprintf("OPEN carries hold time %d, the session was created with %d", m.Open.HoldTime, wantHold))
			}
			c.rbuf = append(c.rbuf, h.peerOpen(c)...)
		case 4:
			c.msgs = append(c.msgs, "KEEPALIVE")
			if c.state == 0 {
				h.problems = append(h.problems, "KEEPALIVE before OPEN")
			}
		case 2:
			c.msgs = append(c.msgs, "UPDATE")
			if c.state == 0 {
				h.problems = append(h.problems, "UPDATE before OPEN")
			}
			u := m.Update
			for _, w := range u.Withdrawn {
				delete(c.table, w.String())
			}
			for _, n := range u.NLRI {
				lp := "-"
				if u.HasLocalPref {
					lp = fmt.Sprint(u.LocalPref)
				}
				c.table[n.String()] = fmt.Sprintf("lp=%s comm=%v", lp, sortedU32(u.Communities))
				// attribute sanity
				if h.prog.IBGP && (len(u.ASPath) != 0 || !u.HasLocalPref) {
					h.problems = append(h.problems, "iBGP UPDATE with AS path or without LOCAL_PREF")
				}
				if !h.prog.IBGP && (len(u.ASPath) != 1 || len(u.ASPath[0]) != 1 || u.ASPath[0][0] != h.myASN || u.HasLocalPref) {
					h.problems = append(h.problems, fmt.Sprintf("eBGP UPDATE with AS path %v local-pref %v", u.ASPath, u.HasLocalPref))
				}
				if !u.NextHop.Equal(net.IPv4(10, 0, 0, 1)) {
					h.problems = append(h.problems, fmt.Sprintf("next hop %v", u.NextHop))
				}
			}
		default:
			c.msgs = append(c.msgs, fmt.Sprintf("type%d", m.Type))
		}
	}
}

func mkAdvs(set []c17Adv) []*bgp.Advertisement {
	var out []*bgp.Advertisement
	for _, a := range set {
		_, n, err := net.ParseCIDR(a.Pfx)
		if err != nil {
			panic(err)
		}
		adv := &bgp.Advertisement{Prefix: n, LocalPref: a.LP}
		for _, c := range a.Comm {
			cc, _ := community.New(fmt.Sprintf("%d:%d", c>>16, c&0xffff))
			adv.Communities = append(adv.Communities, cc)
		}
		if a.Invalid {
			for i := 0; i < 64; i++ {
				cc, _ := community.New(fmt.Sprintf("65000:%d", i+1))
				adv.Communities = append(adv.Communities, cc)
			}
		}
		out = append(out, adv)
	}
	return out
}

// c17Body is the harness main thread: the caller program plus helper threads.
func c17Body(h *c17H) func(s *verifrt.Sched) {
	return func(s *verifrt.Sched) {
		verifrt.HookDialMD5 = h.dial
		vtime.SleepHook = func(d time.Duration) {
			if sc := verifrt.CurSched(); sc != nil {
				sc.Yield(nil, "Sleep")
			}
		}
		verifrt.Suppress["sendKeepalives"] = true
		h.myASN, h.peerASN = 64512, 64513
		if h.prog.IBGP {
			h.peerASN = 64512
		}
		sm := NewSessionManager(log.NewNopLogger())
		params := bgp.SessionParameters{PeerAddress: "10.0.0.2", PeerPort: 179, MyASN: h.myASN, PeerASN: h.peerASN,
			RouterID: net.IPv4(10, 0, 0, 1), CurrentNode: "n1", SessionName: "p"}
		if h.prog.HoldS != nil {
			d := time.Duration(*h.prog.HoldS) * time.Second
			params.HoldTime = &d
		}
		sess, err := sm.NewSession(log.NewNopLogger(), params)
		if err != nil {
			panic(err)
		}
		ss := sess.(*session)
		if h.prog.Drops > 0 {
			verifrt.Go("peerDrop", func() {
				for i := 0; i < h.prog.Drops; i++ {
					verifrt.CurSched().Yield(func() bool { return h.cur != nil && !h.cur.closedLoc && !h.cur.closedPeer }, "peer.drop")
					c := h.cur
					c.closedPeer = true
					h.connEnded(c)
				}
			})
		}
		if h.prog.Keepalive > 0 {
			verifrt.Go("keepalive", func() {
				for i := 0; i < h.prog.Keepalive; i++ {
					verifrt.CurSched().Yield(nil, "keepalive.tick")
					_ = ss.sendKeepalive()
				}
			})
		}
		for _, set := range h.prog.Sets {
			invalid := false
			for _, a := range set {
				invalid = invalid || a.Invalid
			}
			err := sess.Set(mkAdvs(set)...)
			if invalid {
				if err == nil {
					h.problems = append(h.problems, "Set with an advertisement of 64 communities was accepted")
				}
				continue // a refused Set requests nothing: the last requested set stays
			}
			if err != nil {
				h.problems = append(h.problems, "Set failed: "+err.Error())
			}
			h.lastSet = map[string]string{}
			for _, a := range set {
				k, v := advKey(a, h.prog.IBGP)
				h.lastSet[k] = v
			}
		}
		if h.prog.Close {
			_ = sess.Close()
			h.closeReturned = true
			h.dialsAtClose, h.bytesAtClose = h.dials, h.bytesWritten
		}
		h.mainDone = true
	}
}

func tableString(m map[string]string) string {
	var ks []string
	for k, v := range m {
		ks = append(ks, k+" "+v)
	}
	sort.Strings(ks)
	return "{" + strings.Join(ks, "; ") + "}"
}

// c17Check is the oracle at quiescence.
func c17Check(res *verifrt.Result, h *c17H, s *verifrt.Sched, mk func(s *verifrt.Sched) c17Case) {
	viol := func(sig, detail string) {
		c := mk(s)
		res.Violate(sig, detail+"\n  program: "+h.prog.Name+"\n  schedule: "+s.Describe(), c)
	}
	if s.Panic != "" {
		viol("C17 panic", s.Panic)
		return
	}
	if s.HorizonHit {
		res.Count("horizon_hits", 1)
		return
	}
	for _, p := range h.problems {
		viol("C17 "+strings.SplitN(p, ":", 2)[0], p)
	}
	if s.Deadlock {
		viol("C17 deadlock: "+strings.Join(s.Blocked, ", "), "a thread is blocked forever")
		return
	}
	// connections that presented an unexpected ASN: nothing but OPEN may have been sent on them
	for _, c := range h.conns {
		if c.wrongASN {
			for _, m := range c.msgs {
				if m != "OPEN" {
					viol("C17 message sent to a peer presenting an unexpected ASN kind="+m, fmt.Sprintf("connection %d: %v", c.id, c.msgs))
				}
			}
			if !c.closedLoc && c.state == 1 {
				viol("C17 connection to a peer presenting an unexpected ASN left open", fmt.Sprintf("connection %d", c.id))
			}
		}
	}
	if h.prog.Close {
		if h.dials != h.dialsAtClose {
			viol("C17 connection attempt after Close returned", fmt.Sprintf("%d dials at Close, %d at the end", h.dialsAtClose, h.dials))
		}
		if h.bytesWritten != h.bytesAtClose {
			viol("C17 bytes written after Close returned", fmt.Sprintf("%d bytes at Close, %d at the end", h.bytesAtClose, h.bytesWritten))
		}
		if h.cur != nil && !h.cur.closedLoc {
			viol("C17 connection left open after Close", "")
		}
		res.Outcome(fmt.Sprintf("closed dials=%d", h.dials))
		return
	}
	if h.cur == nil || h.cur.state != 1 {
		viol("C17 quiescent without an established connection", fmt.Sprintf("dials=%d", h.dials))
		return
	}
	want := h.lastSet
	if want == nil {
		want = map[string]string{}
	}
	if tableString(h.cur.table) != tableString(want) {
		kind := "stale-or-missing-route"
		if len(h.cur.table) < len(want) {
			kind = "missing-route"
		} else if len(h.cur.table) > len(want) {
			kind = "route-not-withdrawn"
		}
		viol("C17 peer table differs from the last requested set kind="+kind, fmt.Sprintf("peer table %s, last requested %s (dials %d)", tableString(h.cur.table), tableString(want), h.dials))
	}
	res.Outcome(fmt.Sprintf("dials=%d table=%d", h.dials, len(h.cur.table)))
}

func c17Programs(thorough bool) []c17Program {
	// a2 and a3 have lengths that are not a multiple of 8 and non-zero bits in the partial octet
	a1, a2, a3 := c17Adv{Pfx: "10.0.0.1/32"}, c17Adv{Pfx: "192.168.10.128/25"}, c17Adv{Pfx: "10.1.2.192/26"}
	bad := c17Adv{Pfx: "10.9.9.9/32", Invalid: true}
	// two prefixes with one network address and different lengths (an aggregate and a host route)
	b24, b32 := c17Adv{Pfx: "10.0.7.0/24"}, c17Adv{Pfx: "10.0.7.0/32"}
	a1c := c17Adv{Pfx: "10.0.0.1/32", LP: 200, Comm: []uint32{0xfde80001}}
	a1lp1, a1lp2 := c17Adv{Pfx: "10.0.0.1/32", LP: 100}, c17Adv{Pfx: "10.0.0.1/32", LP: 200}
	a1cm1, a1cm2 := c17Adv{Pfx: "10.0.0.1/32", Comm: []uint32{0xfde80001}}, c17Adv{Pfx: "10.0.0.1/32", Comm: []uint32{0xfde80002}}
	A := []c17Adv{a1, a2}
	progs := []c17Program{
		{Name: "set-A;set-superset;drop1", Sets: [][]c17Adv{A, {a1, a2, a3}}, Drops: 1},
		{Name: "set-A;set-subset;drop1", Sets: [][]c17Adv{A, {a2}}, Drops: 1},
		{Name: "set-A;set-attr-change;drop1", Sets: [][]c17Adv{A, {a1c, a2}}, Drops: 1, IBGP: true},
		{Name: "set-A;set-empty;drop1", Sets: [][]c17Adv{A, {}}, Drops: 1},
		{Name: "set-A;set-disjoint;drop1", Sets: [][]c17Adv{A, {a3}}, Drops: 1},
		{Name: "set-A;set-B;set-A;drop1", Sets: [][]c17Adv{{a1}, {a2}, {a1}}, Drops: 1},
		{Name: "set-A;set-B;close;drop1", Sets: [][]c17Adv{A, {a2, a3}}, Close: true, Drops: 1},
		{Name: "set-A;close-while-possibly-down;drop2", Sets: [][]c17Adv{A}, Close: true, Drops: 2},
		{Name: "set-A;set-B;keepalive1;drop1", Sets: [][]c17Adv{A, {a2, a3}}, Drops: 1, Keepalive: 1},
		{Name: "wrong-asn-first;set-A;set-B", Sets: [][]c17Adv{A, {a3}}, WrongASN: 1},
		{Name: "set-A;set-B;drop2", Sets: [][]c17Adv{A, {a2, a3}}, Drops: 2},
		{Name: "2byte-peer;set-A;set-B;drop1", Sets: [][]c17Adv{A, {a3}}, Drops: 1, Peer2Byte: true},
		{Name: "4byte-peer-then-2byte-peer;set-A;set-B;drop1", Sets: [][]c17Adv{A, {a3}}, Drops: 1, CapFlip: true},
		{Name: "2byte-peer-then-4byte-peer;set-A;drop1", Sets: [][]c17Adv{A}, Drops: 1, Peer2Byte: true, CapFlip: true},
		// the connection stays up: what the peer holds is exactly what the incremental updates made of it
		{Name: "ibgp;set-A;set-localpref-only-change;no-drop", Sets: [][]c17Adv{{a1lp1, a2}, {a1lp2, a2}}, IBGP: true},
		{Name: "ebgp;set-A;set-localpref-only-change;no-drop", Sets: [][]c17Adv{{a1lp1, a2}, {a1lp2, a2}}},
		{Name: "ibgp;set-A;set-communities-only-change;no-drop", Sets: [][]c17Adv{{a1cm1, a2}, {a1cm2, a2}}, IBGP: true},
		{Name: "set-AB;set-A;set-AC;set-ABC;no-drop", Sets: [][]c17Adv{{a1, a2}, {a1}, {a1, a3}, {a1, a2, a3}}},
		{Name: "set-A;set-empty;set-A;no-drop;keepalive1", Sets: [][]c17Adv{A, {}, A}, Keepalive: 1},
		// a refused Set (in the middle of the list, at its start, after a change) leaves the routes as they were, also across a reconnect
		{Name: "set-ABC;refused-set(A,bad,B,C);drop1", Sets: [][]c17Adv{{a1, a2, a3}, {a1, bad, a2, a3}}, Drops: 1},
		{Name: "set-A;set-B;refused-set(bad,A);drop1", Sets: [][]c17Adv{A, {a2, a3}, {bad, a1}}, Drops: 1},
		{Name: "set-A;refused-set(C,bad);set-AB;no-drop", Sets: [][]c17Adv{{a1}, {a3, bad}, {a1, a2}}},
		{Name: "hold-time-0;set-A;no-drop", Sets: [][]c17Adv{A}, HoldS: func() *int { z := 0; return &z }()},
		{Name: "hold-time-3;set-A;drop1", Sets: [][]c17Adv{A}, Drops: 1, HoldS: func() *int { z := 3; return &z }()},
		{Name: "set-aggregate+host-route-of-its-network-address;no-drop", Sets: [][]c17Adv{{b24, b32, a1}}},
		{Name: "set-aggregate;set-host-route-of-its-network-address;drop1", Sets: [][]c17Adv{{b24, a1}, {b32, a1}}, Drops: 1},
		{Name: "set-host-route;set-aggregate+host-route;set-aggregate;no-drop", Sets: [][]c17Adv{{b32}, {b24, b32}, {b24}}},
		{Name: "ibgp;set-A;set-B;set-attr-change;close;no-drop", Sets: [][]c17Adv{A, {a2, a3}, {a2, a3, a1c}}, Close: true, IBGP: true},
	}
	return progs
}

func TestVerif_C17(t *testing.T) {
	if devnull, err := os.OpenFile(os.DevNull, os.O_WRONLY, 0); err == nil {
		os.Stdout = devnull // readOpen prints a debug line per OPEN
	}
	res := verifrt.NewResult("C17")
	defer res.Write()
	mkSched := func() *verifrt.Sched {
		return &verifrt.Sched{Horizon: 4000, Daemon: map[string]bool{"run": true, "consumeBGP": true, "peerDrop": true, "keepalive": true, "sendKeepalives": true}}
	}
	if raw, ok := verifrt.ReplayCase(); ok {
		var c c17Case
		if err := json.Unmarshal(raw, &c); err != nil {
			t.Fatal(err)
		}
		for i := 0; i < 5; i++ { // replay discipline: the same schedule must behave identically
			h := &c17H{prog: c.Program}
			s := mkSched()
			s.Prefix = c.Schedule
			s.Run(func() { c17Body(h)(s) })
			c17Check(res, h, s, func(*verifrt.Sched) c17Case { return c })
		}
		res.Replayed = true
		return
	}
	bound := 2
	if verifrt.Thorough() {
		bound = 3
	}
	if b := os.Getenv("VERIF_BOUND"); b != "" {
		fmt.Sscan(b, &bound)
	}
	deadline := time.Now().Add(verifrt.Budget())
	progs := c17Programs(verifrt.Thorough())
	res.Info["preemption_bound"] = bound
	completed := map[string]int{}
	for pi, prog := range progs {
		// determinism proof: the default schedule twice must give identical observations
		obs := func() string {
			h := &c17H{prog: prog}
			s := mkSched()
			s.Run(func() { c17Body(h)(s) })
			return fmt.Sprint(s.Describe(), h.dials, h.bytesWritten, h.problems)
		}
		if verifrt.Shard() == 0 {
			if a, b := obs(), obs(); a != b {
				res.Violate("C17 harness nondeterminism", a+"\n"+b, prog)
			}
		}
		pbound := bound
		if !verifrt.Thorough() && prog.Drops == 0 && prog.Keepalive == 0 && prog.WrongASN == 0 && os.Getenv("VERIF_BOUND") == "" {
			// programs without environment threads have few scheduling points: one more preemption is affordable
			// (a caller's Set landing in the middle of the sender's writes needs three)
			pbound = bound + 1
		}
		for b := 0; b <= pbound; b++ {
			var h *c17H
			st := verifrt.Explore(b, deadline, mkSched,
				func(s *verifrt.Sched) { h = &c17H{prog: prog}; c17Body(h)(s) },
				func(s *verifrt.Sched) {
					res.Count("executions", 1)
					res.Count("transitions", int64(len(s.Trace)))
					if res.Counters["executions"]%5000 == 1 {
						res.Sample(map[string]interface{}{"program": prog.Name, "schedule": s.Describe()})
					}
					c17Check(res, h, s, func(s *verifrt.Sched) c17Case {
						return c17Case{Program: prog, Schedule: append([]int{}, s.Trace...), Bound: b, Steps: append([]string{}, s.Names...)}
					})
				},
				func(k int) bool { return verifrt.Mine(k + pi) })
			res.Max("max_scheduling_points", int64(st.MaxPoints))
			if st.Cut {
				res.NotExhaustive(fmt.Sprintf("time budget reached in program %s at bound %d", prog.Name, b))
				break
			}
			completed[prog.Name] = b
		}
	}
	res.Info["completed_bound_per_program"] = completed
	res.Count("states", res.Counters["executions"])
	res.Count("traces_validated_against_impl", res.Counters["executions"])
	res.Count("distinct_nontrivial", res.Counters["executions"])
}
