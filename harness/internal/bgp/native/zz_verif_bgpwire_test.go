//go:build verif

package native

// bgpwire: an independent RFC 4271 / RFC 6793 / RFC 1997 decoder used as the
// reference for C16 (encoders, OPEN reader) and as the scripted peer of C17.
// It shares no code with messages.go.

import (
	"errors"
	"fmt"
	"net"
	"sort"
)

type wireMsg struct {
	Type   int
	Len    int
	Open   *wireOpen
	Update *wireUpdate
	Notif  []byte
}

type wireCap struct {
	Code int
	Val  []byte
}

type wireOpen struct {
	Version  int
	ASN16    int
	HoldTime int
	RouterID [4]byte
	OptsLen  int
	Caps     []wireCap
	// derived
	ASN     uint32
	FBASN   bool
	MP4     bool
	MP6     bool
	OnlyCap bool // every optional parameter is a capabilities parameter
}

type wirePrefix struct {
	Len  int
	Addr [4]byte // masked to Len
}

func (p wirePrefix) String() string {
	return fmt.Sprintf("%d.%d.%d.%d/%d", p.Addr[0], p.Addr[1], p.Addr[2], p.Addr[3], p.Len)
}

type wireUpdate struct {
	Withdrawn     []wirePrefix
	NLRI          []wirePrefix
	HasAttrs      bool
	Origin        int
	HasOrigin     bool
	ASPath        [][]uint32 // AS_SEQUENCE segments
	HasASPath     bool
	NextHop       net.IP
	HasNextHop    bool
	LocalPref     uint32
	HasLocalPref  bool
	Communities   []uint32
	HasCommunity  bool
	AttrTypeOrder []int
}

var errShort = errors.New("bgpwire: truncated")

func be16(b []byte) int { return int(b[0])<<8 | int(b[1]) }
func be32(b []byte) uint32 {
	return uint32(b[0])<<24 | uint32(b[1])<<16 | uint32(b[2])<<8 | uint32(b[3])
}

// wireDecode decodes exactly one message from the front of b and returns the
// number of bytes it occupies. asn4 tells how AS numbers in AS_PATH are encoded.
func wireDecode(b []byte, asn4 bool) (*wireMsg, int, error) {
	if len(b) < 19 {
		return nil, 0, errShort
	}
	for i := 0; i < 16; i++ {
		if b[i] != 0xff {
			return nil, 0, fmt.Errorf("bgpwire: bad marker byte %d", i)
		}
	}
	l := be16(b[16:18])
	if l < 19 || l > 4096 {
		return nil, 0, fmt.Errorf("bgpwire: bad message length %d", l)
	}
	if len(b) < l {
		return nil, 0, errShort
	}
	m := &wireMsg{Type: int(b[18]), Len: l}
	body := b[19:l]
	switch m.Type {
	case 1:
		o, err := wireDecodeOpen(body)
		if err != nil {
			return nil, 0, err
		}
		m.Open = o
	case 2:
		u, err := wireDecodeUpdate(body, asn4)
		if err != nil {
			return nil, 0, err
		}
		m.Update = u
	case 3:
		if len(body) < 2 {
			return nil, 0, fmt.Errorf("bgpwire: NOTIFICATION shorter than 21 bytes")
		}
		m.Notif = body
	case 4:
		if len(body) != 0 {
			return nil, 0, fmt.Errorf("bgpwire: KEEPALIVE with length %d", l)
		}
	default:
		return nil, 0, fmt.Errorf("bgpwire: unknown type %d", m.Type)
	}
	return m, l, nil
}

func wireDecodeOpen(body []byte) (*wireOpen, error) {
	if len(body) < 10 {
		return nil, fmt.Errorf("bgpwire: OPEN shorter than 29 bytes")
	}
	o := &wireOpen{Version: int(body[0]), ASN16: be16(body[1:3]), HoldTime: be16(body[3:5]), OptsLen: int(body[9]), OnlyCap: true}
	copy(o.RouterID[:], body[5:9])
	opts := body[10:]
	if o.OptsLen != len(opts) {
		return nil, fmt.Errorf("bgpwire: OPEN optional parameters length %d but %d bytes follow", o.OptsLen, len(opts))
	}
	o.ASN = uint32(o.ASN16)
	for len(opts) > 0 {
		if len(opts) < 2 {
			return nil, fmt.Errorf("bgpwire: truncated optional parameter")
		}
		pt, pl := int(opts[0]), int(opts[1])
		if len(opts) < 2+pl {
			return nil, fmt.Errorf("bgpwire: optional parameter overruns OPEN")
		}
		pv := opts[2 : 2+pl]
		opts = opts[2+pl:]
		if pt != 2 {
			o.OnlyCap = false
			continue
		}
		for len(pv) > 0 {
			if len(pv) < 2 {
				return nil, fmt.Errorf("bgpwire: truncated capability")
			}
			cc, cl := int(pv[0]), int(pv[1])
			if len(pv) < 2+cl {
				return nil, fmt.Errorf("bgpwire: capability overruns parameter")
			}
			cv := pv[2 : 2+cl]
			pv = pv[2+cl:]
			o.Caps = append(o.Caps, wireCap{cc, append([]byte{}, cv...)})
			switch cc {
			case 65:
				if cl != 4 {
					return nil, fmt.Errorf("bgpwire: 4-octet AS capability of length %d", cl)
				}
				o.ASN = be32(cv)
				o.FBASN = true
			case 1:
				if cl != 4 {
					return nil, fmt.Errorf("bgpwire: multiprotocol capability of length %d", cl)
				}
				afi, safi := be16(cv[0:2]), int(cv[3])
				if cv[2] != 0 {
					// reserved byte: MetalLB reads AFI(2) SAFI(2); RFC 4760 says AFI(2) Res(1) SAFI(1).
					safi = be16(cv[2:4])
				}
				if afi == 1 && safi == 1 {
					o.MP4 = true
				}
				if afi == 2 && safi == 1 {
					o.MP6 = true
				}
			}
		}
	}
	return o, nil
}

func wireDecodePrefixes(b []byte) ([]wirePrefix, error) {
	var out []wirePrefix
	for len(b) > 0 {
		l := int(b[0])
		if l > 32 {
			return nil, fmt.Errorf("bgpwire: prefix length %d", l)
		}
		n := (l + 7) / 8
		if len(b) < 1+n {
			return nil, fmt.Errorf("bgpwire: truncated prefix")
		}
		var p wirePrefix
		p.Len = l
		copy(p.Addr[:], b[1:1+n])
		// mask irrelevant trailing bits
		m := net.CIDRMask(l, 32)
		for i := range p.Addr {
			p.Addr[i] &= m[i]
		}
		out = append(out, p)
		b = b[1+n:]
	}
	return out, nil
}

func wireDecodeUpdate(body []byte, asn4 bool) (*wireUpdate, error) {
	if len(body) < 4 {
		return nil, fmt.Errorf("bgpwire: UPDATE shorter than 23 bytes")
	}
	u := &wireUpdate{}
	wl := be16(body[0:2])
	if len(body) < 2+wl+2 {
		return nil, fmt.Errorf("bgpwire: withdrawn routes length %d overruns UPDATE", wl)
	}
	var err error
	if u.Withdrawn, err = wireDecodePrefixes(body[2 : 2+wl]); err != nil {
		return nil, err
	}
	al := be16(body[2+wl : 4+wl])
	if len(body) < 4+wl+al {
		return nil, fmt.Errorf("bgpwire: path attribute length %d overruns UPDATE", al)
	}
	attrs := body[4+wl : 4+wl+al]
	if u.NLRI, err = wireDecodePrefixes(body[4+wl+al:]); err != nil {
		return nil, err
	}
	u.HasAttrs = al > 0
	seen := map[int]bool{}
	for len(attrs) > 0 {
		if len(attrs) < 3 {
			return nil, fmt.Errorf("bgpwire: truncated attribute header")
		}
		flags, typ := attrs[0], int(attrs[1])
		var l, hl int
		if flags&0x10 != 0 {
			if len(attrs) < 4 {
				return nil, fmt.Errorf("bgpwire: truncated extended attribute header")
			}
			l, hl = be16(attrs[2:4]), 4
		} else {
			l, hl = int(attrs[2]), 3
		}
		if len(attrs) < hl+l {
			return nil, fmt.Errorf("bgpwire: attribute %d length %d overruns attributes", typ, l)
		}
		v := attrs[hl : hl+l]
		attrs = attrs[hl+l:]
		if seen[typ] {
			return nil, fmt.Errorf("bgpwire: attribute %d twice", typ)
		}
		seen[typ] = true
		u.AttrTypeOrder = append(u.AttrTypeOrder, typ)
		wellKnown := func() error {
			if flags&0xc0 != 0x40 {
				return fmt.Errorf("bgpwire: well-known attribute %d with flags %#x", typ, flags)
			}
			return nil
		}
		switch typ {
		case 1:
			if err := wellKnown(); err != nil {
				return nil, err
			}
			if l != 1 || v[0] > 2 {
				return nil, fmt.Errorf("bgpwire: bad ORIGIN")
			}
			u.Origin, u.HasOrigin = int(v[0]), true
		case 2:
			if err := wellKnown(); err != nil {
				return nil, err
			}
			u.HasASPath = true
			w := 2
			if asn4 {
				w = 4
			}
			for len(v) > 0 {
				if len(v) < 2 {
					return nil, fmt.Errorf("bgpwire: truncated AS_PATH segment")
				}
				st, n := int(v[0]), int(v[1])
				if st != 1 && st != 2 {
					return nil, fmt.Errorf("bgpwire: AS_PATH segment type %d", st)
				}
				if n == 0 || len(v) < 2+n*w {
					return nil, fmt.Errorf("bgpwire: AS_PATH segment overruns attribute")
				}
				var seg []uint32
				for i := 0; i < n; i++ {
					if asn4 {
						seg = append(seg, be32(v[2+i*4:]))
					} else {
						seg = append(seg, uint32(be16(v[2+i*2:])))
					}
				}
				if st != 2 {
					return nil, fmt.Errorf("bgpwire: AS_SET not expected")
				}
				u.ASPath = append(u.ASPath, seg)
				v = v[2+n*w:]
			}
		case 3:
			if err := wellKnown(); err != nil {
				return nil, err
			}
			if l != 4 {
				return nil, fmt.Errorf("bgpwire: NEXT_HOP length %d", l)
			}
			u.NextHop, u.HasNextHop = net.IP(append([]byte{}, v...)), true
		case 5:
			if err := wellKnown(); err != nil {
				return nil, err
			}
			if l != 4 {
				return nil, fmt.Errorf("bgpwire: LOCAL_PREF length %d", l)
			}
			u.LocalPref, u.HasLocalPref = be32(v), true
		case 8:
			if flags&0xc0 != 0xc0 {
				return nil, fmt.Errorf("bgpwire: COMMUNITIES with flags %#x", flags)
			}
			if l == 0 || l%4 != 0 {
				return nil, fmt.Errorf("bgpwire: COMMUNITIES length %d", l)
			}
			u.HasCommunity = true
			for i := 0; i < l; i += 4 {
				u.Communities = append(u.Communities, be32(v[i:]))
			}
		default:
			return nil, fmt.Errorf("bgpwire: unexpected attribute type %d", typ)
		}
	}
	if len(u.NLRI) > 0 && !(u.HasOrigin && u.HasASPath && u.HasNextHop) {
		return nil, fmt.Errorf("bgpwire: NLRI without the mandatory attributes")
	}
	return u, nil
}

// wireDecodeAll decodes a byte stream into messages; the stream must consist of
// whole messages.
func wireDecodeAll(b []byte, asn4 bool) ([]*wireMsg, error) {
	var out []*wireMsg
	for len(b) > 0 {
		m, n, err := wireDecode(b, asn4)
		if err != nil {
			return out, err
		}
		out = append(out, m)
		b = b[n:]
	}
	return out, nil
}

func sortedU32(in []uint32) []uint32 {
	out := append([]uint32{}, in...)
	sort.Slice(out, func(i, j int) bool { return out[i] < out[j] })
	return out
}
