//go:build verif

package frr

// Shared by the C14 harness (this package) and the C15 harness (frrk8s): the
// session / advertisement catalogue, the rendering entry point and the
// reference meaning of a session set.

import (
	"fmt"
	"net"
	"sort"
	"strings"
	"time"

	"github.com/go-kit/log"
	"go.universe.tf/metallb/internal/bgp"
	"go.universe.tf/metallb/internal/bgp/community"
	"go.universe.tf/metallb/internal/verifrt/frrinterp"
	v1 "k8s.io/api/core/v1"
)

type VerifSession struct {
	Name   string
	Params bgp.SessionParameters
	Advs   []*bgp.Advertisement
	// PreAdvs, when HasPre, is Set on the session before Advs (history: the final configuration must not depend on it).
	PreAdvs []*bgp.Advertisement
	HasPre  bool
}

// VerifAdvItem is one advertisement request of the catalogue.
type VerifAdvItem struct {
	Name  string
	Pfx   string
	LP    uint32
	Comms []string
}

func VerifAdvCatalogue() []VerifAdvItem {
	return []VerifAdvItem{
		{"p1", "10.0.1.1/32", 0, nil},
		{"p1+A", "10.0.1.1/32", 0, []string{"65000:1"}},
		{"p1+AB+L", "10.0.1.1/32", 0, []string{"65000:1", "65000:2", "large:1:2:3"}},
		{"net24-lp100", "10.0.1.0/24", 100, nil},
		{"p6", "fc00::1/128", 0, nil},
		{"p6-lp200+A", "fc00::1/128", 200, []string{"65000:1"}},
		{"net64", "fc00::/64", 0, []string{"large:1:2:3"}},
		{"p2-lp100+B", "10.0.1.2/32", 100, []string{"65000:2"}},
		{"net25-same-base", "10.0.1.0/25", 0, nil},
	}
}

func (it VerifAdvItem) Adv() *bgp.Advertisement {
	_, n, err := net.ParseCIDR(it.Pfx)
	if err != nil {
		panic(err)
	}
	a := &bgp.Advertisement{Prefix: n, LocalPref: it.LP}
	for _, c := range it.Comms {
		cc, err := community.New(c)
		if err != nil {
			panic(err)
		}
		a.Communities = append(a.Communities, cc)
	}
	return a
}

func dur(s int) *time.Duration {
	d := time.Duration(s) * time.Second
	return &d
}

// VerifSessionCatalogue: neighbors over several routers/VRFs, IPv4/IPv6/unnumbered, iBGP/eBGP, with and without options.
func VerifSessionCatalogue() []VerifSession {
	base := func(name, addr string, asn uint32) VerifSession {
		return VerifSession{Name: name, Params: bgp.SessionParameters{PeerAddress: addr, PeerASN: asn, MyASN: 64512, SessionName: name, CurrentNode: "node1"}}
	}
	var out []VerifSession
	out = append(out, base("v4-ebgp", "10.1.1.1", 64513))
	out = append(out, base("v4-ibgp", "10.1.1.2", 64512))
	out = append(out, base("v6-ebgp", "fc00:1::2", 64514))
	u := base("unnumbered", "", 64515)
	u.Params.PeerInterface = "eth0"
	out = append(out, u)
	vr := base("v4-vrf-red", "10.1.1.3", 64516)
	vr.Params.VRFName = "red"
	out = append(out, vr)
	opt := base("v4-options", "10.1.1.4", 64517)
	opt.Params.PeerPort = 1179
	opt.Params.HoldTime, opt.Params.KeepAliveTime, opt.Params.ConnectTime = dur(90), dur(30), dur(10)
	opt.Params.Password = "secret"
	opt.Params.SourceAddress = net.ParseIP("10.1.1.100")
	opt.Params.EBGPMultiHop = true
	opt.Params.BFDProfile = "bfd1"
	opt.Params.GracefulRestart = true
	out = append(out, opt)
	dyn := base("v4-dynamic-asn", "10.1.1.5", 0)
	dyn.Params.DynamicASN = "external"
	out = append(out, dyn)
	mp4 := base("v4-disable-mp", "10.1.1.6", 64518)
	mp4.Params.DisableMP = true
	out = append(out, mp4)
	mp6 := base("v6-disable-mp", "fc00:1::6", 64519)
	mp6.Params.DisableMP = true
	out = append(out, mp6)
	r2 := base("v4-vrf-red-router2", "10.1.1.7", 64520)
	r2.Params.VRFName = "red"
	r2.Params.RouterID = net.ParseIP("10.9.9.9")
	out = append(out, r2)
	sec := base("v4-secretref", "10.1.1.8", 64521)
	sec.Params.PasswordRef = v1.SecretReference{Name: "bgp-secret", Namespace: "metallb-system"}
	out = append(out, sec)
	// a second neighbor with timers (other values than v4-options) and a second interface peer in the same AS as the
	// first: what one neighbor is given must not leak to, or be confused with, its sibling
	t2 := base("v4-timers2", "10.1.1.9", 64522)
	t2.Params.HoldTime, t2.Params.KeepAliveTime = dur(9), dur(3)
	out = append(out, t2)
	u2 := base("unnumbered2", "", 64515)
	u2.Params.PeerInterface = "eth1"
	out = append(out, u2)
	return out
}

// VerifRender creates the sessions in createOrder, calls Set in setOrder and renders the configuration
// carried by the last reload event with the real templateConfig: byte for byte what the debouncer would write.
func VerifRender(sessions []VerifSession, createOrder, setOrder []int) (string, int, error) {
	sm := &sessionManager{sessions: map[string]*session{}, bfdProfiles: []BFDProfile{}, reloadConfig: make(chan reloadEvent, 4096), logLevel: "informational"}
	ss := make([]bgp.Session, len(sessions))
	for _, i := range createOrder {
		s, err := sm.NewSession(log.NewNopLogger(), sessions[i].Params)
		if err != nil {
			return "", 0, fmt.Errorf("NewSession %s: %w", sessions[i].Name, err)
		}
		ss[i] = s
	}
	for _, i := range setOrder {
		if sessions[i].HasPre {
			if err := ss[i].Set(sessions[i].PreAdvs...); err != nil {
				return "", 0, fmt.Errorf("Set(pre) %s: %w", sessions[i].Name, err)
			}
		}
	}
	for _, i := range setOrder {
		if err := ss[i].Set(sessions[i].Advs...); err != nil {
			return "", 0, fmt.Errorf("Set %s: %w", sessions[i].Name, err)
		}
	}
	var last *frrConfig
	n := 0
	for {
		select {
		case ev := <-sm.reloadConfig:
			last = ev.config
			n++
			continue
		default:
		}
		break
	}
	if last == nil {
		return "", n, fmt.Errorf("no reload event")
	}
	text, err := templateConfig(last)
	return text, n, err
}

// VerifRouteMeaning is what one neighbor is offered for one prefix.
type VerifRouteMeaning struct {
	LocalPref uint32
	Comms     []string // standard
	Large     []string
}

func (m VerifRouteMeaning) String() string {
	return fmt.Sprintf("lp=%d comm=%v large=%v", m.LocalPref, m.Comms, m.Large)
}

func family(pfx string) string {
	if strings.Contains(pfx, ":") {
		return "ipv6"
	}
	return "ipv4"
}

// VerifActivated: the families in which a neighbor exchanges routes (DESIGN F17).
func VerifActivated(p bgp.SessionParameters, fam string) bool {
	if !p.DisableMP {
		return true
	}
	if p.PeerInterface != "" {
		return true // undefined family: outside the alphabet
	}
	nf := "ipv4"
	if strings.Contains(p.PeerAddress, ":") {
		nf = "ipv6"
	}
	return nf == fam
}

// VerifRequested is the reference meaning of one session: prefix -> attributes requested (union of
// communities over repeated prefixes). inconsistent reports a prefix requested with two local preferences.
func VerifRequested(s VerifSession) (m map[string]VerifRouteMeaning, inconsistent bool) {
	m = map[string]VerifRouteMeaning{}
	comm, large := map[string]map[string]bool{}, map[string]map[string]bool{}
	for _, a := range s.Advs {
		p := a.Prefix.String()
		if cur, ok := m[p]; ok && cur.LocalPref != a.LocalPref {
			inconsistent = true
		}
		m[p] = VerifRouteMeaning{LocalPref: a.LocalPref}
		if comm[p] == nil {
			comm[p], large[p] = map[string]bool{}, map[string]bool{}
		}
		for _, c := range a.Communities {
			if community.IsLarge(c) {
				large[p][c.String()] = true
			} else {
				comm[p][c.String()] = true
			}
		}
	}
	for p, rm := range m {
		for c := range comm[p] {
			rm.Comms = append(rm.Comms, c)
		}
		for c := range large[p] {
			rm.Large = append(rm.Large, c)
		}
		sort.Strings(rm.Comms)
		sort.Strings(rm.Large)
		m[p] = rm
	}
	return m, inconsistent
}

func neighborID(p bgp.SessionParameters) string {
	if p.PeerInterface != "" {
		return p.PeerInterface
	}
	return p.PeerAddress
}

// VerifFRRMeaning interprets generated FRR text: per session name, prefix -> meaning of what the neighbor is offered,
// over the given prefix universe. Problems found while interpreting are returned as strings.
func VerifFRRMeaning(text string, sessions []VerifSession, universe []string) (map[string]map[string]VerifRouteMeaning, []string) {
	var problems []string
	cfg, err := frrinterp.Parse(text)
	if err != nil {
		return nil, []string{"PARSE: " + err.Error()}
	}
	out := map[string]map[string]VerifRouteMeaning{}
	for _, s := range sessions {
		out[s.Name] = map[string]VerifRouteMeaning{}
		var nb *frrinterp.Neighbor
		for _, r := range cfg.Routers {
			if r.ASN != fmt.Sprint(s.Params.MyASN) || r.VRF != s.Params.VRFName {
				continue
			}
			rid := ""
			if s.Params.RouterID != nil {
				rid = s.Params.RouterID.String()
			}
			if r.RouterID != rid {
				continue
			}
			if n := r.Neighbors[neighborID(s.Params)]; n != nil {
				if nb != nil {
					problems = append(problems, "neighbor declared in two routers: "+s.Name)
				}
				nb = n
			}
		}
		if nb == nil {
			problems = append(problems, "neighbor-missing: "+s.Name)
			continue
		}
		for _, pfx := range universe {
			fam := family(pfx)
			if !nb.Activated[fam] {
				continue
			}
			in, out2 := nb.In[fam], nb.Out[fam]
			if in == "" || out2 == "" {
				problems = append(problems, fmt.Sprintf("route-map-not-bound: %s %s", s.Name, fam))
				continue
			}
			if r := cfg.EvalRouteMap(in, fam, pfx); r.Permitted {
				problems = append(problems, fmt.Sprintf("inbound-route-accepted: %s %s", s.Name, pfx))
			}
			r := cfg.EvalRouteMap(out2, fam, pfx)
			for _, u := range r.Undefined {
				problems = append(problems, fmt.Sprintf("undefined-reference: %s evaluating %s: %s", s.Name, pfx, u))
			}
			for _, u := range r.NonAdditive {
				problems = append(problems, fmt.Sprintf("set-without-additive: %s %s", s.Name, u))
			}
			if r.Permitted {
				m := VerifRouteMeaning{Comms: r.Comms, Large: r.Large}
				if r.LocalPref != nil {
					m.LocalPref = *r.LocalPref
				}
				out[s.Name][pfx] = m
			}
		}
	}
	return out, problems
}

// VerifParse exposes the interpreter's parse of the text.
func VerifParse(text string) (*frrinterp.Config, error) { return frrinterp.Parse(text) }
