//go:build verif

package frr

// C19 - FRR reload delivery. The real debouncer goroutine with the real reload action
// (generateAndReloadConfigFile writing to a scratch file; the reload signal is the
// harness-scripted reloadConfig) is driven by a hand-shake driver: at any moment exactly one
// event is offered (a blocking submission, or the expiry of the most recently armed timer), so
// the goroutine's select never has two ready cases. Stateless enumeration of all event
// sequences up to the depth x reload results; reference model (latest, armed).

import (
	"encoding/json"
	"errors"
	"fmt"
	"os"
	"path/filepath"
	"strings"
	"sync"
	"testing"
	"time"

	"github.com/go-kit/log"
	"go.universe.tf/metallb/internal/verifrt"
	"go.universe.tf/metallb/internal/verifrt/vtime"
)

const dbFn = "frr.debouncer.func1"

type c19Case struct {
	Tokens []string `json:"events"` // sA sB sC sL old fire-ok fire-fail
}

type c19Run struct {
	reload  chan reloadEvent
	timers  []chan time.Time
	fired   int // number of timers fired (timers[fired:] are unfired)
	firedIdx map[int]bool // indexes of the timers the driver fired
	signals []string // file content at each reload signal
	results []bool
	script  []bool // scripted results of upcoming signals (consumed); afterwards ok
	file    string
	mu      sync.Mutex
}

func c19Config(name string) *frrConfig {
	return &frrConfig{Hostname: "host-" + name, Loglevel: "informational"}
}

var c19Dir string
var c19Texts = map[string]string{}

func (r *c19Run) armed() bool {
	r.mu.Lock()
	defer r.mu.Unlock()
	return len(r.timers) > r.fired
}

func newC19Run() *c19Run {
	r := &c19Run{reload: make(chan reloadEvent)}
	r.file = filepath.Join(c19Dir, "frr.conf")
	os.Remove(r.file)
	configFileName = r.file
	os.Setenv("FRR_CONFIG_FILE", r.file)
	vtime.AfterHook = func(d time.Duration) <-chan time.Time {
		ch := make(chan time.Time, 1)
		r.mu.Lock()
		r.timers = append(r.timers, ch)
		r.mu.Unlock()
		return ch
	}
	reloadConfig = func() error {
		b, _ := os.ReadFile(r.file)
		ok := true
		if len(r.script) > 0 {
			ok = r.script[0]
			r.script = r.script[1:]
		}
		r.signals = append(r.signals, string(b))
		r.results = append(r.results, ok)
		if !ok {
			return errors.New("verif: injected reload failure")
		}
		return nil
	}
	body := func(config *frrConfig) error { return generateAndReloadConfigFile(config, log.NewNopLogger()) }
	debouncer(body, r.reload, 3*time.Second, 5*time.Second, log.NewNopLogger())
	return r
}

func (r *c19Run) close() {
	close(r.reload)
	for i := 0; i < 1000 && verifrt.GoroutineState(dbFn) != ""; i++ {
		time.Sleep(20 * time.Microsecond)
	}
}

func c19Exec(res *verifrt.Result, c c19Case) {
	res.Count("evaluations", 1)
	r := newC19Run()
	defer r.close()
	viol := func(sig, detail string) {
		res.Violate(sig, detail+"\n  events: "+strings.Join(c.Tokens, " "), c)
	}
	park := func(what string) bool {
		if st, ok := verifrt.WaitParked(dbFn, 120*time.Second, "select"); !ok {
			viol("C19 debouncer does not return to waiting (deadlock or livelock) after="+what, "goroutine state "+st)
			return false
		}
		return true
	}
	if !park("start") {
		return
	}
	// reference model
	var latest *frrConfig
	armed := false
	needApply := false
	submit := func(ev reloadEvent, what string) bool {
		done := make(chan struct{})
		go func() { r.reload <- ev; close(done) }()
		select {
		case <-done:
		case <-time.After(120 * time.Second):
			viol("C19 submitter blocked indefinitely on="+what, "send on the reload channel did not complete")
			return false
		}
		return park(what)
	}
	expectText := func(cfg *frrConfig) string {
		if s, ok := c19Texts[cfg.Hostname]; ok {
			return s
		}
		s, err := templateConfig(cfg)
		if err != nil {
			panic(err)
		}
		c19Texts[cfg.Hostname] = s
		return s
	}
	step := func(tok string) bool {
		res.Count("transitions", 1)
		nsig := len(r.signals)
		switch tok {
		case "sA", "sB", "sC":
			cfg := c19Config(tok[1:])
			if !submit(reloadEvent{config: cfg}, tok) {
				return false
			}
			if latest == nil || latest.Hostname != cfg.Hostname {
				latest = cfg
				needApply = true
				armed = true
			}
		case "sL":
			if latest == nil {
				return true
			}
			if !submit(reloadEvent{config: c19Config(strings.TrimPrefix(latest.Hostname, "host-"))}, tok) {
				return false
			}
		case "old":
			if !submit(reloadEvent{useOld: true}, tok) {
				return false
			}
			if latest != nil {
				armed = true
				needApply = true
			}
		case "fire-ok", "fire-fail":
			if !r.armed() {
				return true // not offered
			}
			r.script = []bool{tok == "fire-ok"}
			r.mu.Lock()
			ch := r.timers[len(r.timers)-1]
			if r.firedIdx == nil {
				r.firedIdx = map[int]bool{}
			}
			r.firedIdx[len(r.timers)-1] = true
			r.fired = len(r.timers) // before the expiry is delivered: the goroutine may arm a new timer at once
			r.mu.Unlock()
			ch <- time.Time{}
			if !park(tok) {
				return false
			}
			if len(r.signals) != nsig+1 {
				viol("C19 timer expiry did not lead to exactly one reload attempt", fmt.Sprintf("%d attempts", len(r.signals)-nsig))
				return false
			}
			if latest == nil {
				viol("C19 reload attempted with nothing submitted", "")
				return false
			}
			if r.signals[nsig] != expectText(latest) {
				viol("C19 reload attempt does not carry the latest submitted configuration kind="+c19Which(r.signals[nsig], latest), fmt.Sprintf("attempted %q, latest submitted %s", firstLine(r.signals[nsig]), latest.Hostname))
				return false
			}
			if tok == "fire-ok" {
				armed = false
				needApply = false
			} else {
				armed = true
			}
			nsig++
		}
		if len(r.signals) != nsig {
			viol("C19 reload attempted without a timer expiry on="+tok, fmt.Sprintf("%d extra attempts", len(r.signals)-nsig))
			return false
		}
		// more than one timer pending: the window opened by the first pending request must still end in a reload attempt
		// (a debouncer that restarts its window on every request postpones the reload for as long as requests keep coming)
		r.mu.Lock()
		pend := len(r.timers) - r.fired
		var oldest chan time.Time
		if pend > 1 {
			oldest = r.timers[r.fired]
		}
		r.mu.Unlock()
		if oldest != nil && needApply {
			r.script = []bool{true}
			oldest <- time.Time{}
			for i := 0; i < 2000 && len(oldest) > 0; i++ {
				time.Sleep(100 * time.Microsecond)
			}
			if !park(tok + "+expiry-of-the-first-window") {
				return false
			}
			if len(r.signals) == nsig {
				viol("C19 the expiry of the window opened by the first pending request leads to no reload attempt: every new request postpones the reload",
					fmt.Sprintf("%d timers pending after %s; the oldest one was fired and nothing happened", pend, tok))
			}
			res.Count("executions_ended_at_a_second_pending_timer", 1)
			return false // the reference model does not follow implementations with several pending timers any further
		}
		if r.armed() != armed {
			kind := "timer armed although nothing is pending"
			if armed {
				kind = "no timer armed although a reload is pending"
			}
			viol("C19 "+kind+" after="+tok, fmt.Sprintf("model armed=%v observed armed=%v", armed, r.armed()))
			return false
		}
		return true
	}
	for _, tok := range c.Tokens {
		if !step(tok) {
			return
		}
	}
	// closure: every further reload succeeds; fire until nothing is armed
	for i := 0; r.armed(); i++ {
		if i > 10 {
			viol("C19 timer re-armed forever although reloads succeed", "")
			return
		}
		if !step("fire-ok") {
			return
		}
	}
	if needApply {
		viol("C19 internal: model pending after closure", "")
	}
	// every timer channel that was ever handed out and not fired above: an abandoned one has no listener (nothing happens),
	// a forgotten one that is still listened to must not bring an older configuration back
	r.mu.Lock()
	var stale []chan time.Time
	for i, ch := range r.timers {
		if !r.firedIdx[i] {
			stale = append(stale, ch)
		}
	}
	r.mu.Unlock()
	before := len(r.signals)
	if os.Getenv("VERIF_TRACE") != "" {
		fmt.Fprintf(os.Stderr, "closure: %d timers handed out, %d never fired by the driver, %d reload attempts so far\n", len(r.timers), len(stale), before)
	}
	for _, ch := range stale {
		select {
		case ch <- time.Time{}:
		default:
		}
		// if somebody still listens the value is taken at once; an abandoned channel keeps it (bounded wait: on a tree
		// where nobody listens the wait changes nothing)
		for i := 0; i < 200 && len(ch) > 0; i++ {
			time.Sleep(100 * time.Microsecond)
		}
		if !park("closure-stale-timer") {
			return
		}
	}
	if len(r.signals) != before {
		last := r.signals[len(r.signals)-1]
		if latest != nil && last != expectText(latest) {
			viol("C19 reload attempt does not carry the latest submitted configuration kind=older-configuration-from-a-forgotten-timer", fmt.Sprintf("attempted %q, latest submitted %s", firstLine(last), latest.Hostname))
			return
		}
	}
	if latest != nil {
		last := ""
		for i, s := range r.signals {
			if r.results[i] {
				last = s
			}
		}
		if last != expectText(latest) {
			viol("C19 last successfully applied configuration is not the latest submitted", fmt.Sprintf("last applied %q, latest %s", firstLine(last), latest.Hostname))
		}
	}
	res.Outcome(fmt.Sprintf("signals=%d", len(r.signals)))
}

func firstLine(s string) string {
	for _, l := range strings.Split(s, "\n") {
		if strings.HasPrefix(l, "hostname") {
			return l
		}
	}
	return "<none>"
}

func c19Which(got string, latest *frrConfig) string {
	if got == "" {
		return "empty"
	}
	return "older-configuration"
}

func TestVerif_C19(t *testing.T) {
	res := verifrt.NewResult("C19")
	defer res.Write()
	var err error
	c19Dir, err = os.MkdirTemp("", "verif-c19-")
	if err != nil {
		t.Fatal(err)
	}
	defer os.RemoveAll(c19Dir)
	if raw, ok := verifrt.ReplayCase(); ok {
		var c c19Case
		_ = json.Unmarshal(raw, &c)
		c19Exec(res, c)
		res.Replayed = true
		return
	}
	depth := 5
	if verifrt.Thorough() {
		depth = 7
	}
	if d := os.Getenv("VERIF_DEPTH"); d != "" {
		fmt.Sscan(d, &depth)
	}
	alphabet := []string{"sA", "fire-ok", "sB", "fire-fail", "sL", "old", "sC"}
	deadline := time.Now().Add(verifrt.Budget())
	var distinct int64
	var rec func(prefix []string, armed bool, any bool)
	work := 0
	cut := false
	rec = func(prefix []string, armed bool, any bool) {
		if cut {
			return
		}
		if len(prefix) > 0 {
			if len(prefix) == 2 {
				work++
				if !verifrt.Mine(work) {
					return
				}
			}
			if len(prefix) >= 2 || verifrt.Shard() == 0 {
				if time.Now().After(deadline) {
					cut = true
					res.NotExhaustive("time budget reached")
					return
				}
				c := c19Case{Tokens: append([]string{}, prefix...)}
				res.Sample(c)
				c19Exec(res, c)
				distinct++
			}
		}
		if len(prefix) == depth {
			return
		}
		for _, tok := range alphabet {
			// prune tokens that are not offered in the model state (fire without an armed timer, sL/old with nothing submitted)
			if strings.HasPrefix(tok, "fire") && !armed {
				continue
			}
			if (tok == "sL" || tok == "old") && !any {
				continue
			}
			na, nany := armed, any
			switch tok {
			case "sA", "sB", "sC":
				na, nany = true, true // over-approximation of armed (a resubmission of the latest arms nothing): the run itself skips unoffered fires
			case "old":
				na = true
			case "fire-ok":
				na = false
			}
			rec(append(prefix, tok), na, nany)
		}
	}
	rec(nil, false, false)
	// long runs of failing reloads (beyond the depth of the enumeration): "any pattern of failing attempts that eventually
	// stops" - after k consecutive failures the retry timer is still armed and the closing successful reload applies the latest
	if verifrt.Shard() == 0 && !cut {
		for k := 1; k <= 24; k++ {
			for _, tail := range [][]string{nil, {"sL"}, {"sB"}, {"old"}} {
				toks := []string{"sA"}
				for i := 0; i < k; i++ {
					toks = append(toks, "fire-fail")
				}
				toks = append(toks, tail...)
				c19Exec(res, c19Case{Tokens: toks})
				distinct++
			}
		}
	}
	res.Count("distinct_nontrivial", distinct)
	res.Count("states", distinct)
	res.Count("traces_validated_against_impl", distinct)
	res.Info["depth"] = depth
	res.Info["polls"] = verifrt.Polls
}
