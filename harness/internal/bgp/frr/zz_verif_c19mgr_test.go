//go:build verif

package frr

// C19, session manager + debouncer together: the configurations are not hand-made values but what the real
// sessionManager hands to the real debouncer goroutine (same channel, same objects - so that state shared between a
// submitted configuration and the manager's later changes shows), driven one event at a time by the hand-shake
// driver with virtual timers. Every sequence of manager operations (BFD profile sets of equal size and different
// content, advertisement sets, extra configuration) and timer expiries (reload succeeding / failing) up to the depth
// is executed and closed with succeeding reloads: every reload attempt must carry the configuration of the manager's
// state at that moment (computed by a second manager that replays the same operations without a debouncer), and the
// last successfully applied configuration must be the last one.

import (
	"encoding/json"
	"fmt"
	"os"
	"strings"
	"testing"
	"time"

	"github.com/go-kit/log"
	"go.universe.tf/metallb/internal/bgp"
	metallbconfig "go.universe.tf/metallb/internal/config"
	"go.universe.tf/metallb/internal/verifrt"
)

type c19mCase struct {
	Tokens []string `json:"events"` // bfdX bfdY bfd0 setA setB extra1 extra2 fire-ok fire-fail
}

type c19mMgr struct {
	sm *sessionManager
	s1 bgp.Session
}

func c19mNew(ch chan reloadEvent) (*c19mMgr, error) {
	m := &c19mMgr{sm: &sessionManager{sessions: map[string]*session{}, bfdProfiles: []BFDProfile{}, reloadConfig: ch, logLevel: "informational"}}
	return m, nil
}

func (m *c19mMgr) apply(tok string) error {
	u32 := func(v uint32) *uint32 { return &v }
	switch tok {
	case "open":
		s, err := m.sm.NewSession(log.NewNopLogger(), VerifSessionCatalogue()[0].Params)
		m.s1 = s
		return err
	case "bfdX":
		return m.sm.SyncBFDProfiles(map[string]*metallbconfig.BFDProfile{"fast": {Name: "fast", ReceiveInterval: u32(100)}, "slow": {Name: "slow", ReceiveInterval: u32(900)}})
	case "bfdY":
		return m.sm.SyncBFDProfiles(map[string]*metallbconfig.BFDProfile{"fast": {Name: "fast", ReceiveInterval: u32(200)}, "slow": {Name: "slow", ReceiveInterval: u32(900)}})
	case "bfd0":
		return m.sm.SyncBFDProfiles(map[string]*metallbconfig.BFDProfile{})
	case "setA":
		return m.s1.Set(VerifAdvCatalogue()[0].Adv())
	case "setB":
		return m.s1.Set(VerifAdvCatalogue()[0].Adv(), VerifAdvCatalogue()[7].Adv())
	case "extra1":
		return m.sm.SyncExtraInfo("! extra one")
	case "extra2":
		return m.sm.SyncExtraInfo("! extra two")
	}
	return fmt.Errorf("unknown token %s", tok)
}

func c19mExec(res *verifrt.Result, c c19mCase) {
	res.Count("evaluations", 1)
	r := newC19Run()
	defer r.close()
	viol := func(sig, detail string) {
		res.Violate(sig, detail+"\n  events: "+strings.Join(c.Tokens, " "), c)
	}
	park := func(what string) bool {
		if st, ok := verifrt.WaitParked(dbFn, 120*time.Second, "select"); !ok {
			viol("C19 debouncer does not return to waiting (deadlock or livelock) after="+what, "goroutine state "+st)
			return false
		}
		return true
	}
	if !park("start") {
		return
	}
	live, _ := c19mNew(r.reload)
	refCh := make(chan reloadEvent, 4096)
	ref, _ := c19mNew(refCh)
	latest := "" // text of the manager's current state
	doOp := func(tok string) bool {
		done := make(chan error, 1)
		go func() { done <- live.apply(tok) }()
		select {
		case err := <-done:
			if err != nil {
				viol("C19 mgr: manager operation failed op="+tok, err.Error())
				return false
			}
		case <-time.After(120 * time.Second):
			viol("C19 submitter blocked indefinitely on="+tok, "the manager call did not return")
			return false
		}
		if err := ref.apply(tok); err != nil {
			panic(err)
		}
		var last *frrConfig
		for len(refCh) > 0 {
			last = (<-refCh).config
		}
		t, err := templateConfig(last)
		if err != nil {
			panic(err)
		}
		latest = t
		return park(tok)
	}
	if !doOp("open") {
		return
	}
	step := func(tok string) bool {
		res.Count("transitions", 1)
		nsig := len(r.signals)
		if !strings.HasPrefix(tok, "fire") {
			if !doOp(tok) {
				return false
			}
			if len(r.signals) != nsig {
				viol("C19 reload attempted without a timer expiry on="+tok, "")
				return false
			}
			return true
		}
		if !r.armed() {
			return true // not offered
		}
		r.script = []bool{tok == "fire-ok"}
		r.mu.Lock()
		ch := r.timers[len(r.timers)-1]
		r.fired = len(r.timers)
		r.mu.Unlock()
		ch <- time.Time{}
		if !park(tok) {
			return false
		}
		if len(r.signals) != nsig+1 {
			viol("C19 timer expiry did not lead to exactly one reload attempt", fmt.Sprintf("%d attempts", len(r.signals)-nsig))
			return false
		}
		if r.signals[nsig] != latest {
			viol("C19 reload attempt does not carry the latest submitted configuration kind=manager-state-differs", fmt.Sprintf("attempted:\n%s\nmanager state:\n%s", r.signals[nsig], latest))
			return false
		}
		return true
	}
	for _, tok := range c.Tokens {
		if !step(tok) {
			return
		}
	}
	for i := 0; r.armed(); i++ {
		if i > 10 {
			viol("C19 timer re-armed forever although reloads succeed", "")
			return
		}
		if !step("fire-ok") {
			return
		}
	}
	last := ""
	for i, s := range r.signals {
		if r.results[i] {
			last = s
		}
	}
	if last != latest {
		kind := "an-older-configuration-stays-applied"
		if last == "" {
			kind = "nothing-was-applied"
		}
		viol("C19 last successfully applied configuration is not the latest submitted kind="+kind, fmt.Sprintf("last applied:\n%s\nlatest submitted (manager state):\n%s", last, latest))
	}
	res.Outcome(fmt.Sprintf("signals=%d", len(r.signals)))
}

func TestVerif_C19mgr(t *testing.T) {
	res := verifrt.NewResult("C19")
	defer res.Write()
	var err error
	c19Dir, err = os.MkdirTemp("", "verif-c19m-")
	if err != nil {
		t.Fatal(err)
	}
	defer os.RemoveAll(c19Dir)
	if raw, ok := verifrt.ReplayCase(); ok {
		var c c19mCase
		_ = json.Unmarshal(raw, &c)
		c19mExec(res, c)
		res.Replayed = true
		return
	}
	depth := 4
	if verifrt.Thorough() {
		depth = 6
	}
	alphabet := []string{"bfdX", "fire-ok", "bfdY", "setA", "fire-fail", "setB", "extra1", "bfd0", "extra2"}
	deadline := time.Now().Add(verifrt.Budget())
	work := 0
	cut := false
	var rec func(prefix []string)
	rec = func(prefix []string) {
		if cut {
			return
		}
		if len(prefix) == 2 {
			work++
			if !verifrt.Mine(work) {
				return
			}
		}
		if len(prefix) == depth || (len(prefix) > 0 && len(prefix) < 2 && verifrt.Shard() == 0) {
			if time.Now().After(deadline) {
				cut = true
				res.NotExhaustive("time budget reached")
				return
			}
			c := c19mCase{Tokens: append([]string{}, prefix...)}
			if work%50 == 0 {
				res.Sample(c)
			}
			c19mExec(res, c)
			res.Count("states", 1)
			res.Count("distinct_nontrivial", 1)
		}
		if len(prefix) == depth {
			return
		}
		for _, tok := range alphabet {
			if len(prefix) == 0 && strings.HasPrefix(tok, "fire") {
				continue // nothing can be armed before the first operation... the open itself arms: keep fires from depth 1
			}
			rec(append(append([]string{}, prefix...), tok))
		}
	}
	rec(nil)
	res.Info["manager_debouncer_depth"] = depth
	res.Count("traces_validated_against_impl", res.Counters["evaluations"])
}
