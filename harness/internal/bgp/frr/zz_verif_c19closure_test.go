//go:build verif

package frr

// C19, the session manager as the speaker builds it: NewSessionManager itself (its own reload closure, its own
// unbuffered channel, its own debouncer goroutine), with the reload signal scripted and the timers virtual. The
// alphabet adds what the other parts cannot produce: a submitter that arrives WHILE a reload attempt is being
// executed (the attempt's reload signal starts the submitter and waits until it is parked inside the manager, then
// succeeds or fails). Every sequence up to the depth is executed and closed with succeeding reloads: every submitter
// returns, and the file ends up holding the manager's final state.

import (
	"encoding/json"
	"errors"
	"fmt"
	"os"
	"path/filepath"
	"strings"
	"sync"
	"testing"
	"time"

	"github.com/go-kit/log"
	"go.universe.tf/metallb/internal/logging"
	"go.universe.tf/metallb/internal/verifrt"
	"go.universe.tf/metallb/internal/verifrt/vtime"
)

type c19clCase struct {
	Tokens []string `json:"events"` // extra1 extra2 fire-ok fire-fail fire-ok+extra1 fire-fail+extra1 fire-fail+extra2
}

// c19clSubmit is a named function so that the submitter goroutine can be found in the goroutine dump.
func c19clSubmit(sm *sessionManager, txt string, done chan error) {
	done <- sm.SyncExtraInfo(txt)
}

// c19clPoisoned: an execution left goroutines blocked inside the manager; the shard stops exploring (later
// executions could not tell their own debouncer from the stuck one)
var c19clPoisoned bool

func c19clExec(res *verifrt.Result, c c19clCase) {
	res.Count("evaluations", 1)
	viol := func(sig, detail string) {
		res.Violate(sig, detail+"\n  events: "+strings.Join(c.Tokens, " "), c)
	}
	file := filepath.Join(c19Dir, "frr.conf")
	os.Remove(file)
	configFileName = file
	os.Setenv("FRR_CONFIG_FILE", file)
	var mu sync.Mutex
	var timers []chan time.Time
	fired := 0
	vtime.AfterHook = func(d time.Duration) <-chan time.Time {
		ch := make(chan time.Time, 1)
		mu.Lock()
		timers = append(timers, ch)
		mu.Unlock()
		return ch
	}
	armed := func() bool {
		mu.Lock()
		defer mu.Unlock()
		return len(timers) > fired
	}
	var signals []string
	var results []bool
	ok := true          // result of the next reload signal
	during := ""        // text a concurrent submitter hands in during the next reload signal
	var pending chan error
	stuck := ""
	var sm *sessionManager
	reloadConfig = func() error {
		b, _ := os.ReadFile(file)
		signals = append(signals, string(b))
		results = append(results, ok)
		if during != "" {
			pch := make(chan error, 1)
			go c19clSubmit(sm, during, pch)
			mu.Lock()
			pending = pch
			mu.Unlock()
			// the submitter is inside the manager as far as it can get while the attempt is running
			if st, parked := verifrt.WaitParked("frr.c19clSubmit", 60*time.Second, "chan send", "sync.Mutex.Lock", "semacquire"); !parked {
				stuck = "concurrent submitter neither returned nor parked: " + st
			}
			during = ""
		}
		if !ok {
			return errors.New("verif: injected reload failure")
		}
		return nil
	}
	sm = NewSessionManager(log.NewNopLogger(), logging.LevelInfo).(*sessionManager)
	defer func() {
		if c19clPoisoned {
			return // goroutines are blocked inside the manager: closing the channel under them would panic
		}
		close(sm.reloadConfig)
		for i := 0; i < 1000 && verifrt.GoroutineState(dbFn) != ""; i++ {
			time.Sleep(20 * time.Microsecond)
		}
	}()
	park := func(what string) bool {
		if st, parked := verifrt.WaitParked(dbFn, 60*time.Second, "select"); !parked {
			viol("C19 debouncer does not return to waiting (deadlock or livelock) after="+what, "goroutine state "+st)
			c19clPoisoned = true
			return false
		}
		return true
	}
	if !park("start") {
		return
	}
	extra := "" // the manager's final state: the last extra text handed in
	wait := func(done chan error, what string) bool {
		select {
		case err := <-done:
			if err != nil {
				viol("C19 closure: manager operation failed op="+what, err.Error())
				return false
			}
		case <-time.After(60 * time.Second):
			viol("C19 submitter blocked indefinitely on="+what, "the manager call did not return")
			c19clPoisoned = true
			return false
		}
		return true
	}
	step := func(tok string) bool {
		res.Count("transitions", 1)
		if !strings.HasPrefix(tok, "fire") {
			txt := "! " + tok
			done := make(chan error, 1)
			go c19clSubmit(sm, txt, done)
			if !wait(done, tok) {
				return false
			}
			extra = txt
			return park(tok)
		}
		if !armed() {
			return true // not offered
		}
		parts := strings.SplitN(tok, "+", 2)
		ok = parts[0] == "fire-ok"
		if len(parts) == 2 {
			during = "! during-" + parts[1]
		}
		mu.Lock()
		ch := timers[fired]
		fired++
		mu.Unlock()
		nsig := len(signals)
		ch <- time.Time{}
		if len(parts) == 2 {
			// the attempt starts the submitter; once the attempt is over the submitter must get through
			var p chan error
			for dl := time.Now().Add(15 * time.Second); p == nil && time.Now().Before(dl); {
				mu.Lock()
				p, pending = pending, nil
				mu.Unlock()
				if p == nil {
					time.Sleep(10 * time.Microsecond)
				}
			}
			if p == nil {
				viol("C19 closure: timer expiry did not lead to a reload attempt", tok)
				return false
			}
			if !wait(p, tok) {
				return false
			}
			if stuck != "" {
				viol("C19 closure: "+stuck, "")
				return false
			}
			extra = "! during-" + parts[1]
		}
		if !park(tok) {
			return false
		}
		if len(signals) != nsig+1 {
			viol("C19 timer expiry did not lead to exactly one reload attempt", fmt.Sprintf("%d attempts", len(signals)-nsig))
			return false
		}
		ok = true
		return true
	}
	for _, tok := range c.Tokens {
		if !step(tok) {
			return
		}
	}
	for i := 0; armed(); i++ {
		if i > 10 {
			viol("C19 timer re-armed forever although reloads succeed", "")
			return
		}
		if !step("fire-ok") {
			return
		}
	}
	last := ""
	for i, s := range signals {
		if results[i] {
			last = s
		}
	}
	res.Outcome(fmt.Sprintf("signals=%d", len(signals)))
	if extra == "" {
		return
	}
	if !strings.Contains(last, extra) {
		kind := "an-older-configuration-stays-applied"
		if last == "" {
			kind = "nothing-was-applied"
		}
		viol("C19 last successfully applied configuration is not the latest submitted kind="+kind, fmt.Sprintf("last applied:\n%s\nlatest submitted extra text: %s", last, extra))
	}
}

func TestVerif_C19closure(t *testing.T) {
	res := verifrt.NewResult("C19")
	defer res.Write()
	var err error
	c19Dir, err = os.MkdirTemp("", "verif-c19cl-")
	if err != nil {
		t.Fatal(err)
	}
	defer os.RemoveAll(c19Dir)
	if raw, ok := verifrt.ReplayCase(); ok {
		var c c19clCase
		_ = json.Unmarshal(raw, &c)
		c19clExec(res, c)
		res.Replayed = true
		return
	}
	depth := 3
	if verifrt.Thorough() {
		depth = 5
	}
	alphabet := []string{"extra1", "fire-ok", "extra2", "fire-fail", "fire-ok+extra1", "fire-fail+extra1", "fire-fail+extra2"}
	deadline := time.Now().Add(verifrt.Budget())
	cut := false
	work := 0
	var rec func(prefix []string)
	rec = func(prefix []string) {
		if cut {
			return
		}
		if c19clPoisoned {
			cut = true
			res.NotExhaustive("stopped after an execution that left goroutines blocked")
			return
		}
		if len(prefix) == 2 {
			work++
			if !verifrt.Mine(work) {
				return
			}
		}
		if len(prefix) >= 2 || (len(prefix) == 1 && verifrt.Shard() == 0) {
			if time.Now().After(deadline) {
				cut = true
				res.NotExhaustive("time budget reached")
				return
			}
			c := c19clCase{Tokens: append([]string{}, prefix...)}
			if res.Counters["states"]%20 == 0 {
				res.Sample(c)
			}
			c19clExec(res, c)
			res.Count("states", 1)
			res.Count("distinct_nontrivial", 1)
		}
		if len(prefix) == depth {
			return
		}
		for _, tok := range alphabet {
			if len(prefix) == 0 && strings.HasPrefix(tok, "fire") {
				continue // nothing is armed before the first submission
			}
			rec(append(append([]string{}, prefix...), tok))
		}
	}
	rec(nil)
	res.Info["closure_depth"] = depth
	res.Count("traces_validated_against_impl", res.Counters["evaluations"])
}
