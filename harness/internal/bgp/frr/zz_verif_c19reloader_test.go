//go:build verif

package frr

// C19, the reload signal itself: the other parts script the package's reloadConfig hook; this one runs the REAL one (pid file
// of the reloader, SIGHUP) under the real debouncer with virtual timers. The test process plays the reloader: it
// catches SIGHUP and remembers what the configuration file held at that moment. Every sequence (up to the depth) of
// timer expiries under a pid file that is absent / unreadable as a number / valid: a configuration counts as applied only
// when the reloader was really signalled after it was written; otherwise a retry must be armed; closed with a valid
// pid file, the last configuration the reloader saw must be the latest submitted one.

import (
	"encoding/json"
	"fmt"
	"os"
	"os/signal"
	"path/filepath"
	"strings"
	"sync"
	"syscall"
	"testing"
	"time"

	"github.com/go-kit/log"
	"go.universe.tf/metallb/internal/verifrt"
	"go.universe.tf/metallb/internal/verifrt/vtime"
)

// the package's own reload action, taken before any harness replaces the hook
var c19RealReloadConfig = reloadConfig

type c19rCase struct {
	Tokens []string `json:"events"` // sA sB fire-absent fire-garbage fire-valid
}

func c19rExec(res *verifrt.Result, c c19rCase, hup chan os.Signal) {
	res.Count("evaluations", 1)
	viol := func(sig, detail string) {
		res.Violate(sig, detail+"\n  events: "+strings.Join(c.Tokens, " "), c)
	}
	file := filepath.Join(c19Dir, "frr.conf")
	pidFile := filepath.Join(c19Dir, "reloader.pid")
	os.Remove(file)
	os.Remove(pidFile)
	configFileName = file
	os.Setenv("FRR_CONFIG_FILE", file)
	os.Setenv("FRR_RELOADER_PID_FILE", pidFile)
	reloadConfig = c19RealReloadConfig
	var mu sync.Mutex
	var timers []chan time.Time
	fired := 0
	vtime.AfterHook = func(d time.Duration) <-chan time.Time {
		ch := make(chan time.Time, 1)
		mu.Lock()
		timers = append(timers, ch)
		mu.Unlock()
		return ch
	}
	armed := func() bool {
		mu.Lock()
		defer mu.Unlock()
		return len(timers) > fired
	}
	for len(hup) > 0 {
		<-hup
	}
	reload := make(chan reloadEvent)
	debouncer(func(cfg *frrConfig) error { return generateAndReloadConfigFile(cfg, log.NewNopLogger()) }, reload, 3*time.Second, 5*time.Second, log.NewNopLogger())
	defer func() {
		close(reload)
		for i := 0; i < 1000 && verifrt.GoroutineState(dbFn) != ""; i++ {
			time.Sleep(20 * time.Microsecond)
		}
	}()
	park := func(what string) bool {
		if st, ok := verifrt.WaitParked(dbFn, 60*time.Second, "select"); !ok {
			viol("C19 debouncer does not return to waiting (deadlock or livelock) after="+what, "goroutine state "+st)
			return false
		}
		return true
	}
	if !park("start") {
		return
	}
	latest := ""      // text of the latest submitted configuration
	seen := ""        // what the configuration file held when the reloader was last signalled
	step := func(tok string) bool {
		res.Count("transitions", 1)
		if strings.HasPrefix(tok, "s") {
			cfg := c19Config(tok[1:])
			done := make(chan struct{})
			go func() { reload <- reloadEvent{config: cfg}; close(done) }()
			select {
			case <-done:
			case <-time.After(60 * time.Second):
				viol("C19 submitter blocked indefinitely on="+tok, "")
				return false
			}
			t, err := templateConfig(cfg)
			if err != nil {
				panic(err)
			}
			latest = t
			return park(tok)
		}
		if !armed() {
			return true
		}
		switch tok {
		case "fire-absent":
			os.Remove(pidFile)
		case "fire-garbage":
			os.WriteFile(pidFile, []byte("not-a-pid\n"), 0o644)
		case "fire-valid":
			os.WriteFile(pidFile, []byte(fmt.Sprint(os.Getpid())), 0o644)
		}
		mu.Lock()
		ch := timers[fired]
		fired++
		mu.Unlock()
		ch <- time.Time{}
		if !park(tok) {
			return false
		}
		signalled := false
		if tok == "fire-valid" {
			select {
			case <-hup:
				signalled = true
				b, _ := os.ReadFile(file)
				seen = string(b)
			case <-time.After(30 * time.Second):
			}
		} else if len(hup) > 0 {
			<-hup
			viol("C19 reloader: signalled although the pid file names no reloader", tok)
			return false
		}
		if !signalled && !armed() {
			viol("C19 reloader: a reload attempt that did not reach the reloader is not retried state="+strings.TrimPrefix(tok, "fire-"),
				"no timer armed after an attempt during which the reloader was not signalled")
			return false
		}
		return true
	}
	for _, tok := range c.Tokens {
		if !step(tok) {
			return
		}
	}
	for i := 0; armed(); i++ {
		if i > 10 {
			viol("C19 timer re-armed forever although reloads succeed", "")
			return
		}
		if !step("fire-valid") {
			return
		}
	}
	res.Outcome(fmt.Sprintf("applied=%v", seen == latest))
	if latest != "" && seen != latest {
		kind := "an-older-configuration-stays-applied"
		if seen == "" {
			kind = "nothing-was-applied"
		}
		viol("C19 reloader: the configuration the reloader was last told to load is not the latest submitted kind="+kind, fmt.Sprintf("reloader saw:\n%s\nlatest:\n%s", seen, latest))
	}
}

func TestVerif_C19reloader(t *testing.T) {
	res := verifrt.NewResult("C19")
	defer res.Write()
	var err error
	c19Dir, err = os.MkdirTemp("", "verif-c19r-")
	if err != nil {
		t.Fatal(err)
	}
	defer os.RemoveAll(c19Dir)
	hup := make(chan os.Signal, 64)
	signal.Notify(hup, syscall.SIGHUP)
	defer signal.Stop(hup)
	if raw, ok := verifrt.ReplayCase(); ok {
		var c c19rCase
		_ = json.Unmarshal(raw, &c)
		c19rExec(res, c, hup)
		res.Replayed = true
		return
	}
	depth := 4
	if verifrt.Thorough() {
		depth = 6
	}
	alphabet := []string{"sA", "fire-valid", "sB", "fire-absent", "fire-garbage"}
	var rec func(prefix []string)
	rec = func(prefix []string) {
		if len(prefix) > 0 {
			c := c19rCase{Tokens: append([]string{}, prefix...)}
			if res.Counters["states"]%20 == 0 {
				res.Sample(c)
			}
			c19rExec(res, c, hup)
			res.Count("states", 1)
			res.Count("distinct_nontrivial", 1)
		}
		if len(prefix) == depth {
			return
		}
		for _, tok := range alphabet {
			if len(prefix) == 0 && strings.HasPrefix(tok, "fire") {
				continue
			}
			rec(append(append([]string{}, prefix...), tok))
		}
	}
	rec(nil)
	res.Info["reloader_depth"] = depth
	res.Count("traces_validated_against_impl", res.Counters["evaluations"])
}
