//go:build verif

package frr

// C19, concurrent submitters: the session manager's methods (Set, Close, NewSession, SyncBFDProfiles,
// SyncExtraInfo) are called from several goroutines of the speaker (service, configuration and node
// handlers run on different workers). Every interleaving (preemption-bounded) of two or three submitters is
// executed on the real sessionManager under the controlled scheduler - its mutex (R-sync) and its sends on the
// reload channel (R-chan) are the scheduling points - and the configuration carried by the LAST reload event
// must be the one that reflects every completed call: the debouncer applies whatever it received last, so a
// submission that overtakes a newer one means an older configuration is applied after a newer one was submitted.

import (
	"encoding/json"
	"fmt"
	"strings"
	"testing"
	"time"

	"github.com/go-kit/log"
	"go.universe.tf/metallb/internal/bgp"
	metallbconfig "go.universe.tf/metallb/internal/config"
	"go.universe.tf/metallb/internal/verifrt"
)

type c19cOp struct {
	Kind    string `json:"kind"` // set, close, open, bfd, extra
	Session int    `json:"session,omitempty"`
	AdvSet  int    `json:"adv_set,omitempty"`
}

type c19cProgram struct {
	Name    string     `json:"name"`
	Open    []int      `json:"sessions_open_at_start"`
	Threads [][]c19cOp `json:"threads"`
}

type c19cCase struct {
	Program  c19cProgram `json:"program"`
	Schedule []int       `json:"schedule"`
}

var c19cAdvSets = [][]int{{}, {0}, {1}, {0, 1}, {2}}

func c19cPrograms() []c19cProgram {
	set := func(s, a int) c19cOp { return c19cOp{Kind: "set", Session: s, AdvSet: a} }
	return []c19cProgram{
		{"two sessions, one Set each", []int{0, 1}, [][]c19cOp{{set(0, 1)}, {set(1, 2)}}},
		{"one session set twice against another session", []int{0, 1}, [][]c19cOp{{set(0, 1), set(0, 3)}, {set(1, 2)}}},
		{"Set against Close", []int{0, 1}, [][]c19cOp{{set(0, 1)}, {{Kind: "close", Session: 1}}}},
		{"Set against NewSession", []int{0}, [][]c19cOp{{set(0, 1)}, {{Kind: "open", Session: 1}}}},
		{"Set against BFD profiles against extra info", []int{0}, [][]c19cOp{{set(0, 1)}, {{Kind: "bfd"}}, {{Kind: "extra"}}}},
		{"three sessions", []int{0, 1, 2}, [][]c19cOp{{set(0, 1)}, {set(1, 2)}, {set(2, 4)}}},
	}
}

type c19cRun struct {
	sm     *sessionManager
	events []string // rendered configuration of every reload event, in channel order
	errs   []string
}

func c19cNewManager() *sessionManager {
	return &sessionManager{sessions: map[string]*session{}, bfdProfiles: []BFDProfile{}, reloadConfig: make(chan reloadEvent, 4096), logLevel: "informational"}
}

func c19cApply(sm *sessionManager, open map[int]bgp.Session, op c19cOp) error {
	cat, advs := VerifSessionCatalogue(), VerifAdvCatalogue()
	switch op.Kind {
	case "set":
		var as []*bgp.Advertisement
		for _, ai := range c19cAdvSets[op.AdvSet] {
			as = append(as, advs[ai].Adv())
		}
		return open[op.Session].Set(as...)
	case "close":
		return open[op.Session].Close()
	case "open":
		s, err := sm.NewSession(log.NewNopLogger(), cat[op.Session].Params)
		if err == nil {
			open[op.Session] = s
		}
		return err
	case "bfd":
		rx := uint32(300)
		return sm.SyncBFDProfiles(map[string]*metallbconfig.BFDProfile{"fast": {Name: "fast", ReceiveInterval: &rx}})
	case "extra":
		return sm.SyncExtraInfo("! extra line")
	}
	return nil
}

func c19cDrain(sm *sessionManager) []string {
	var out []string
	for {
		select {
		case ev := <-sm.reloadConfig:
			txt, err := templateConfig(ev.config)
			if err != nil {
				txt = "TEMPLATE ERROR " + err.Error()
			}
			out = append(out, txt)
		default:
			return out
		}
	}
}

// c19cExec runs the program; under the scheduler the threads are scheduler threads, otherwise (reference) the
// operations run serially, thread after thread.
func c19cExec(p c19cProgram) *c19cRun {
	r := &c19cRun{sm: c19cNewManager()}
	cat := VerifSessionCatalogue()
	open := map[int]bgp.Session{}
	for _, si := range p.Open {
		s, err := r.sm.NewSession(log.NewNopLogger(), cat[si].Params)
		if err != nil {
			panic(err)
		}
		open[si] = s
	}
	c19cDrain(r.sm)
	s := verifrt.CurSched()
	remaining := 0
	for ti, th := range p.Threads {
		th := th
		body := func() {
			for _, op := range th {
				if err := c19cApply(r.sm, open, op); err != nil {
					r.errs = append(r.errs, err.Error())
				}
			}
		}
		if s == nil {
			body()
			continue
		}
		remaining++
		verifrt.Go(fmt.Sprintf("submitter%d", ti), func() { body(); remaining-- })
	}
	if s != nil {
		s.Yield(func() bool { return remaining == 0 }, "join")
	}
	r.events = c19cDrain(r.sm)
	return r
}

func TestVerif_C19conc(t *testing.T) {
	res := verifrt.NewResult("C19")
	defer res.Write()
	mkSched := func() *verifrt.Sched { return &verifrt.Sched{Horizon: 2000, Daemon: map[string]bool{}} }
	check := func(p c19cProgram, r *c19cRun, s *verifrt.Sched, want string) {
		c := c19cCase{Program: p, Schedule: append([]int{}, s.Trace...)}
		viol := func(sig, detail string) {
			res.Violate(sig, detail+"\n  program: "+p.Name+"\n  schedule: "+s.Describe(), c)
		}
		if s.Deadlock {
			viol("C19 conc: submitters blocked (deadlock)", "")
			return
		}
		if len(r.errs) > 0 {
			viol("C19 conc: a submitter failed", strings.Join(r.errs, "; "))
			return
		}
		if len(r.events) == 0 {
			viol("C19 conc: no reload event", "")
			return
		}
		last := r.events[len(r.events)-1]
		res.Outcome(fmt.Sprintf("events=%d", len(r.events)))
		if last != want {
			kind := "differs"
			for _, e := range r.events[:len(r.events)-1] {
				if e == want {
					kind = "an-older-configuration-arrives-after-the-newest"
				}
			}
			viol("C19 conc: the last reload event does not carry the configuration of the final state kind="+kind,
				fmt.Sprintf("last event:\n%s\nfinal state:\n%s", last, want))
		}
	}
	if raw, ok := verifrt.ReplayCase(); ok {
		var c c19cCase
		if err := json.Unmarshal(raw, &c); err != nil {
			t.Fatal(err)
		}
		ref := c19cExec(c.Program)
		want := ref.events[len(ref.events)-1]
		for i := 0; i < 5; i++ {
			s := mkSched()
			s.Prefix = c.Schedule
			var r *c19cRun
			s.Run(func() { r = c19cExec(c.Program) })
			check(c.Program, r, s, want)
		}
		res.Replayed = true
		return
	}
	bound := 2
	if verifrt.Thorough() {
		bound = 4
	}
	deadline := time.Now().Add(verifrt.Budget())
	for pi, p := range c19cPrograms() {
		p := p
		// reference: the operations touch disjoint parts of the state, so every serial order ends in the same state
		ref := c19cExec(p)
		if len(ref.events) == 0 {
			t.Fatalf("program %s: the serial run produced no event", p.Name)
		}
		want := ref.events[len(ref.events)-1]
		var r *c19cRun
		for b := 0; b <= bound; b++ {
			st := verifrt.Explore(b, deadline, mkSched, func(s *verifrt.Sched) { r = c19cExec(p) }, func(s *verifrt.Sched) {
				res.Count("executions", 1)
				res.Count("transitions", int64(len(s.Trace)))
				if res.Counters["executions"]%500 == 1 {
					res.Sample(map[string]interface{}{"program": p.Name, "schedule": s.Describe()})
				}
				check(p, r, s, want)
			}, func(k int) bool { return verifrt.Mine(k + pi) })
			if st.Cut {
				res.NotExhaustive("time budget in program " + p.Name)
				break
			}
		}
	}
	res.Info["preemption_bound_submitters"] = bound
	res.Count("states", res.Counters["executions"])
	res.Count("traces_validated_against_impl", res.Counters["executions"])
	res.Count("distinct_nontrivial", res.Counters["executions"])
}
