//go:build verif

package frr

// C14 - the generated FRR configuration, interpreted with FRR's semantics,
// offers each neighbor exactly what was requested. ENUM over session sets x
// advertisement multisets x creation/Set orders x owned map orders.

import (
	"encoding/json"
	"fmt"
	"sort"
	"strings"
	"testing"

	"go.universe.tf/metallb/internal/verifrt"
)

type c14Case struct {
	Sessions    []int   `json:"sessions"`     // indices into the session catalogue
	AdvSets     [][]int `json:"adv_sets"`     // per session: indices into the advertisement catalogue
	PreAdvSets  [][]int `json:"adv_sets_set_before,omitempty"` // per session: a Set call made before the final one
	CreateOrder []int   `json:"create_order"` // permutation
	SetOrder    []int   `json:"set_order"`
	MapOrder    []int   `json:"map_order_choices,omitempty"`
	Names       []string `json:"names,omitempty"`
}

var c14AdvSets = [][]int{{}, {0}, {1}, {2}, {3}, {4}, {5}, {6}, {0, 1}, {2, 1}, {0, 3, 4}, {3, 7}, {2, 5, 6}, {3, 8}, {0, 4}, {1, 5}, {8, 3, 0}}

func (c *c14Case) build() []VerifSession {
	cat, advs := VerifSessionCatalogue(), VerifAdvCatalogue()
	var out []VerifSession
	for i, si := range c.Sessions {
		s := cat[si]
		for _, ai := range c.AdvSets[i] {
			s.Advs = append(s.Advs, advs[ai].Adv())
		}
		if c.PreAdvSets != nil {
			s.HasPre = true
			for _, ai := range c.PreAdvSets[i] {
				s.PreAdvs = append(s.PreAdvs, advs[ai].Adv())
			}
		}
		out = append(out, s)
	}
	return out
}

func identity(n int) []int {
	p := make([]int, n)
	for i := range p {
		p[i] = i
	}
	return p
}

func c14Universe(sessions []VerifSession) []string {
	set := map[string]bool{"10.9.9.9/32": true, "fc00:9::9/128": true}
	for _, it := range VerifAdvCatalogue() {
		set[it.Pfx] = true
	}
	var out []string
	for p := range set {
		out = append(out, p)
	}
	sort.Strings(out)
	return out
}

func c14Features(sessions []VerifSession) string {
	var f []string
	for _, s := range sessions {
		seen := map[string]int{}
		bases := map[string]map[string]bool{}
		for _, a := range s.Advs {
			seen[a.Prefix.String()]++
			b := a.Prefix.IP.String()
			if bases[b] == nil {
				bases[b] = map[string]bool{}
			}
			bases[b][a.Prefix.String()] = true
		}
		for _, n := range seen {
			if n > 1 {
				f = append(f, "repeated-prefix")
			}
		}
		for _, m := range bases {
			if len(m) > 1 {
				f = append(f, "prefixes-sharing-a-base-address")
			}
		}
		if s.Params.DisableMP {
			f = append(f, "disable-mp")
		}
	}
	if len(sessions) > 1 {
		f = append(f, fmt.Sprintf("neighbors=%d", len(sessions)))
	}
	sort.Strings(f)
	var u []string
	for i, x := range f {
		if i == 0 || f[i-1] != x {
			u = append(u, x)
		}
	}
	return strings.Join(u, ",")
}

func c14Check(res *verifrt.Result, c *c14Case) string {
	res.Count("evaluations", 1)
	sessions := c.build()
	for _, s := range sessions {
		if _, inc := VerifRequested(s); inc {
			return "" // one prefix with two local preferences on one session: outside the alphabet
		}
	}
	var text string
	var err error
	verifrt.RunWithChoices(c.MapOrder, []string{"maporder"}, func(*verifrt.Chooser) {
		text, _, err = VerifRender(sessions, c.CreateOrder, c.SetOrder)
	})
	if err != nil {
		res.Violate("C14 generation fails on a valid session set", err.Error(), c)
		return ""
	}
	res.Count("programs", 1)
	feat := c14Features(sessions)
	universe := c14Universe(sessions)
	got, problems := VerifFRRMeaning(text, sessions, universe)
	for _, p := range problems {
		res.Violate("C14 "+strings.SplitN(p, ":", 2)[0]+" ["+feat+"]", p+"\n"+text, c)
	}
	if got == nil {
		return text
	}
	res.Count("disagreements_checked", int64(len(universe)*len(sessions)))
	cfg, _ := VerifParse(text)
	// per neighbor: offered == requested (in the activated families), with the requested attributes
	wantNets := map[string]map[string]bool{}
	for _, s := range sessions {
		req, _ := VerifRequested(s)
		rk := fmt.Sprintf("%d|%s|%v", s.Params.MyASN, s.Params.VRFName, s.Params.RouterID)
		if wantNets[rk] == nil {
			wantNets[rk] = map[string]bool{}
		}
		for p := range req {
			wantNets[rk][p] = true
		}
		for _, pfx := range universe {
			want, requested := req[pfx]
			if requested && !VerifActivated(s.Params, family(pfx)) {
				requested = false
			}
			g, offered := got[s.Name][pfx]
			switch {
			case requested && !offered:
				res.Violate("C14 requested prefix not offered to its neighbor ["+feat+"]", fmt.Sprintf("%s: %s requested (%v) but the out route-map rejects it\n%s", s.Name, pfx, want, text), c)
			case !requested && offered:
				res.Violate("C14 prefix offered to a neighbor that did not request it ["+feat+"]", fmt.Sprintf("%s: %s offered (%v)\n%s", s.Name, pfx, g, text), c)
			case requested && offered && g.String() != want.String():
				kind := "communities"
				if g.LocalPref != want.LocalPref {
					kind = "local-pref"
				} else if fmt.Sprint(g.Large) != fmt.Sprint(want.Large) {
					kind = "large-communities"
				}
				res.Violate("C14 offered attributes differ kind="+kind+" ["+feat+"]", fmt.Sprintf("%s: %s offered with %v, requested %v\n%s", s.Name, pfx, g, want, text), c)
			}
		}
	}
	// per router: network statements == union of requested prefixes
	for _, r := range cfg.Routers {
		got := map[string]bool{}
		for fam, nets := range r.Networks {
			for _, n := range nets {
				if got[n] {
					res.Violate("C14 duplicate network statement", n, c)
				}
				if family(n) != fam {
					res.Violate("C14 network statement in the wrong address family", n+" in "+fam, c)
				}
				got[n] = true
			}
		}
		rid := "<nil>"
		if r.RouterID != "" {
			rid = r.RouterID
		}
		rk := fmt.Sprintf("%s|%s|%s", r.ASN, r.VRF, rid)
		want := wantNets[rk]
		if fmt.Sprint(sortedKeys(got)) != fmt.Sprint(sortedKeys(want)) {
			res.Violate("C14 router originates other than the union of requested prefixes ["+feat+"]", fmt.Sprintf("router %s: network %v, requested %v\n%s", rk, sortedKeys(got), sortedKeys(want), text), c)
		}
		delete(wantNets, rk)
	}
	for rk, w := range wantNets {
		if len(w) > 0 {
			res.Violate("C14 router block missing", rk, c)
		}
	}
	// session parameters on the right neighbor
	for _, s := range sessions {
		for _, r := range cfg.Routers {
			n := r.Neighbors[neighborID(s.Params)]
			if n == nil || r.VRF != s.Params.VRFName {
				continue
			}
			p := s.Params
			exp := map[string]string{}
			if p.PeerPort != 0 {
				exp["port"] = fmt.Sprint(p.PeerPort)
			}
			if p.HoldTime != nil && p.KeepAliveTime != nil {
				exp["timers"] = fmt.Sprintf("%d %d", int(p.KeepAliveTime.Seconds()), int(p.HoldTime.Seconds()))
			}
			if p.ConnectTime != nil {
				exp["timers-connect"] = fmt.Sprint(int(p.ConnectTime.Seconds()))
			}
			if p.Password != "" {
				exp["password"] = p.Password
			}
			if p.SourceAddress != nil {
				exp["update-source"] = p.SourceAddress.String()
			}
			if p.EBGPMultiHop {
				exp["ebgp-multihop"] = "true"
			}
			if p.GracefulRestart {
				exp["graceful-restart"] = "true"
			}
			if p.BFDProfile != "" {
				exp["bfd-profile"] = p.BFDProfile
				exp["bfd"] = "true"
			}
			for k, v := range exp {
				if n.Props[k] != v {
					res.Violate("C14 session parameter missing or wrong param="+k, fmt.Sprintf("%s: %s = %q, requested %q\n%s", s.Name, k, n.Props[k], v, text), c)
				}
			}
			for k, v := range n.Props {
				if _, ok := exp[k]; !ok && k != "disable-connected-check" {
					res.Violate("C14 session parameter not requested param="+k, fmt.Sprintf("%s: %s = %q\n%s", s.Name, k, v, text), c)
				}
			}
			wantAS := fmt.Sprint(p.PeerASN)
			if p.DynamicASN != "" {
				wantAS = p.DynamicASN
			}
			if n.RemoteAS != wantAS || n.Interface != (p.PeerInterface != "") {
				res.Violate("C14 neighbor declared with the wrong ASN or kind", fmt.Sprintf("%s: remote-as %s interface=%v", s.Name, n.RemoteAS, n.Interface), c)
			}
			for _, fam := range []string{"ipv4", "ipv6"} {
				if n.Activated[fam] != VerifActivated(p, fam) {
					res.Violate("C14 per-family activation differs from the DisableMP rule", fmt.Sprintf("%s: %s activated=%v", s.Name, fam, n.Activated[fam]), c)
				}
			}
		}
	}
	res.Outcome(fmt.Sprintf("neighbors=%d features=%s", len(sessions), feat))
	return text
}

func isIdentity(p []int) bool {
	for i, x := range p {
		if i != x {
			return false
		}
	}
	return true
}

func isReverse(p []int) bool {
	for i, x := range p {
		if x != len(p)-1-i {
			return false
		}
	}
	return true
}

func sortedKeys(m map[string]bool) []string {
	var out []string
	for k := range m {
		out = append(out, k)
	}
	sort.Strings(out)
	return out
}

func TestVerif_C14(t *testing.T) {
	res := verifrt.NewResult("C14")
	defer res.Write()
	if raw, ok := verifrt.ReplayCase(); ok {
		var c c14Case
		if err := json.Unmarshal(raw, &c); err != nil {
			t.Fatal(err)
		}
		ref := c
		ref.CreateOrder, ref.SetOrder, ref.MapOrder = identity(len(c.Sessions)), identity(len(c.Sessions)), nil
		t0 := c14Check(res, &ref)
		if t1 := c14Check(res, &c); t1 != t0 {
			res.Violate("C14 text depends on creation/Set/map order", "differs", c)
		}
		res.Replayed = true
		return
	}
	cat := VerifSessionCatalogue()
	thorough := verifrt.Thorough()
	var distinct int64
	runSet := func(sess []int, advChoices [][]int) {
		k := len(sess)
		idx := make([]int, k)
		for {
			c := &c14Case{Sessions: sess, CreateOrder: identity(k), SetOrder: identity(k)}
			for i := range sess {
				c.AdvSets = append(c.AdvSets, advChoices[idx[i]])
				c.Names = append(c.Names, cat[sess[i]].Name)
			}
			res.Sample(c)
			t0 := c14Check(res, c)
			distinct++
			if t0 != "" && k > 1 {
				// determinism: every creation order x every Set order, and every explored map order
				verifrt.Perms(k, func(cp []int) {
					cpc := append([]int{}, cp...)
					verifrt.Perms(k, func(sp []int) {
						if !thorough && k > 2 && !isIdentity(cpc) && !isIdentity(sp) && !isReverse(sp) {
							return // quick tier, 3 neighbors: each order varied against the identity / the reversal of the other
						}
						cc := *c
						cc.CreateOrder, cc.SetOrder = cpc, append([]int{}, sp...)
						sessions := cc.build()
						text, _, err := VerifRender(sessions, cc.CreateOrder, cc.SetOrder)
						res.Count("evaluations", 1)
						if err != nil || text != t0 {
							res.Violate("C14 text depends on the creation or Set order ["+c14Features(sessions)+"]", fmt.Sprintf("create %v set %v: err=%v", cc.CreateOrder, cc.SetOrder, err), cc)
						}
					})
				})
				verifrt.ExploreChoices(1, []string{"maporder"}, func(ch *verifrt.Chooser) {
					sessions := c.build()
					text, _, err := VerifRender(sessions, c.CreateOrder, c.SetOrder)
					res.Count("evaluations", 1)
					if err != nil || text != t0 {
						cc := *c
						cc.MapOrder = append([]int{}, ch.Trace...)
						verifrt.SetChooser(nil)
						res.Violate("C14 text depends on map iteration order ["+c14Features(sessions)+"]", fmt.Sprintf("map order %v: err=%v", cc.MapOrder, err), cc)
						verifrt.SetChooser(ch)
					}
				}, nil)
			}
			// next assignment
			j := 0
			for j < k {
				idx[j]++
				if idx[j] < len(advChoices) {
					break
				}
				idx[j] = 0
				j++
			}
			if j == k {
				break
			}
		}
	}
	reduced := [][]int{{}, {1}, {8}, {0, 3, 4}, {2, 5, 6}, {3, 8}}
	work := 0
	// histories of two Set calls on one session: the text must mean what the final Set requested
	for i := range cat {
		work++
		if !verifrt.Mine(work) {
			continue
		}
		for _, pre := range c14AdvSets {
			for _, fin := range c14AdvSets {
				c := &c14Case{Sessions: []int{i}, AdvSets: [][]int{fin}, PreAdvSets: [][]int{pre}, CreateOrder: identity(1), SetOrder: identity(1), Names: []string{cat[i].Name}}
				skip := false
				for _, s := range c.build() {
					if _, inc := VerifRequested(VerifSession{Advs: s.PreAdvs}); inc {
						skip = true
					}
				}
				if skip {
					continue
				}
				c14Check(res, c)
				distinct++
			}
		}
	}
	for i := range cat {
		work++
		if verifrt.Mine(work) {
			runSet([]int{i}, c14AdvSets)
		}
	}
	for i := range cat {
		for j := i + 1; j < len(cat); j++ {
			work++
			if !verifrt.Mine(work) {
				continue
			}
			if thorough {
				runSet([]int{i, j}, c14AdvSets)
			} else {
				runSet([]int{i, j}, c14AdvSets[:12])
			}
		}
	}
	for i := range cat {
		for j := i + 1; j < len(cat); j++ {
			for k := j + 1; k < len(cat); k++ {
				work++
				if !verifrt.Mine(work) {
					continue
				}
				if !thorough && (i+j+k)%6 != 0 {
					continue
				}
				runSet([]int{i, j, k}, reduced)
			}
		}
	}
	res.Count("distinct_nontrivial", distinct)
}
