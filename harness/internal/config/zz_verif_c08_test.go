//go:build verif

package config

// C08 - accepted configuration is sound (ENUM over a notation catalogue, against
// the refcidr reference model). See DESIGN.md section 5/C08.

import (
	"encoding/json"
	"fmt"
	"math/big"
	"net"
	"sort"
	"strings"
	"testing"

	metallbv1beta1 "go.universe.tf/metallb/api/v1beta1"
	"go.universe.tf/metallb/internal/verifrt"
	"go.universe.tf/metallb/internal/verifrt/refcidr"
	corev1 "k8s.io/api/core/v1"
	metav1 "k8s.io/apimachinery/pkg/apis/meta/v1"
	"k8s.io/utils/ptr"
)

type c08Entry struct {
	S     string `json:"s"`
	Class string `json:"class"`
}

func v4(i int) string { // window 10.0.0.248 .. 10.0.1.7 (crosses a /24 boundary)
	x := 248 + i
	return fmt.Sprintf("10.0.%d.%d", x/256, x%256)
}
func v4b(i int) string { // window 10.0.255.252 .. 10.1.0.3 (crosses a /16 boundary)
	x := 255*256 + 252 + i
	return fmt.Sprintf("10.%d.%d.%d", x/65536, (x/256)%256, x%256)
}
func v6(i int) string { // window fc00::fff8 .. fc00::1:7
	x := 0xfff8 + i
	if x > 0xffff {
		return fmt.Sprintf("fc00::1:%x", x-0x10000)
	}
	return fmt.Sprintf("fc00::%x", x)
}

// c08Catalogue generates the address-entry catalogue from the grammar of DESIGN 5/C08.
func c08Catalogue(thorough bool) []c08Entry {
	var out []c08Entry
	add := func(class, s string) { out = append(out, c08Entry{s, class}) }
	// IPv4 CIDRs /28../32 on every address of the window (aligned and non-aligned host bits)
	for i := 0; i < 16; i++ {
		for l := 28; l <= 32; l++ {
			add("cidr4", fmt.Sprintf("%s/%d", v4(i), l))
		}
	}
	for _, w := range []string{"10.0.0.0/24", "10.0.1.0/24", "10.0.0.0/23", "10.0.0.0/16", "10.0.0.0/8", "0.0.0.0/0", "10.0.0.128/25", "10.0.255.252/30", "10.1.0.0/30", "10.0.255.0/24", "10.1.0.0/16"} {
		add("cidr4-wide", w)
	}
	// every inclusive range of the window
	for i := 0; i < 16; i++ {
		for j := i; j < 16; j++ {
			add("range4", v4(i)+"-"+v4(j))
		}
	}
	for i := 0; i < 8; i += 3 {
		for j := i; j < 8; j += 2 {
			add("range4", v4b(i)+"-"+v4b(j))
		}
	}
	add("range4", v4b(0)+"-"+v4b(7))
	// spaces, inverted
	add("range4-spaces", v4(2)+" - "+v4(9))
	add("range4-spaces", " "+v4(3)+"-"+v4(3)+" ")
	add("range4-spaces", v4(7)+"  -"+v4(8))
	add("range4-inverted", v4(9)+"-"+v4(2))
	add("range4-inverted", v4(8)+"-"+v4(7))
	// IPv4-mapped notation
	for _, i := range []int{0, 5, 8, 12} {
		for _, l := range []int{124, 125, 126, 127, 128} {
			add("cidr-mapped", fmt.Sprintf("::ffff:%s/%d", v4(i), l))
		}
	}
	add("cidr-mapped", "::ffff:10.0.0.0/120")
	add("cidr-mapped", "::ffff:10.0.1.0/120")
	add("cidr-mapped", "::ffff:10.0.0.128/121")
	add("cidr-mapped", "::ffff:10.0.0.0/104")
	add("cidr-mapped", "::ffff:0.0.0.0/96")
	add("range-mapped", "::ffff:"+v4(2)+"-"+v4(6))
	add("range-mapped", v4(4)+"-::ffff:"+v4(10))
	add("range-mapped", "::ffff:"+v4(7)+"-::ffff:"+v4(8))
	add("range-mapped", "::ffff:"+v4(0)+"-::ffff:"+v4(15))
	// mixed-family ranges
	add("range-mixed", v4(2)+"-fc00::1")
	add("range-mixed", "fc00::1-"+v4(2))
	add("range-mixed", "::1-"+v4(2))
	add("range-mixed", v4(2)+"-::ffff:ffff:ffff")
	// IPv6
	for i := 0; i < 16; i++ {
		for l := 124; l <= 128; l++ {
			add("cidr6", fmt.Sprintf("%s/%d", v6(i), l))
		}
	}
	for _, w := range []string{"fc00::/64", "fc00::/112", "fc00::1:0/112", "fc00::/16", "fc00::/96", "8000::/1"} {
		add("cidr6-wide", w)
	}
	for i := 4; i < 12; i++ {
		for j := i; j < 12; j++ {
			add("range6", v6(i)+"-"+v6(j))
		}
	}
	add("range6-spaces", v6(5)+" - "+v6(9))
	add("range6-inverted", v6(9)+"-"+v6(5))
	// garbage
	for _, g := range []string{"", "10.0.0.1", "10.0.0.1/33", "10.0.0.1/-1", "fc00::1/129", "10.0.0.1-", "-10.0.0.1", "10.0.0.1-10.0.0.2-10.0.0.3", "a-b", "10.0.0.256/24", "10.0.0.1/24/3"} {
		add("garbage", g)
	}
	return out
}

func c08Sub(cat []c08Entry) []c08Entry {
	// the sub-catalogue for triples / node checks: one or two representatives per shape
	pick := map[string]bool{}
	for _, s := range []string{
		"10.0.0.248/29", "10.0.1.0/29", "10.0.0.252/30", "10.0.0.255/32", "10.0.1.0/32", "10.0.0.0/24", "10.0.1.0/24", "10.0.0.0/23", "10.0.0.128/25",
		v4(0) + "-" + v4(15), v4(4) + "-" + v4(9), v4(7) + "-" + v4(8), v4(8) + "-" + v4(8), v4(0) + "-" + v4(7), v4(8) + "-" + v4(15), v4(6) + "-" + v4(6),
		"::ffff:10.0.0.0/120", "::ffff:10.0.1.0/120", "::ffff:" + v4(8) + "/125", "::ffff:10.0.0.128/121", "::ffff:" + v4(2) + "-" + v4(6), "::ffff:" + v4(7) + "-::ffff:" + v4(8),
		v4(2) + " - " + v4(9), v4(2) + "-fc00::1",
		"fc00::fff8/125", "fc00::1:0/125", "fc00::/112", "fc00::1:0/112", "fc00::/64", v6(4) + "-" + v6(11), v6(7) + "-" + v6(8), v6(8) + "/128", "fc00::ffff/128",
		"10.0.0.0/16", "10.0.255.252/30", "10.1.0.0/30", v4b(0) + "-" + v4b(7), "0.0.0.0/0", "fc00::/96",
	} {
		pick[s] = true
	}
	var out []c08Entry
	for _, e := range cat {
		if pick[e.S] {
			out = append(out, e)
			delete(pick, e.S)
		}
	}
	if len(pick) != 0 {
		panic(fmt.Sprint("sub-catalogue entries missing from the catalogue: ", pick))
	}
	return out
}

func c08Pool(name string, lbl map[string]string, addrs ...string) metallbv1beta1.IPAddressPool {
	return metallbv1beta1.IPAddressPool{ObjectMeta: metav1.ObjectMeta{Name: name, Namespace: "metallb-system", Labels: lbl},
		Spec: metallbv1beta1.IPAddressPoolSpec{Addresses: addrs}}
}

type c08Case struct {
	Kind      string                             `json:"kind"`
	Resources ClusterResources                   `json:"resources"`
	Classes   []string                           `json:"classes,omitempty"`
	Validate  string           `json:"validate,omitempty"`
}

type bigInt = big.Int

var bigOne = big.NewInt(1)

func c08Validator(name string) Validate {
	switch name {
	case "frr":
		return DiscardNativeOnly
	case "native":
		return DiscardFRROnly
	}
	return DontValidate
}

type c08Checker struct {
	res      *verifrt.Result
	distinct map[string]bool
}

func refOfEntries(entries []string) (refcidr.Set, []refcidr.Set, error) {
	var all refcidr.Set
	var parts []refcidr.Set
	for _, e := range entries {
		s, err := refcidr.ParseEntry(e)
		if err != nil {
			return nil, nil, fmt.Errorf("%q: %w", e, err)
		}
		parts = append(parts, s)
		all = refcidr.Union(all, s)
	}
	return all, parts, nil
}

// checkPools is the oracle shared by all parts: every accepted configuration is
// judged on pool sets, disjointness and node IPs.
func (ck *c08Checker) checkPools(c c08Case) (accepted bool, cfg *Config) {
	ck.res.Count("evaluations", 1)
	cfg, err := For(c.Resources, c08Validator(c.Validate))
	if err != nil {
		ck.res.Outcome(c.Kind + ":rejected")
		return false, nil
	}
	ck.res.Outcome(c.Kind + ":accepted")
	cls := strings.Join(c.Classes, "+")
	got := map[string]refcidr.Set{}
	var names []string
	for _, p := range c.Resources.Pools {
		names = append(names, p.Name)
		pool := cfg.Pools.ByName[p.Name]
		if pool == nil {
			ck.res.Violate("accepted-pool-missing-from-config", fmt.Sprintf("pool %s absent from accepted config", p.Name), c)
			return true, cfg
		}
		ref, _, rerr := refOfEntries(p.Spec.Addresses)
		if rerr != nil {
			sig := "accepted-entry-the-reference-rejects reason=" + strings.TrimSpace(rerr.Error()[strings.LastIndex(rerr.Error(), ":")+1:])
			ck.res.Violate(sig, fmt.Sprintf("pool %s addresses %q accepted (CIDRs %v) but the entry is not a valid address set: %v", p.Name, p.Spec.Addresses, pool.CIDR, rerr), c)
			return true, cfg
		}
		g, gerr := refcidr.FromNets(pool.CIDR)
		if gerr != nil {
			ck.res.Violate("returned-cidr-uninterpretable notations="+cls, fmt.Sprintf("pool %s: %v", p.Name, gerr), c)
			return true, cfg
		}
		got[p.Name] = g
		if !refcidr.Equal(g, ref) {
			ck.res.Violate("pool-set-differs-from-written notations="+cls,
				fmt.Sprintf("pool %s wrote %q = %v but the accepted pool holds %v (CIDRs %v)", p.Name, p.Spec.Addresses, ref, g, pool.CIDR), c)
		}
		// per entry: CIDRs disjoint and of one family
		for _, addr := range p.Spec.Addresses {
			var parts []refcidr.Set
			var u refcidr.Set
			for _, n := range pool.cidrsPerAddresses[addr] {
				s, err := refcidr.FromNet(n)
				if err != nil {
					continue
				}
				parts = append(parts, s)
				u = refcidr.Union(u, s)
			}
			if refcidr.Overlapping(parts) {
				ck.res.Violate("entry-cidrs-overlap", fmt.Sprintf("entry %q expands to overlapping CIDRs %v", addr, pool.cidrsPerAddresses[addr]), c)
			}
			if len(u) > 0 && !u.IsV4() && !u.IsV6() {
				ck.res.Violate("entry-mixes-families", fmt.Sprintf("entry %q covers both families: %v", addr, u), c)
			}
		}
	}
	sort.Strings(names)
	for i := range names {
		for j := i + 1; j < len(names); j++ {
			if refcidr.Intersects(got[names[i]], got[names[j]]) {
				ck.res.Violate("overlapping-pools-accepted between="+overlapKinds(cfg.Pools.ByName[names[i]].CIDR, cfg.Pools.ByName[names[j]].CIDR),
					fmt.Sprintf("pools %s=%v and %s=%v overlap but the configuration was accepted", names[i], got[names[i]], names[j], got[names[j]]), c)
			}
		}
	}
	for _, n := range c.Resources.Nodes {
		for _, a := range n.Status.Addresses {
			if a.Type != corev1.NodeInternalIP {
				continue
			}
			ip := net.ParseIP(a.Address)
			if ip == nil {
				continue
			}
			for _, pn := range names {
				if got[pn].ContainsIP(ip) {
					fam := "v6"
					if ip.To4() != nil {
						fam = "v4"
					}
					ck.res.Violate("node-internal-ip-inside-accepted-pool family="+fam+" pool-cidr="+containingKind(cfg.Pools.ByName[pn].CIDR, ip),
						fmt.Sprintf("node %s internal IP %s lies in pool %s=%v", n.Name, a.Address, pn, got[pn]), c)
				}
			}
		}
	}
	return true, cfg
}

// netKind classifies a returned CIDR by representation (the cause feature of overlap misses).
func netKind(n *net.IPNet) string {
	switch {
	case len(n.Mask) == net.IPv4len:
		return "v4"
	case n.IP.To4() != nil:
		return "v4-with-128bit-mask"
	default:
		return "v6"
	}
}

func overlapKinds(a, b []*net.IPNet) string {
	for _, x := range a {
		for _, y := range b {
			sx, _ := refcidr.FromNet(x)
			sy, _ := refcidr.FromNet(y)
			if refcidr.Intersects(sx, sy) {
				k := []string{netKind(x), netKind(y)}
				sort.Strings(k)
				rel := "partial"
				if refcidr.Equal(sx, sy) {
					rel = "equal"
				} else if refcidr.Subset(sx, sy) || refcidr.Subset(sy, sx) {
					rel = "nested"
				}
				return k[0] + "/" + k[1] + " relation=" + rel
			}
		}
	}
	return "?"
}

func containingKind(ns []*net.IPNet, ip net.IP) string {
	for _, n := range ns {
		if s, err := refcidr.FromNet(n); err == nil && s.ContainsIP(ip) {
			return netKind(n)
		}
	}
	return "?"
}

func c08Node(name string, lbl map[string]string, addrs ...corev1.NodeAddress) corev1.Node {
	return corev1.Node{ObjectMeta: metav1.ObjectMeta{Name: name, Labels: lbl}, Status: corev1.NodeStatus{Addresses: addrs}}
}

func TestVerif_C08(t *testing.T) {
	res := verifrt.NewResult("C08")
	defer res.Write()
	ck := &c08Checker{res: res, distinct: map[string]bool{}}
	cat := c08Catalogue(verifrt.Thorough())
	sub := c08Sub(cat)
	res.Info["catalogue_entries"] = len(cat)
	res.Info["sub_catalogue_entries"] = len(sub)

	if raw, ok := verifrt.ReplayCase(); ok {
		var c c08Case
		if err := json.Unmarshal(raw, &c); err != nil {
			t.Fatal(err)
		}
		c08Replay(ck, c)
		res.Replayed = true
		return
	}
	distinct := int64(0)
	work := 0
	mine := func() bool { work++; return verifrt.Mine(work) }

	// (1) every single entry
	if mine() {
		for _, e := range cat {
			for _, val := range []string{"none", "frr"} {
				c := c08Case{Kind: "single", Classes: []string{e.Class}, Validate: val, Resources: ClusterResources{Pools: []metallbv1beta1.IPAddressPool{c08Pool("p1", nil, e.S)}}}
				res.Sample(c.Resources.Pools[0].Spec.Addresses)
				ck.checkPools(c)
				distinct++
			}
		}
	}
	// (2) every ordered pair as two pools and as two entries of one pool
	for i, e1 := range cat {
		if !mine() {
			continue
		}
		for _, e2 := range cat {
			c := c08Case{Kind: "pair-two-pools", Classes: []string{e1.Class, e2.Class}, Resources: ClusterResources{Pools: []metallbv1beta1.IPAddressPool{c08Pool("p1", nil, e1.S), c08Pool("p2", nil, e2.S)}}}
			ck.checkPools(c)
			c = c08Case{Kind: "pair-one-pool", Classes: []string{e1.Class, e2.Class}, Resources: ClusterResources{Pools: []metallbv1beta1.IPAddressPool{c08Pool("p1", nil, e1.S, e2.S)}}}
			ck.checkPools(c)
			distinct += 2
		}
		_ = i
	}
	// triples from the sub-catalogue (quick: pools p1,p2,p3 each one entry; thorough also 2+1 layouts)
	for _, e1 := range sub {
		if !mine() {
			continue
		}
		for _, e2 := range sub {
			for _, e3 := range sub {
				c := c08Case{Kind: "triple-three-pools", Classes: []string{e1.Class, e2.Class, e3.Class}, Resources: ClusterResources{Pools: []metallbv1beta1.IPAddressPool{
					c08Pool("p1", nil, e1.S), c08Pool("p2", nil, e2.S), c08Pool("p3", nil, e3.S)}}}
				ck.checkPools(c)
				distinct++
				if verifrt.Thorough() {
					c = c08Case{Kind: "triple-2+1", Classes: []string{e1.Class, e2.Class, e3.Class}, Resources: ClusterResources{Pools: []metallbv1beta1.IPAddressPool{
						c08Pool("p1", nil, e1.S, e2.S), c08Pool("p2", nil, e3.S)}}}
					ck.checkPools(c)
					distinct++
				}
			}
		}
	}
	// (3) node internal IPs in / out of each pool
	var nodeIPs []string
	for i := 0; i < 16; i += 1 {
		nodeIPs = append(nodeIPs, v4(i))
	}
	for _, i := range []int{0, 7, 8, 15} {
		nodeIPs = append(nodeIPs, "::ffff:"+v4(i), v6(i))
	}
	nodeIPs = append(nodeIPs, "10.0.0.1", "10.0.0.200", "10.0.255.253", "10.1.0.1", "192.168.0.1", "fc00::1", "fc00::1:3", "fd00::1", "not-an-ip")
	for _, e := range sub {
		if !mine() {
			continue
		}
		for _, e2 := range append([]c08Entry{{"", ""}}, sub[0], sub[24], sub[30]) {
			for _, ip := range nodeIPs {
				for _, typ := range []corev1.NodeAddressType{corev1.NodeInternalIP, corev1.NodeExternalIP} {
					for layout := 0; layout < 3; layout++ {
						var nodes []corev1.Node
						na := corev1.NodeAddress{Type: typ, Address: ip}
						other4 := corev1.NodeAddress{Type: corev1.NodeInternalIP, Address: "172.16.0.1"}
						other6 := corev1.NodeAddress{Type: corev1.NodeInternalIP, Address: "fd00::99"}
						switch layout {
						case 0:
							nodes = []corev1.Node{c08Node("n1", nil, na)}
						case 1: // second address of the second node
							nodes = []corev1.Node{c08Node("n1", nil, other4, other6), c08Node("n2", nil, other4, na)}
						case 2: // after an address of the other family
							nodes = []corev1.Node{c08Node("n1", nil, other6, other4, na)}
						}
						addrs := []string{e.S}
						cls := []string{e.Class}
						if e2.S != "" {
							addrs = append(addrs, e2.S)
							cls = append(cls, e2.Class)
						}
						c := c08Case{Kind: "node-ip", Classes: cls, Resources: ClusterResources{Pools: []metallbv1beta1.IPAddressPool{c08Pool("p1", nil, addrs...)}, Nodes: nodes}}
						ck.checkPools(c)
						distinct++
					}
				}
			}
		}
	}
	// (4) advertisement attachment, (5) aggregation containment, (6) local-pref conflicts
	if mine() {
		distinct += c08Attachment(ck)
	}
	if mine() {
		distinct += c08Aggregation(ck)
	}
	for part := 0; part < 4; part++ {
		if mine() {
			distinct += c08LocalPref(ck, part)
		}
	}
	if mine() {
		distinct += c08LocalPref3(ck)
	}
	res.Count("distinct_nontrivial", distinct)
}

func c08Replay(ck *c08Checker, c c08Case) {
	switch c.Kind {
	case "attach":
		c08CheckAttachment(ck, c)
	case "aggregation":
		c08CheckAggregation(ck, c)
	case "localpref":
		c08CheckLocalPref(ck, c)
	default:
		ck.checkPools(c)
	}
}

// ---------- (4) attachment ----------

func lsel(k, v string) metav1.LabelSelector {
	return metav1.LabelSelector{MatchLabels: map[string]string{k: v}}
}

func subsets[T any](in []T, max int) [][]T {
	var out [][]T
	n := len(in)
	for m := 0; m < 1<<n; m++ {
		var s []T
		for i := 0; i < n; i++ {
			if m&(1<<i) != 0 {
				s = append(s, in[i])
			}
		}
		if len(s) <= max {
			out = append(out, s)
		}
	}
	return out
}

func c08Attachment(ck *c08Checker) int64 {
	pools := []metallbv1beta1.IPAddressPool{
		c08Pool("pa", map[string]string{"grp": "0"}, "10.0.1.0/24"),
		c08Pool("pb", map[string]string{"grp": "1"}, "10.0.2.0/24", "fc00:2::/64"),
		c08Pool("pc", map[string]string{"grp": "0", "x": "y"}, "10.0.3.10-10.0.3.20"),
		c08Pool("pd", nil, "10.0.4.0/28"), // no labels at all
	}
	nodes := []corev1.Node{c08Node("n0", map[string]string{"rack": "0"}), c08Node("n1", map[string]string{"rack": "1"}), c08Node("n2", map[string]string{"rack": "0", "z": "1"}), c08Node("n3", nil)}
	named := subsets([]string{"pa", "pb", "pc", "missing"}, 2)
	psel := subsets([]metav1.LabelSelector{lsel("grp", "0"), lsel("grp", "1"), lsel("grp", "none"),
		lexp("grp", metav1.LabelSelectorOpNotIn, "0"), lexp("grp", metav1.LabelSelectorOpDoesNotExist), lexp("x", metav1.LabelSelectorOpExists),
		lexp("grp", metav1.LabelSelectorOpIn, "1", "2"), {}}, 2)
	nsel := subsets([]metav1.LabelSelector{lsel("rack", "0"), lsel("rack", "1"), lsel("rack", "none"), lsel("z", "1"),
		lexp("rack", metav1.LabelSelectorOpNotIn, "0"), lexp("rack", metav1.LabelSelectorOpDoesNotExist), {}}, 2)
	var n int64
	for _, nm := range named {
		for _, ps := range psel {
			for _, ns := range nsel {
				for _, proto := range []string{"l2", "bgp", "both"} {
					r := ClusterResources{Pools: pools, Nodes: nodes}
					if proto != "bgp" {
						r.L2Advs = []metallbv1beta1.L2Advertisement{{ObjectMeta: metav1.ObjectMeta{Name: "l2a"}, Spec: metallbv1beta1.L2AdvertisementSpec{
							IPAddressPools: nm, IPAddressPoolSelectors: ps, NodeSelectors: ns, Interfaces: []string{"eth0"}}},
							// a second advertisement that selects everything, to check it does not disturb the first
							{ObjectMeta: metav1.ObjectMeta{Name: "l2all"}, Spec: metallbv1beta1.L2AdvertisementSpec{Interfaces: []string{"eth7"}}},
							// a third one with the interfaces of the first and every node (a superset of whatever the first selects):
							// another advertisement, attached next to the first
							{ObjectMeta: metav1.ObjectMeta{Name: "l2b-same-interfaces-all-nodes"}, Spec: metallbv1beta1.L2AdvertisementSpec{
								IPAddressPools: nm, IPAddressPoolSelectors: ps, Interfaces: []string{"eth0"}}}}
					}
					if proto != "l2" {
						bns := ns
						if proto == "both" && len(ns) == 2 {
							// next to an L2 advertisement with two selectors (either one), a BGP advertisement with ONE selector
							// that demands both: the two lists print alike when joined by commas but select different nodes
							bns = []metav1.LabelSelector{c08MergeSelectors(ns[0], ns[1])}
						}
						r.BGPAdvs = []metallbv1beta1.BGPAdvertisement{{ObjectMeta: metav1.ObjectMeta{Name: "bgpa"}, Spec: metallbv1beta1.BGPAdvertisementSpec{
							IPAddressPools: nm, IPAddressPoolSelectors: ps, NodeSelectors: bns, LocalPref: 7}},
							{ObjectMeta: metav1.ObjectMeta{Name: "bgpall"}, Spec: metallbv1beta1.BGPAdvertisementSpec{LocalPref: 7}}}
					}
					c := c08Case{Kind: "attach", Resources: r}
					c08CheckAttachment(ck, c)
					n++
				}
			}
		}
	}
	return n
}

// matchSel: reference evaluation of a list of label selectors (any of them) on a label set: matchLabels and
// matchExpressions (In, NotIn, Exists, DoesNotExist) all have to hold; the empty selector selects everything;
// NotIn and DoesNotExist hold for an object without the label (Kubernetes label-selector semantics).
func matchSel(sels []metav1.LabelSelector, lbl map[string]string) bool {
	for _, s := range sels {
		ok := true
		for k, v := range s.MatchLabels {
			if got, has := lbl[k]; !has || got != v {
				ok = false
			}
		}
		for _, e := range s.MatchExpressions {
			got, has := lbl[e.Key]
			in := false
			for _, v := range e.Values {
				if has && v == got {
					in = true
				}
			}
			switch e.Operator {
			case metav1.LabelSelectorOpIn:
				ok = ok && in
			case metav1.LabelSelectorOpNotIn:
				ok = ok && !in
			case metav1.LabelSelectorOpExists:
				ok = ok && has
			case metav1.LabelSelectorOpDoesNotExist:
				ok = ok && !has
			}
		}
		if ok {
			return true
		}
	}
	return false
}

func c08MergeSelectors(a, b metav1.LabelSelector) metav1.LabelSelector {
	out := metav1.LabelSelector{MatchLabels: map[string]string{}}
	for _, x := range []metav1.LabelSelector{a, b} {
		for k, v := range x.MatchLabels {
			out.MatchLabels[k] = v
		}
		out.MatchExpressions = append(out.MatchExpressions, x.MatchExpressions...)
	}
	if len(out.MatchLabels) == 0 {
		out.MatchLabels = nil
	}
	return out
}

func lexp(k string, op metav1.LabelSelectorOperator, vals ...string) metav1.LabelSelector {
	return metav1.LabelSelector{MatchExpressions: []metav1.LabelSelectorRequirement{{Key: k, Operator: op, Values: vals}}}
}

func c08CheckAttachment(ck *c08Checker, c c08Case) {
	ok, cfg := ck.checkPools(c)
	if !ok {
		// this sub-universe contains only valid resources: rejection is outside the statement, but is counted
		ck.res.Count("attach_rejected", 1)
		return
	}
	expPools := func(named []string, sels []metav1.LabelSelector) map[string]bool {
		out := map[string]bool{}
		for _, p := range c.Resources.Pools {
			if len(named) == 0 && len(sels) == 0 {
				out[p.Name] = true
				continue
			}
			for _, n := range named {
				if n == p.Name {
					out[p.Name] = true
				}
			}
			if matchSel(sels, p.Labels) {
				out[p.Name] = true
			}
		}
		return out
	}
	expNodes := func(sels []metav1.LabelSelector) string {
		var out []string
		for _, n := range c.Resources.Nodes {
			if len(sels) == 0 || matchSel(sels, n.Labels) {
				out = append(out, n.Name)
			}
		}
		sort.Strings(out)
		return strings.Join(out, ",")
	}
	nodesOf := func(m map[string]bool) string {
		var out []string
		for n, v := range m {
			if v {
				out = append(out, n)
			}
		}
		sort.Strings(out)
		return strings.Join(out, ",")
	}
	for _, p := range c.Resources.Pools {
		pool := cfg.Pools.ByName[p.Name]
		// L2
		exp := map[string]bool{}
		for _, a := range c.Resources.L2Advs {
			if expPools(a.Spec.IPAddressPools, a.Spec.IPAddressPoolSelectors)[p.Name] {
				exp[fmt.Sprintf("if=%v nodes=%s", a.Spec.Interfaces, expNodes(a.Spec.NodeSelectors))] = true
			}
		}
		got := map[string]bool{}
		for _, a := range pool.L2Advertisements {
			got[fmt.Sprintf("if=%v nodes=%s", a.Interfaces, nodesOf(a.Nodes))] = true
			if a.AllInterfaces != (len(a.Interfaces) == 0) {
				ck.res.Violate("l2adv-allinterfaces-flag-wrong", fmt.Sprintf("pool %s adv %+v", p.Name, a), c)
			}
		}
		if fmt.Sprint(keys(exp)) != fmt.Sprint(keys(got)) {
			ck.res.Violate("l2-advertisement-attachment-differs", fmt.Sprintf("pool %s: expected L2 advertisements %v, got %v", p.Name, keys(exp), keys(got)), c)
		}
		// BGP
		exp = map[string]bool{}
		for _, a := range c.Resources.BGPAdvs {
			if expPools(a.Spec.IPAddressPools, a.Spec.IPAddressPoolSelectors)[p.Name] {
				exp[fmt.Sprintf("%s nodes=%s", a.Name, expNodes(a.Spec.NodeSelectors))] = true
			}
		}
		got = map[string]bool{}
		for _, a := range pool.BGPAdvertisements {
			got[fmt.Sprintf("%s nodes=%s", a.Name, nodesOf(a.Nodes))] = true
		}
		if fmt.Sprint(keys(exp)) != fmt.Sprint(keys(got)) {
			ck.res.Violate("bgp-advertisement-attachment-differs", fmt.Sprintf("pool %s: expected BGP advertisements %v, got %v", p.Name, keys(exp), keys(got)), c)
		}
	}
}

func keys(m map[string]bool) []string {
	var out []string
	for k := range m {
		out = append(out, k)
	}
	sort.Strings(out)
	return out
}

// ---------- (5) aggregation containment ----------

func c08Aggregation(ck *c08Checker) int64 {
	var n int64
	v4pools := [][]string{{"10.0.0.248/29"}, {"10.0.1.0/24"}, {"10.0.0.252/30", "10.0.2.0/24"}, {"10.0.0.255/32"}, {"10.0.0.0/16"}, {"10.0.1.7/28"}, {"0.0.0.0/0"}, {"10.0.0.0/8", "192.168.1.128/25"}}
	v6pools := [][]string{{"fc00::fff8/125"}, {"fc00::/64"}, {"fc00::/112", "fc00:1::/48"}, {"fc00::1/128"}, {"fc00::/7"}}
	for _, addrs := range v4pools {
		for l := 0; l <= 32; l++ {
			for _, attach := range []string{"named", "all", "selector"} {
				n++
				c08CheckAggregation(ck, c08AggCase(addrs, l, 128, attach))
			}
		}
	}
	for _, addrs := range v6pools {
		for l := 0; l <= 128; l++ {
			for _, attach := range []string{"named", "all"} {
				n++
				c08CheckAggregation(ck, c08AggCase(addrs, 32, l, attach))
			}
		}
	}
	// dual-stack pools: both lengths vary over boundary values
	for _, l4 := range []int{0, 23, 24, 25, 28, 29, 30, 32} {
		for _, l6 := range []int{0, 63, 64, 65, 111, 112, 113, 124, 125, 126, 128} {
			for _, addrs := range [][]string{{"10.0.1.0/24", "fc00::/64"}, {"fc00::/112", "10.0.0.248/29"}, {"10.0.0.252/30", "fc00::fff8/125", "10.0.2.0/24"}} {
				n++
				c08CheckAggregation(ck, c08AggCase(addrs, l4, l6, "named"))
			}
		}
	}
	return n
}

func c08AggCase(addrs []string, l4, l6 int, attach string) c08Case {
	adv := metallbv1beta1.BGPAdvertisement{ObjectMeta: metav1.ObjectMeta{Name: "adv"}, Spec: metallbv1beta1.BGPAdvertisementSpec{
		AggregationLength: ptr.To(int32(l4)), AggregationLengthV6: ptr.To(int32(l6))}}
	switch attach {
	case "named":
		adv.Spec.IPAddressPools = []string{"p1"}
	case "selector":
		adv.Spec.IPAddressPoolSelectors = []metav1.LabelSelector{lsel("grp", "0")}
	}
	return c08Case{Kind: "aggregation", Resources: ClusterResources{
		Pools:   []metallbv1beta1.IPAddressPool{c08Pool("p1", map[string]string{"grp": "0"}, addrs...), c08Pool("other", nil, "172.31.0.0/24")},
		BGPAdvs: []metallbv1beta1.BGPAdvertisement{adv}}}
}

func c08CheckAggregation(ck *c08Checker, c c08Case) {
	ok, cfg := ck.checkPools(c)
	if !ok {
		return
	}
	pool := cfg.Pools.ByName["p1"]
	if len(pool.BGPAdvertisements) == 0 {
		ck.res.Violate("aggregation: advertisement not attached", "adv missing on p1", c)
		return
	}
	for _, adv := range pool.BGPAdvertisements {
		for _, entry := range c.Resources.Pools[0].Spec.Addresses {
			cidr, err := refcidr.ParseEntry(entry)
			if err != nil {
				continue
			}
			l := adv.AggregationLength
			fam := "v4"
			if cidr.IsV6() {
				l = adv.AggregationLengthV6
				fam = "v6"
			} else {
				l += 96
			}
			// first, last and a middle address of the CIDR
			lo, hi := cidr[0].Lo, cidr[0].Hi
			mid := new(bigInt).Add(lo, hi)
			mid.Rsh(mid, 1)
			for _, x := range []*bigInt{lo, mid, hi} {
				host := uint(128 - l)
				alo := new(bigInt).Rsh(x, host)
				alo.Lsh(alo, host)
				ahi := new(bigInt).Add(alo, new(bigInt).Lsh(bigOne, host))
				ahi.Sub(ahi, bigOne)
				if !refcidr.Subset(refcidr.Set{{Lo: alo, Hi: ahi}}, cidr) {
					ck.res.Violate("aggregate-escapes-pool-cidr family="+fam,
						fmt.Sprintf("advertisement with aggregation length %d/%d accepted on pool CIDR %s: the aggregate of %s is %s-%s, not inside the CIDR",
							adv.AggregationLength, adv.AggregationLengthV6, entry, refcidr.IntIP(x), refcidr.IntIP(alo), refcidr.IntIP(ahi)), c)
				}
			}
		}
	}
}

// ---------- (6) local preference conflicts ----------

func c08LocalPref(ck *c08Checker, part int) int64 {
	var n int64
	nodes := []corev1.Node{c08Node("n0", map[string]string{"rack": "0"}), c08Node("n1", map[string]string{"rack": "1"})}
	peerLists := [][]string{nil, {"p1"}, {"p2"}, {"p1", "p2"}}
	nodeSels := [][]metav1.LabelSelector{nil, {lsel("rack", "0")}, {lsel("rack", "1")}, {lsel("rack", "none")}}
	poolAddrs := [][]string{{"10.0.1.0/24"}, {"fc00::/64"}, {"10.0.1.0/24", "fc00::/64"}, {"fc00::/64", "10.0.1.0/24"}}[part]
	type lens struct{ l4, l6 int }
	lenss := []lens{{32, 128}, {24, 128}, {32, 64}, {24, 64}}
	for _, lp := range [][2]uint32{{100, 200}, {100, 100}, {0, 5}} {
		for _, pl1 := range peerLists {
			for _, pl2 := range peerLists {
				for _, ns1 := range nodeSels {
					for _, ns2 := range nodeSels {
						for _, la := range lenss {
							for _, lb := range lenss {
								for _, attach := range []string{"named", "all", "mixed"} {
									mk := func(name string, lpv uint32, pl []string, ns []metav1.LabelSelector, l lens, named bool) metallbv1beta1.BGPAdvertisement {
										a := metallbv1beta1.BGPAdvertisement{ObjectMeta: metav1.ObjectMeta{Name: name}, Spec: metallbv1beta1.BGPAdvertisementSpec{
											AggregationLength: ptr.To(int32(l.l4)), AggregationLengthV6: ptr.To(int32(l.l6)), LocalPref: lpv, Peers: pl, NodeSelectors: ns}}
										if named {
											a.Spec.IPAddressPools = []string{"p1"}
										}
										return a
									}
									a1 := mk("adv1", lp[0], pl1, ns1, la, attach != "all")
									a2 := mk("adv2", lp[1], pl2, ns2, lb, attach == "named")
									c := c08Case{Kind: "localpref", Resources: ClusterResources{
										Pools: []metallbv1beta1.IPAddressPool{c08Pool("p1", nil, poolAddrs...)}, Nodes: nodes,
										BGPAdvs: []metallbv1beta1.BGPAdvertisement{a1, a2}}}
									c08CheckLocalPref(ck, c)
									n++
								}
							}
						}
					}
				}
			}
		}
	}
	return n
}

func c08CheckLocalPref(ck *c08Checker, c c08Case) {
	ok, _ := ck.checkPools(c)
	if !ok {
		return
	}
	advs := c.Resources.BGPAdvs
	for i := range advs {
		for j := i + 1; j < len(advs); j++ {
			c08CheckLocalPrefPair(ck, c, advs[i].Spec, advs[j].Spec, len(advs))
		}
	}
}

func c08CheckLocalPrefPair(ck *c08Checker, c c08Case, a, b metallbv1beta1.BGPAdvertisementSpec, nadvs int) {
	if a.LocalPref == b.LocalPref {
		return
	}
	// common node?
	commonNode := false
	for _, n := range c.Resources.Nodes {
		if (len(a.NodeSelectors) == 0 || matchSel(a.NodeSelectors, n.Labels)) && (len(b.NodeSelectors) == 0 || matchSel(b.NodeSelectors, n.Labels)) {
			commonNode = true
		}
	}
	commonPeer := len(a.Peers) == 0 || len(b.Peers) == 0
	for _, p := range a.Peers {
		for _, q := range b.Peers {
			if p == q {
				commonPeer = true
			}
		}
	}
	if !commonNode || !commonPeer {
		return
	}
	hasV4, hasV6 := false, false
	for _, e := range c.Resources.Pools[0].Spec.Addresses {
		s, err := refcidr.ParseEntry(e)
		if err != nil {
			continue
		}
		if s.IsV4() {
			hasV4 = true
		} else {
			hasV6 = true
		}
	}
	if hasV4 && *a.AggregationLength == *b.AggregationLength {
		ck.res.Violate(fmt.Sprintf("conflicting-localpref-accepted family=v4 advertisements=%d", nadvs), fmt.Sprintf("advertisements with local-pref %d and %d, common node and peer, equal IPv4 aggregation length %d on a pool with IPv4 addresses were accepted",
			a.LocalPref, b.LocalPref, *a.AggregationLength), c)
	}
	if hasV6 && *a.AggregationLengthV6 == *b.AggregationLengthV6 {
		ck.res.Violate(fmt.Sprintf("conflicting-localpref-accepted family=v6 advertisements=%d", nadvs), fmt.Sprintf("advertisements with local-pref %d and %d, common node and peer, equal IPv6 aggregation length %d on a pool with IPv6 addresses were accepted",
			a.LocalPref, b.LocalPref, *a.AggregationLengthV6), c)
	}
}

// c08LocalPref3: ordered triples of advertisements on one pool (a conflict may hide behind a third one).
func c08LocalPref3(ck *c08Checker) int64 {
	var n int64
	nodes := []corev1.Node{c08Node("n0", map[string]string{"rack": "0"}), c08Node("n1", map[string]string{"rack": "1"})}
	var alphabet []metallbv1beta1.BGPAdvertisementSpec
	for _, lp := range []uint32{100, 200} {
		for _, ns := range [][]metav1.LabelSelector{{lsel("rack", "0")}, {lsel("rack", "1")}} {
			for _, pl := range [][]string{nil, {"p1"}} {
				for _, l := range [][2]int32{{32, 128}, {24, 128}} {
					alphabet = append(alphabet, metallbv1beta1.BGPAdvertisementSpec{AggregationLength: ptr.To(l[0]), AggregationLengthV6: ptr.To(l[1]),
						LocalPref: lp, Peers: pl, NodeSelectors: ns, IPAddressPools: []string{"p1"}})
				}
			}
		}
	}
	for _, poolAddrs := range [][]string{{"10.0.1.0/24"}, {"10.0.1.0/24", "fc00::/64"}} {
		for _, a := range alphabet {
			for _, b := range alphabet {
				for _, d := range alphabet {
					c := c08Case{Kind: "localpref", Resources: ClusterResources{
						Pools: []metallbv1beta1.IPAddressPool{c08Pool("p1", nil, poolAddrs...)}, Nodes: nodes,
						BGPAdvs: []metallbv1beta1.BGPAdvertisement{
							{ObjectMeta: metav1.ObjectMeta{Name: "adv1"}, Spec: a}, {ObjectMeta: metav1.ObjectMeta{Name: "adv2"}, Spec: b}, {ObjectMeta: metav1.ObjectMeta{Name: "adv3"}, Spec: d}}}}
					c08CheckLocalPref(ck, c)
					n++
				}
			}
		}
	}
	return n
}
