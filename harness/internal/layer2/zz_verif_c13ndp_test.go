//go:build verif

package layer2

// C13, NDP group membership: a node can only answer a neighbor solicitation that reaches it, and solicitations are
// sent to the solicited-node multicast group of the target (low 24 bits of the address). The real announcer with a
// real NDP responder (ICMPv6 listener on a local interface; skipped with a note where none can be opened) is driven
// through every history of announce / withdraw operations over addresses chosen so that two different addresses
// fall into ONE group; after every operation the interface's membership of each group (read from the kernel,
// /proc/net/igmp6) must be "joined" iff some announced address maps to the group.

import (
	"bufio"
	"encoding/hex"
	"encoding/json"
	"fmt"
	"net"
	"os"
	"strings"
	"syscall"
	"testing"

	"github.com/go-kit/log"
	"github.com/mdlayher/ndp"
	"go.universe.tf/metallb/internal/verifrt"
)

var c13nIPs = []string{"fd00:a::12:3456", "fd00:b::12:3456", "fd00:a::77:1"} // the first two share a solicited-node group

type c13nOp struct {
	Kind string `json:"k"` // set | del
	Svc  int    `json:"svc"`
	IP   int    `json:"ip,omitempty"`
}

type c13nCase struct {
	Interface string   `json:"interface"`
	Ops       []c13nOp `json:"ops"`
	Readable  []string `json:"readable"`
}

func c13nGroups(ifname string) map[string]bool {
	out := map[string]bool{}
	f, err := os.Open("/proc/net/igmp6")
	if err != nil {
		return out
	}
	defer f.Close()
	sc := bufio.NewScanner(f)
	for sc.Scan() {
		fs := strings.Fields(sc.Text())
		if len(fs) >= 3 && fs[1] == ifname {
			out[fs[2]] = true
		}
	}
	return out
}

func c13nGroupHex(ip string) string {
	g, err := ndp.SolicitedNodeMulticast(net.ParseIP(ip))
	if err != nil {
		panic(err)
	}
	return hex.EncodeToString(g.To16())
}

func c13nInterface() *net.Interface {
	ifs, _ := net.Interfaces()
	for _, ifi := range ifs {
		ifi := ifi
		if ifi.Flags&net.FlagUp == 0 || ifi.Flags&net.FlagMulticast == 0 || ifi.Flags&net.FlagLoopback != 0 {
			continue
		}
		a, err := New(log.NewNopLogger(), nil)
		if err != nil {
			continue
		}
		closeFn, err := a.VerifAddNDPResponder(&ifi, ifi.Index)
		if err != nil {
			continue
		}
		closeFn()
		return &ifi
	}
	return nil
}

func c13nExec(res *verifrt.Result, ifi *net.Interface, c c13nCase) (key string, ok bool) {
	res.Count("evaluations", 1)
	a, err := New(log.NewNopLogger(), nil)
	if err != nil {
		panic(err)
	}
	a.VerifSetInterfaces([]string{ifi.Name})
	closeFn, err := a.VerifAddNDPResponder(ifi, ifi.Index)
	if err != nil {
		panic(err)
	}
	defer closeFn()
	held := map[int]int{} // svc -> ip index
	for i, op := range c.Ops {
		res.Count("transitions", 1)
		name := fmt.Sprintf("ns/s%d", op.Svc+1)
		if op.Kind == "set" {
			if cur, ok := held[op.Svc]; ok && cur != op.IP {
				a.DeleteBalancer(name) // the layer-2 controller withdraws before announcing another address
			}
			a.SetBalancer(name, IPAdvertisement{ip: net.ParseIP(c13nIPs[op.IP]), allInterfaces: true})
			held[op.Svc] = op.IP
		} else {
			a.DeleteBalancer(name)
			delete(held, op.Svc)
		}
		a.VerifDrainSpam()
		joined := c13nGroups(ifi.Name)
		for _, probe := range []int{0, 2} { // one representative address per group
			g := c13nGroupHex(c13nIPs[probe])
			want := false
			var users []string
			for s, ipi := range held {
				if c13nGroupHex(c13nIPs[ipi]) == g {
					want = true
					users = append(users, fmt.Sprintf("s%d=%s", s+1, c13nIPs[ipi]))
				}
			}
			if joined[g] != want {
				kind := "joined although no announced address needs the group"
				if want {
					kind = "left although an announced address still needs the group"
				}
				res.Violate("C13 ndp: solicited-node group membership wrong kind="+kind,
					fmt.Sprintf("after operation %d (%s): group %s joined=%v, announced addresses in the group: %v\n  history: %s", i+1, c.Readable[i], g, joined[g], users, strings.Join(c.Readable, " ; ")), c)
				return "", false
			}
		}
	}
	res.Outcome(fmt.Sprintf("held=%d", len(held)))
	return fmt.Sprintf("held=%v refcnt=%s groups=%s", held, a.VerifDump(), a.VerifNDPGroups(ifi.Index)), true
}

func TestVerif_C13ndp(t *testing.T) {
	res := verifrt.NewResult("C13")
	defer res.Write()
	// group membership is kernel state of the interface, shared by every process: runs of this part are serialised
	if lk, err := os.OpenFile(os.TempDir()+"/.verif-c13ndp.lock", os.O_CREATE|os.O_RDWR, 0o600); err == nil {
		defer lk.Close()
		_ = syscall.Flock(int(lk.Fd()), syscall.LOCK_EX)
		defer syscall.Flock(int(lk.Fd()), syscall.LOCK_UN)
	}
	ifi := c13nInterface()
	if ifi == nil {
		res.Info["ndp_part"] = "skipped: no local interface on which an ICMPv6 listener can be opened (needs CAP_NET_RAW and an interface with a link-local IPv6 address)"
		return
	}
	res.Info["ndp_part_interface"] = ifi.Name
	base := c13nGroups(ifi.Name)
	for _, ip := range c13nIPs {
		if base[c13nGroupHex(ip)] {
			res.Info["ndp_part"] = "skipped: the interface already belongs to the solicited-node group of a test address"
			return
		}
	}
	if raw, ok := verifrt.ReplayCase(); ok {
		var c c13nCase
		if err := json.Unmarshal(raw, &c); err != nil {
			t.Fatal(err)
		}
		c13nExec(res, ifi, c)
		res.Replayed = true
		return
	}
	depth := 6
	if verifrt.Thorough() {
		depth = 12
	}
	var alphabet []c13nOp
	for s := 0; s < 2; s++ {
		for ip := range c13nIPs {
			alphabet = append(alphabet, c13nOp{Kind: "set", Svc: s, IP: ip})
		}
		alphabet = append(alphabet, c13nOp{Kind: "del", Svc: s})
	}
	readable := func(op c13nOp) string {
		if op.Kind == "del" {
			return fmt.Sprintf("withdraw s%d", op.Svc+1)
		}
		return fmt.Sprintf("announce s%d %s", op.Svc+1, c13nIPs[op.IP])
	}
	// the kernel state is shared by every process: this part runs in one process (shard 0)
	if !verifrt.Mine(0) {
		return
	}
	// explicit-state BFS: a state is (announced addresses, use counts, the responder's group bookkeeping); successor =
	// replay of the shortest history on a fresh announcer + fresh listener, plus one operation; stops at the fixpoint
	type hist struct {
		ops []c13nOp
		rd  []string
	}
	seen := map[string]bool{}
	frontier := []hist{{}}
	fix := true
	for len(frontier) > 0 {
		h := frontier[0]
		frontier = frontier[1:]
		if len(h.ops) >= depth {
			fix = false
			continue
		}
		for _, op := range alphabet {
			nh := hist{append(append([]c13nOp{}, h.ops...), op), append(append([]string{}, h.rd...), readable(op))}
			key, ok := c13nExec(res, ifi, c13nCase{Interface: ifi.Name, Ops: nh.ops, Readable: nh.rd})
			if ok && !seen[key] {
				seen[key] = true
				res.Count("states", 1)
				res.Count("distinct_nontrivial", 1)
				frontier = append(frontier, nh)
			}
		}
	}
	res.Info["ndp_part_fixpoint_reached"] = fix
	res.Info["ndp_part_depth"] = depth
	res.Count("traces_validated_against_impl", res.Counters["evaluations"])
}
