//go:build verif

package layer2

// C13, unsolicited announcements: the REAL spam loop of the announcer runs (real goroutine, real ticker of 1.1 s) over
// two in-memory ARP responders. Each scenario is a short history of announce / re-announce / withdraw operations,
// followed by the announcement of a "clock" address; the scenario is judged once the clock address has been
// announced three more times (two ticks of the loop have passed for certain). No frame may have been sent, after the
// loop has taken the history's last advertisement, for an address on an interface that no currently announced service
// covers - an ordering argument, not a timing one: advertisements reach the loop in order, and the first announcement
// of the clock address shows that everything queued before it has been taken.
// Every history of <= 3 operations over a small alphabet is run, all of them concurrently on their own announcers.

import (
	"encoding/json"
	"fmt"
	"net"
	"strings"
	"sync"
	"testing"
	"time"

	"github.com/go-kit/log"
	"go.universe.tf/metallb/internal/verifrt"
	"k8s.io/apimachinery/pkg/util/sets"
)

type c13sOp struct {
	Kind  string `json:"k"` // set | del
	Svc   int    `json:"svc"`
	IP    int    `json:"ip,omitempty"`
	Scope int    `json:"scope,omitempty"` // 0 all, 1 eth0, 2 eth1
}

type c13sCase struct {
	Ops      []c13sOp `json:"ops"`
	Readable []string `json:"readable"`
}

var c13sIPs = []string{"10.0.0.4", "10.0.0.5"}
var c13sScopes = [][]string{nil, {"eth0"}, {"eth1"}}

const c13sClock = "10.0.0.99"

func c13sAdv(ip string, scope []string) IPAdvertisement {
	if scope == nil {
		return IPAdvertisement{ip: net.ParseIP(ip), allInterfaces: true}
	}
	return IPAdvertisement{ip: net.ParseIP(ip), interfaces: sets.New(scope...)}
}

// frames per (interface, target address) written so far
func c13sCount(pcs map[string]*memPC) map[string]int {
	out := map[string]int{}
	for name, pc := range pcs {
		pc.mu.Lock()
		for _, f := range pc.out {
			if p, ok := parseARP(f); ok {
				out[name+"/"+p.spa.String()]++
			}
		}
		pc.mu.Unlock()
	}
	return out
}

func c13sRun(c c13sCase) (problems []string, inconclusive string) {
	a, err := New(log.NewNopLogger(), nil)
	if err != nil {
		panic(err)
	}
	a.VerifSetInterfaces([]string{"eth0", "eth1"})
	pcs := map[string]*memPC{}
	lo := loIndex()
	for i, name := range []string{"eth0", "eth1"} {
		pc := &memPC{name: name}
		pcs[name] = pc
		mac := macEth0
		if name == "eth1" {
			mac = macEth1
		}
		if err := a.VerifAddARPResponder(&net.Interface{Index: lo, Name: name, HardwareAddr: mac, MTU: 1500}, 100+i, pc); err != nil {
			panic(err)
		}
	}
	held := map[int]c13sOp{}
	for _, op := range c.Ops {
		name := fmt.Sprintf("ns/s%d", op.Svc+1)
		if op.Kind == "set" {
			if cur, ok := held[op.Svc]; ok && cur.IP != op.IP {
				a.DeleteBalancer(name)
			}
			a.SetBalancer(name, c13sAdv(c13sIPs[op.IP], c13sScopes[op.Scope]))
			held[op.Svc] = op
		} else {
			a.DeleteBalancer(name)
			delete(held, op.Svc)
		}
	}
	// the advertisements travel to the loop through a buffered channel: once the loop has announced the clock address
	// for the first time (a new address is announced on receipt) it has taken every advertisement queued before it
	a.SetBalancer("ns/clock", c13sAdv(c13sClock, nil))
	deadline := time.Now().Add(60 * time.Second)
	var base map[string]int
	for {
		n := c13sCount(pcs)
		if base == nil && n["eth0/"+c13sClock] >= 1 {
			base = n
		}
		if n["eth0/"+c13sClock] >= 3 {
			break
		}
		if time.Now().After(deadline) {
			return nil, fmt.Sprintf("the clock address was announced %d times in 60 s (expected 3: at once and on two ticks)", n["eth0/"+c13sClock])
		}
		time.Sleep(20 * time.Millisecond)
	}
	now := c13sCount(pcs)
	for ipi, ip := range c13sIPs {
		covered := map[string]bool{}
		for _, op := range held {
			if op.IP != ipi {
				continue
			}
			sc := c13sScopes[op.Scope]
			if sc == nil {
				covered["eth0"], covered["eth1"] = true, true
			}
			for _, i := range sc {
				covered[i] = true
			}
		}
		for _, intf := range []string{"eth0", "eth1"} {
			sent := now[intf+"/"+ip] - base[intf+"/"+ip]
			if sent > 0 && !covered[intf] {
				// whose advertisement is the loop still using? the last one it was sent for this address
				kind := "the-newest-advertisement-for-the-address-is-not-the-one-used"
				for i := len(c.Ops) - 1; i >= 0; i-- {
					if c.Ops[i].Kind == "set" && c.Ops[i].IP == ipi {
						if cur, ok := held[c.Ops[i].Svc]; !ok || cur != c.Ops[i] {
							kind = "advertisement-of-a-service-withdrawn-since-still-used-while-another-service-holds-the-address"
						}
						break
					}
				}
				if len(covered) == 0 {
					kind = "address-no-longer-announced"
				}
				problems = append(problems, fmt.Sprintf("%s|%d unsolicited announcements for %s on %s after the last operation; covered interfaces now: %v", kind, sent, ip, intf, covered))
			}
		}
	}
	return problems, ""
}

func TestVerif_C13spam(t *testing.T) {
	res := verifrt.NewResult("C13")
	defer res.Write()
	verifrt.Suppress["interfaceScan"] = true
	verifrt.Suppress["spamLoop"] = false
	report := func(c c13sCase, problems []string, inconclusive string) {
		res.Count("evaluations", 1)
		res.Count("transitions", int64(len(c.Ops)))
		if inconclusive != "" {
			res.Count("inconclusive_scenarios", 1)
			res.Info["inconclusive_example"] = inconclusive + " - " + strings.Join(c.Readable, " ; ")
			return
		}
		for _, p := range problems {
			parts := strings.SplitN(p, "|", 2)
			res.Violate("C13 spam: unsolicited announcement sent where it must not be kind="+parts[0], parts[1]+"\n  history: "+strings.Join(c.Readable, " ; "), c)
		}
		res.Outcome(fmt.Sprintf("problems=%d", len(problems)))
	}
	if raw, ok := verifrt.ReplayCase(); ok {
		var c c13sCase
		if err := json.Unmarshal(raw, &c); err != nil {
			t.Fatal(err)
		}
		p, inc := c13sRun(c)
		report(c, p, inc)
		res.Replayed = true
		return
	}
	if !verifrt.Mine(0) {
		return
	}
	var alphabet []c13sOp
	for s := 0; s < 2; s++ {
		for ip := range c13sIPs {
			for sc := range c13sScopes {
				if ip == 1 && sc == 0 {
					continue
				}
				alphabet = append(alphabet, c13sOp{Kind: "set", Svc: s, IP: ip, Scope: sc})
			}
		}
		alphabet = append(alphabet, c13sOp{Kind: "del", Svc: s})
	}
	readable := func(op c13sOp) string {
		if op.Kind == "del" {
			return fmt.Sprintf("withdraw s%d", op.Svc+1)
		}
		sc := "all"
		if c13sScopes[op.Scope] != nil {
			sc = strings.Join(c13sScopes[op.Scope], "+")
		}
		return fmt.Sprintf("announce s%d %s on %s", op.Svc+1, c13sIPs[op.IP], sc)
	}
	depth := 3
	var cases []c13sCase
	var rec func(ops []c13sOp, rd []string)
	rec = func(ops []c13sOp, rd []string) {
		if len(ops) > 0 {
			cases = append(cases, c13sCase{Ops: ops, Readable: rd})
		}
		if len(ops) == depth {
			return
		}
		for _, op := range alphabet {
			if len(ops) == 0 && op.Kind == "del" {
				continue
			}
			rec(append(append([]c13sOp{}, ops...), op), append(append([]string{}, rd...), readable(op)))
		}
	}
	rec(nil, nil)
	// the histories are independent announcers: run them concurrently in batches (each takes a little over two ticks)
	var mu sync.Mutex
	batch := 400
	for lo := 0; lo < len(cases); lo += batch {
		hi := lo + batch
		if hi > len(cases) {
			hi = len(cases)
		}
		var wg sync.WaitGroup
		for _, c := range cases[lo:hi] {
			c := c
			wg.Add(1)
			go func() {
				defer wg.Done()
				p, inc := c13sRun(c)
				mu.Lock()
				report(c, p, inc)
				mu.Unlock()
			}()
		}
		wg.Wait()
	}
	res.Info["spam_part_histories"] = len(cases)
	res.Count("states", int64(len(cases)))
	res.Count("distinct_nontrivial", int64(len(cases)))
	res.Count("traces_validated_against_impl", int64(len(cases)))
}
