//go:build verif

package layer2

// C13, NDP packet path. The real ndpResponder.processRequest is run over an in-memory connection (R-call rewrite of
// ndp.go, see zz_verif_export.go): the harness queues raw ICMPv6 frames, the library's own ParseMessage decodes them
// exactly as ndp.Conn.ReadFrom does, and what the responder writes is marshalled by the library and decoded here by an
// independent decoder.
//
//  (pkt)  every ICMPv6 neighbor-discovery message type x every option sequence of length <= 3 over {source link-layer
//         address, target link-layer address, nonce, a second source link-layer address} x target (held and covered on
//         the interface, held on the other interface only, not held, not held but in the solicited-node group of a held
//         one) x announcer state (base, one of two sharing services withdrawn, last holder withdrawn) x source address
//         x interface x every truncation point / a zero-length option; optionally followed by a valid solicitation.
//  (seq)  explicit-state BFS to a fixpoint over announce / withdraw histories of IPv6 addresses (two of them in ONE
//         solicited-node group) on an announcer with two in-memory NDP responders: after every operation the group
//         membership of both connections, the answer to a solicitation for every address on every interface and the
//         unsolicited advertisements sent for every queued advertisement are compared with the reference model.

import (
	"encoding/binary"
	"encoding/json"
	"fmt"
	"net"
	"sort"
	"strings"
	"testing"

	"github.com/go-kit/log"
	"go.universe.tf/metallb/internal/verifrt"
	"k8s.io/apimachinery/pkg/util/sets"
)

var (
	npMac0     = net.HardwareAddr{0x02, 0xaa, 0, 0, 0, 0x10}
	npMac1     = net.HardwareAddr{0x02, 0xaa, 0, 0, 0, 0x11}
	npMacPeer  = net.HardwareAddr{0x02, 0xbb, 0, 0, 0, 0x01}
	npMacPeer2 = net.HardwareAddr{0x02, 0xbb, 0, 0, 0, 0x02}
	npMacTgt   = net.HardwareAddr{0x02, 0xcc, 0, 0, 0, 0x03}
)

type npFix struct {
	a     *Announce
	fakes map[string]*VerifNDPFake
	idx   map[string]int
	mac   map[string]net.HardwareAddr
}

func newNPFix() *npFix {
	verifrt.Suppress["interfaceScan"] = true
	verifrt.Suppress["spamLoop"] = true
	a, err := New(log.NewNopLogger(), nil)
	if err != nil {
		panic(err)
	}
	a.VerifSetInterfaces([]string{"eth0", "eth1"})
	f := &npFix{a: a, fakes: map[string]*VerifNDPFake{}, idx: map[string]int{"eth0": 100, "eth1": 101}, mac: map[string]net.HardwareAddr{"eth0": npMac0, "eth1": npMac1}}
	for _, n := range []string{"eth0", "eth1"} {
		f.fakes[n] = a.VerifAddFakeNDPResponder(n, f.mac[n], f.idx[n])
	}
	return f
}

func (f *npFix) done() {
	f.a.VerifForgetFakeNDP()
	VerifVirtualIfs = nil
}

var npLL = map[string]string{"eth0": "fe80::10", "eth1": "fe80::11"}

// newNPHotFix builds the announcer's NDP responders the way production does: the real updateInterfaces over a virtual
// interface list (net.Interfaces / Interface.Addrs / ndp.Dial redirected), so that interfaces can come and go.
func newNPHotFix() *npFix {
	verifrt.Suppress["interfaceScan"] = true
	verifrt.Suppress["spamLoop"] = true
	verifrt.Suppress["run"] = true // the responder's read loop: the harness calls processRequest itself
	a, err := New(log.NewNopLogger(), nil)
	if err != nil {
		panic(err)
	}
	f := &npFix{a: a, fakes: map[string]*VerifNDPFake{}, idx: map[string]int{"eth0": 200, "eth1": 201}, mac: map[string]net.HardwareAddr{"eth0": npMac0, "eth1": npMac1}}
	VerifVirtualNDP = map[string]*VerifNDPFake{}
	VerifVirtualAddrs = map[string][]net.Addr{}
	f.setIfs(true, true)
	return f
}

// setIfs presents eth0 (always) and eth1 (when up1; with a link-local address when ll1) and runs the real interface scan.
func (f *npFix) setIfs(up1, ll1 bool) {
	mk := func(name string) net.Interface {
		return net.Interface{Index: f.idx[name], Name: name, HardwareAddr: f.mac[name], MTU: 1500, Flags: net.FlagUp | net.FlagMulticast}
	}
	ifs := []net.Interface{mk("eth0")}
	if up1 {
		ifs = append(ifs, mk("eth1"))
	}
	for _, n := range []string{"eth0", "eth1"} {
		VerifVirtualAddrs[n] = []net.Addr{&net.IPNet{IP: net.ParseIP("fd00:99::1"), Mask: net.CIDRMask(64, 128)}}
		if n == "eth0" || ll1 {
			VerifVirtualAddrs[n] = append(VerifVirtualAddrs[n], &net.IPNet{IP: net.ParseIP(npLL[n]), Mask: net.CIDRMask(64, 128)})
		}
		if f.a.VerifNDPIndex(n) < 0 {
			// a responder created by this scan gets a new connection
			fk := NewVerifNDPFake()
			VerifVirtualNDP[n] = fk
			f.fakes[n] = fk
		}
	}
	VerifVirtualIfs = ifs
	f.a.VerifUpdateInterfaces()
}

// ---- frames ----

// npOpt builds one option: kind S (source link-layer address, peer), s (a second one, other MAC), T (target link-layer
// address), N (nonce, RFC 3971 type 14, 6 bytes), Z (an option announcing length 0: malformed by RFC 4861 4.6).
func npOpt(k byte) []byte {
	switch k {
	case 'S':
		return append([]byte{1, 1}, npMacPeer...)
	case 's':
		return append([]byte{1, 1}, npMacPeer2...)
	case 'T':
		return append([]byte{2, 1}, npMacTgt...)
	case 'N':
		return []byte{14, 1, 1, 2, 3, 4, 5, 6}
	case 'Z':
		return []byte{1, 0, 0, 0, 0, 0, 0, 0}
	}
	panic("option kind")
}

func npFrame(typ byte, target net.IP, opts string) []byte {
	b := []byte{typ, 0, 0, 0}
	switch typ {
	case 135: // NS: reserved(4) target(16) options
		b = append(b, 0, 0, 0, 0)
		b = append(b, target.To16()...)
	case 136: // NA: flags(4) target(16) options
		b = append(b, 0x60, 0, 0, 0)
		b = append(b, target.To16()...)
	case 133: // RS: reserved(4) options
		b = append(b, 0, 0, 0, 0)
	case 134: // RA: hop limit, flags, lifetime(2), reachable(4), retrans(4), options
		b = append(b, 64, 0, 0, 30, 0, 0, 0, 0, 0, 0, 0, 0)
	default: // not a neighbor-discovery message (echo request ...)
		b = append(b, 0, 1, 0, 1)
	}
	for i := 0; i < len(opts); i++ {
		b = append(b, npOpt(opts[i])...)
	}
	return b
}

type npNA struct {
	ok                          bool
	router, solicited, override bool
	target                      net.IP
	tlla                        []net.HardwareAddr
	otherOpts                   int
}

// independent decoder of a Neighbor Advertisement (RFC 4861 4.4)
func npParseNA(b []byte) npNA {
	var r npNA
	if len(b) < 24 || b[0] != 136 || b[1] != 0 {
		return r
	}
	r.router, r.solicited, r.override = b[4]&0x80 != 0, b[4]&0x40 != 0, b[4]&0x20 != 0
	r.target = net.IP(append([]byte{}, b[8:24]...))
	rest := b[24:]
	for len(rest) > 0 {
		if len(rest) < 2 || rest[1] == 0 || int(rest[1])*8 > len(rest) {
			return r
		}
		l := int(rest[1]) * 8
		if rest[0] == 2 && l == 8 {
			r.tlla = append(r.tlla, net.HardwareAddr(append([]byte{}, rest[2:8]...)))
		} else {
			r.otherOpts++
		}
		rest = rest[l:]
	}
	r.ok = true
	return r
}

var _ = binary.BigEndian

// ---- part pkt ----

type npPkt struct {
	Type      int    `json:"icmpv6_type"`
	Opts      string `json:"options"` // sequence over S s T N (Z: zero-length option)
	Target    string `json:"target"`  // held-covered | held-uncovered | not-held | not-held-same-group
	State     string `json:"state"`   // base | one-of-two-withdrawn | last-withdrawn | re-announced
	Src       string `json:"source"`
	Intf      string `json:"interface"`
	Truncate  int    `json:"truncate_to,omitempty"` // 0 = whole frame
	ThenValid bool   `json:"followed_by_a_valid_solicitation,omitempty"`
}

const (
	npHeldAll   = "fc00::5"        // s2 (and s3) on all interfaces
	npHeldEth0  = "fc00::4"        // s1 on eth0 only
	npNotHeld   = "fc00::77"
	npSameGroup = "fc00:0:0:1::5" // same solicited-node group as npHeldAll, not announced
)

func npPktCheck(res *verifrt.Result, p npPkt) {
	res.Count("evaluations", 1)
	f := newNPFix()
	defer f.done()
	a := f.a
	a.SetBalancer("ns/s1", NewIPAdvertisement(net.ParseIP(npHeldEth0), false, sets.New("eth0")))
	a.SetBalancer("ns/s2", NewIPAdvertisement(net.ParseIP(npHeldAll), true, sets.New[string]()))
	heldAll := true
	switch p.State {
	case "one-of-two-withdrawn":
		a.SetBalancer("ns/s3", NewIPAdvertisement(net.ParseIP(npHeldAll), true, sets.New[string]()))
		a.DeleteBalancer("ns/s3")
	case "one-of-two-withdrawn-first":
		a.SetBalancer("ns/s3", NewIPAdvertisement(net.ParseIP(npHeldAll), true, sets.New[string]()))
		a.DeleteBalancer("ns/s2")
	case "last-withdrawn":
		a.DeleteBalancer("ns/s2")
		heldAll = false
	case "re-announced":
		a.DeleteBalancer("ns/s2")
		a.SetBalancer("ns/s2", NewIPAdvertisement(net.ParseIP(npHeldAll), true, sets.New[string]()))
	}
	a.VerifDrainSpam()
	for _, fk := range f.fakes {
		fk.TakeOut()
	}
	target := map[string]string{"held-covered": npHeldAll, "held-uncovered": npHeldEth0, "not-held": npNotHeld, "not-held-same-group": npSameGroup}[p.Target]
	covered := (p.Target == "held-covered" && heldAll) || (p.Target == "held-uncovered" && p.Intf == "eth0")
	frame := npFrame(byte(p.Type), net.ParseIP(target), p.Opts)
	if p.Truncate > 0 && p.Truncate < len(frame) {
		frame = frame[:p.Truncate]
	}
	// reference reading of the frame: well-formed solicitation? which options?
	wellFormedNS, hasSLLA := false, false
	if len(frame) >= 24 && frame[0] == 135 {
		rest, ok := frame[24:], true
		for len(rest) > 0 {
			if len(rest) < 2 || rest[1] == 0 || int(rest[1])*8 > len(rest) {
				ok = false
				break
			}
			if rest[0] == 1 && rest[1] == 1 {
				hasSLLA = true
			}
			rest = rest[int(rest[1])*8:]
		}
		wellFormedNS = ok
		if !ok {
			hasSLLA = false
		}
	}
	src := net.ParseIP(p.Src)
	fk := f.fakes[p.Intf]
	fk.Push(frame, src)
	nValid := 0
	if p.ThenValid {
		fk.Push(npFrame(135, net.ParseIP(npHeldEth0), "S"), src)
		if p.Intf == "eth0" {
			nValid = 1
		}
	}
	var results []string
	for i := 0; i < 4; i++ {
		r := a.VerifProcessNDP(f.idx[p.Intf])
		results = append(results, r)
		if r == "closed" {
			break
		}
	}
	if results[len(results)-1] != "closed" || fk.Pending() != 0 {
		res.Violate("C13 ndp: the responder did not consume the queued frames", fmt.Sprintf("%+v: results %v, %d frames left", p, results, fk.Pending()), npCase{Part: "pkt", Packet: &p})
		return
	}
	out := fk.TakeOut()
	other := "eth1"
	if p.Intf == "eth1" {
		other = "eth0"
	}
	c := npCase{Part: "pkt", Packet: &p}
	if o := f.fakes[other].TakeOut(); len(o) != 0 {
		res.Violate("C13 ndp: answer written on another interface than the one the solicitation arrived on", fmt.Sprintf("%+v: %d frames on %s", p, len(o), other), c)
		return
	}
	mustAnswer := wellFormedNS && hasSLLA && covered
	mayAnswer := wellFormedNS && covered // a solicitation without source link-layer address: the statement does not say; MetalLB drops it
	res.Outcome(fmt.Sprintf("replies=%d results=%v", len(out), results))
	n := len(out) - nValid
	if p.ThenValid && len(out) < nValid {
		res.Violate("C13 ndp: a well-formed solicitation behind a frame that is not answered gets no answer", fmt.Sprintf("%+v: %d frames written, results %v", p, len(out), results), c)
		return
	}
	switch {
	case mustAnswer && n != 1:
		feat := []string{}
		if strings.IndexByte(p.Opts, 'S') > 0 || (strings.IndexByte(p.Opts, 'S') < 0 && strings.IndexByte(p.Opts, 's') > 0) {
			feat = append(feat, "source-link-layer-option-not-first")
		}
		if p.State != "base" {
			feat = append(feat, "state="+p.State)
		}
		res.Violate("C13 ndp: solicitation for an announced address is not answered "+strings.Join(feat, " "), fmt.Sprintf("%+v: %d frames written, results %v", p, len(out), results), c)
	case !mayAnswer && n != 0:
		why := "other"
		switch {
		case !wellFormedNS && len(frame) >= 1 && frame[0] != 135:
			why = fmt.Sprintf("icmpv6-type-%d-is-not-a-solicitation", p.Type)
		case !wellFormedNS:
			why = "malformed-solicitation"
		case !covered:
			why = "address-" + p.Target
			if p.State != "base" {
				why += " state=" + p.State
			}
		}
		res.Violate("C13 ndp: frame answered although it must not be reason="+why, fmt.Sprintf("%+v: %d frames written, results %v", p, len(out), results), c)
	case n == 1:
		na := npParseNA(out[0].Raw)
		own := f.mac[p.Intf]
		if !na.ok || !na.solicited || na.override || na.router || !na.target.Equal(net.ParseIP(target)) || len(na.tlla) != 1 || na.tlla[0].String() != own.String() || !out[0].Dst.Equal(src) {
			res.Violate("C13 ndp: neighbor advertisement content wrong", fmt.Sprintf("%+v: advertisement %+v to %s (want solicited, not override, target %s, target link-layer address %s, to %s)", p, na, out[0].Dst, target, own, src), c)
		}
	}
}

// ---- part seq ----

type npOp struct {
	Kind  string `json:"k"` // set | del | if1 (eth1: Scope 0 = gone, 1 = up with a link-local address, 2 = up without one)
	Svc   int    `json:"svc"`
	IP    int    `json:"ip,omitempty"`
	Scope int    `json:"scope,omitempty"`
}

var npIPs = []string{"fd00:a::12:3456", "fd00:b::12:3456", "fd00:a::77:1"} // the first two share a solicited-node group
var npScopes = [][]string{nil /* all */, {"eth0"}}
var npSvcs = []string{"ns/s1", "ns/s2"}

func (o npOp) String() string {
	if o.Kind == "joinfail" {
		return "the next multicast group join on eth0 is refused"
	}
	if o.Kind == "if1" {
		return "interface eth1 " + []string{"disappears", "is up with a link-local address", "is up without a link-local address"}[o.Scope]
	}
	if o.Kind == "del" {
		return "withdraw " + npSvcs[o.Svc]
	}
	sc := "all"
	if npScopes[o.Scope] != nil {
		sc = strings.Join(npScopes[o.Scope], "+")
	}
	return fmt.Sprintf("announce %s %s@%s", npSvcs[o.Svc], npIPs[o.IP], sc)
}

func npGroup(ip string) string {
	b := net.ParseIP(ip).To16()
	return net.IP{0xff, 0x02, 0, 0, 0, 0, 0, 0, 0, 0, 0, 0x01, 0xff, b[13], b[14], b[15]}.String()
}

type npCase struct {
	Part   string  `json:"part"`
	Packet *npPkt  `json:"packet,omitempty"`
	Ops    []npOp  `json:"ops,omitempty"`
	Read   []string `json:"readable,omitempty"`
}

// reference: service -> ip index -> scope index (a service holds one advertisement per address; the layer-2 controller
// withdraws a service before announcing another address for it, the harness does the same)
type npModel map[int]map[int]int

func (m npModel) covers(ip int, intf string) (held, covered bool) {
	for _, advs := range m {
		if sc, ok := advs[ip]; ok {
			held = true
			if npScopes[sc] == nil {
				covered = true
			}
			for _, i := range npScopes[sc] {
				if i == intf {
					covered = true
				}
			}
		}
	}
	return
}

func npSeqExec(res *verifrt.Result, ops []npOp) (key string, ok bool) {
	res.Count("evaluations", 1)
	f := newNPHotFix()
	defer f.done()
	a := f.a
	m := npModel{}
	has1 := true // eth1 has an NDP responder
	// degraded[g]: a join of group g on eth0 was refused (fault) and some announced address has needed the group ever since:
	// the responder said so in its log and is not required to listen for that group until the group is needed anew
	degraded := map[string]bool{}
	var rd []string
	for _, o := range ops {
		rd = append(rd, o.String())
	}
	c := npCase{Part: "seq", Ops: ops, Read: rd}
	for i, o := range ops {
		res.Count("transitions", 1)
		if o.Kind == "joinfail" {
			f.fakes["eth0"].FailNextJoin()
		} else if o.Kind == "if1" {
			f.setIfs(o.Scope != 0, o.Scope == 1)
			has1 = o.Scope == 1
		} else if o.Kind == "set" {
			if cur, ok := m[o.Svc]; ok {
				if _, same := cur[o.IP]; !same {
					a.DeleteBalancer(npSvcs[o.Svc])
					delete(m, o.Svc)
				}
			}
			var adv IPAdvertisement
			if npScopes[o.Scope] == nil {
				adv = NewIPAdvertisement(net.ParseIP(npIPs[o.IP]), true, sets.New[string]())
			} else {
				adv = NewIPAdvertisement(net.ParseIP(npIPs[o.IP]), false, sets.New(npScopes[o.Scope]...))
			}
			a.SetBalancer(npSvcs[o.Svc], adv)
			if m[o.Svc] == nil {
				m[o.Svc] = map[int]int{}
			}
			m[o.Svc][o.IP] = o.Scope
		} else {
			a.DeleteBalancer(npSvcs[o.Svc])
			delete(m, o.Svc)
		}
		where := fmt.Sprintf("after operation %d (%s)\n  history: %s", i+1, o, strings.Join(rd, " ; "))
		present := []string{"eth0"}
		if has1 {
			present = append(present, "eth1")
		}
		if got := strings.Join(a.VerifNDPResponderNames(), ","); got != strings.Join(present, ",") {
			res.Violate("C13 ndp: responders differ from the interfaces that can answer", fmt.Sprintf("%s: responders on %s, want %s", where, got, strings.Join(present, ",")), c)
			return "", false
		}
		// unsolicited advertisements for what the operation queued
		for _, fk := range f.fakes {
			fk.TakeOut()
		}
		for _, adv := range a.VerifDrainSpam() {
			a.VerifGratuitous(adv)
			ipi := -1
			for k, s := range npIPs {
				if net.ParseIP(s).Equal(VerifAdvIP(adv)) {
					ipi = k
				}
			}
			held, _ := m.covers(ipi, "")
			for _, intf := range present {
				out := f.fakes[intf].TakeOut()
				want := 0
				if held && adv.matchInterface(intf) {
					want = 1
				}
				if len(out) != want {
					kind := "missing"
					if len(out) > want {
						kind = "sent-where-it-must-not-be"
						if !held {
							kind = "sent-for-an-address-no-service-holds"
						}
					}
					res.Violate("C13 ndp: unsolicited neighbor advertisement "+kind, fmt.Sprintf("%s: advertisement %s on %s: %d frames (want %d)", where, advString(adv), intf, len(out), want), c)
					return "", false
				}
				if want == 1 {
					na := npParseNA(out[0].Raw)
					if !na.ok || na.solicited || !na.override || !na.target.Equal(VerifAdvIP(adv)) || len(na.tlla) != 1 || na.tlla[0].String() != f.mac[intf].String() || !out[0].Dst.Equal(net.IPv6linklocalallnodes) {
						res.Violate("C13 ndp: unsolicited neighbor advertisement content wrong", fmt.Sprintf("%s: %+v to %s", where, na, out[0].Dst), c)
						return "", false
					}
				}
			}
		}
		// group membership of both connections
		wantGroups := map[string]bool{}
		for ipi := range npIPs {
			if held, _ := m.covers(ipi, ""); held {
				wantGroups[npGroup(npIPs[ipi])] = true
			}
		}
		for _, g := range f.fakes["eth0"].TakeFailedJoins() {
			degraded[g] = true
		}
		for g := range degraded {
			if !wantGroups[g] {
				delete(degraded, g) // nobody needs the group any more: the next address in it must be listened for again
				f.fakes["eth0"].DropGroupErrorsFor(g)
			}
		}
		for _, intf := range present {
			var wg []string
			for g := range wantGroups {
				if !(intf == "eth0" && degraded[g]) {
					wg = append(wg, g)
				}
			}
			sort.Strings(wg)
			var got []string
			for _, g := range f.fakes[intf].Groups() {
				if !(intf == "eth0" && degraded[g]) {
					got = append(got, g)
				}
			}
			if intf == "eth0" {
				for g := range degraded {
					f.fakes[intf].DropGroupErrorsFor(g)
				}
			}
			if strings.Join(got, ",") != strings.Join(wg, ",") {
				kind := "joined although no announced address needs the group"
				if len(got) < len(wg) {
					kind = "left although an announced address still needs the group"
				}
				res.Violate("C13 ndp: solicited-node group membership wrong kind="+kind, fmt.Sprintf("%s: %s joined %v, needed %v", where, intf, got, wg), c)
				return "", false
			}
			if errs := f.fakes[intf].GroupErrors(); len(errs) != 0 {
				res.Violate("C13 ndp: group operation the kernel refuses", fmt.Sprintf("%s: %s: %v", where, intf, errs), c)
				return "", false
			}
		}
		// a solicitation for every address on every interface
		for ipi, ip := range npIPs {
			for _, intf := range present {
				_, covered := m.covers(ipi, intf)
				held, _ := m.covers(ipi, "")
				fk := f.fakes[intf]
				fk.Push(npFrame(135, net.ParseIP(ip), "S"), net.ParseIP("fe80::9"))
				r := a.VerifProcessNDP(a.VerifNDPIndex(intf))
				out := fk.TakeOut()
				want := "not-held"
				if covered {
					want = "answered"
				} else if held {
					want = "held-other-interface"
				}
				if r != want || (len(out) == 1) != covered {
					res.Violate(fmt.Sprintf("C13 ndp: responder decision differs got=%s want=%s after=%s", r, want, o.Kind), fmt.Sprintf("%s: solicitation for %s on %s: %s, %d frames written", where, ip, intf, r, len(out)), c)
					return "", false
				}
			}
		}
	}
	res.Outcome(fmt.Sprintf("services=%d", len(m)))
	faultArmed, faultUsed := f.fakes["eth0"].FailJoins > 0, false
	for _, o := range ops {
		faultUsed = faultUsed || o.Kind == "joinfail"
	}
	return fmt.Sprintf("%s|%v|%s|%s|%s|%v|%v|%v", a.VerifDump(), has1, strings.Join(f.fakes["eth0"].Groups(), ","), a.VerifNDPGroups(200), a.VerifNDPGroups(201), faultArmed, faultUsed, degraded), true
}

func TestVerif_C13ndppkt(t *testing.T) {
	res := verifrt.NewResult("C13")
	defer res.Write()
	if raw, ok := verifrt.ReplayCase(); ok {
		var c npCase
		if err := json.Unmarshal(raw, &c); err != nil {
			t.Fatal(err)
		}
		if c.Packet != nil {
			npPktCheck(res, *c.Packet)
		} else {
			npSeqExec(res, c.Ops)
		}
		res.Replayed = true
		return
	}
	// ---- pkt ----
	var optSeqs []string
	var gen func(prefix string, n int)
	gen = func(prefix string, n int) {
		optSeqs = append(optSeqs, prefix)
		if n == 0 {
			return
		}
		for _, k := range "SsTN" {
			gen(prefix+string(k), n-1)
		}
	}
	gen("", 3)
	optSeqs = append(optSeqs, "Z", "SZ", "ZS", "TZS")
	i := 0
	for _, typ := range []int{135, 136, 133, 134, 128, 137} {
		for _, opts := range optSeqs {
			if typ != 135 && len(opts) > 1 {
				continue
			}
			for _, target := range []string{"held-covered", "held-uncovered", "not-held", "not-held-same-group"} {
				for _, state := range []string{"base", "one-of-two-withdrawn", "one-of-two-withdrawn-first", "last-withdrawn", "re-announced"} {
					if typ != 135 && state != "base" {
						continue
					}
					for _, src := range []string{"fe80::9", "fd00::9"} {
						for _, intf := range []string{"eth0", "eth1"} {
							for _, then := range []bool{false, true} {
								if then && (len(opts) > 2 || state != "base") {
									continue
								}
								i++
								if !verifrt.Mine(i) {
									continue
								}
								npPktCheck(res, npPkt{Type: typ, Opts: opts, Target: target, State: state, Src: src, Intf: intf, ThenValid: then})
								res.Count("distinct_nontrivial", 1)
							}
						}
					}
				}
			}
		}
	}
	// every truncation point of solicitations with up to three options
	for _, opts := range []string{"S", "TS", "NS", "ST", "TNS"} {
		full := len(npFrame(135, net.ParseIP(npHeldAll), opts))
		for cut := 1; cut < full; cut++ {
			for _, then := range []bool{false, true} {
				for _, intf := range []string{"eth0", "eth1"} {
					i++
					if !verifrt.Mine(i) {
						continue
					}
					npPktCheck(res, npPkt{Type: 135, Opts: opts, Target: "held-covered", State: "base", Src: "fe80::9", Intf: intf, Truncate: cut, ThenValid: then})
					res.Count("distinct_nontrivial", 1)
				}
			}
		}
	}
	// ---- seq: BFS to a fixpoint (shard 0) ----
	if !verifrt.Mine(0) {
		res.Count("traces_validated_against_impl", res.Counters["evaluations"])
		return
	}
	var alphabet []npOp
	for s := range npSvcs {
		for ip := range npIPs {
			for sc := range npScopes {
				alphabet = append(alphabet, npOp{Kind: "set", Svc: s, IP: ip, Scope: sc})
			}
		}
		alphabet = append(alphabet, npOp{Kind: "del", Svc: s})
	}
	for sc := 0; sc < 3; sc++ {
		alphabet = append(alphabet, npOp{Kind: "if1", Scope: sc})
	}
	depth := 8
	if verifrt.Thorough() {
		depth = 14
	}
	seen := map[string]bool{}
	frontier := [][]npOp{{}}
	fix := true
	for len(frontier) > 0 {
		h := frontier[0]
		frontier = frontier[1:]
		if len(h) >= depth {
			fix = false
			continue
		}
		faulted := false
		for _, o := range h {
			faulted = faulted || o.Kind == "joinfail"
		}
		for _, op := range append(append([]npOp{}, alphabet...), npOp{Kind: "joinfail"}) {
			if op.Kind == "joinfail" && faulted {
				continue // one fault per history
			}
			nh := append(append([]npOp{}, h...), op)
			key, ok := npSeqExec(res, nh)
			if ok && !seen[key] {
				seen[key] = true
				res.Count("states", 1)
				frontier = append(frontier, nh)
			}
		}
	}
	res.Info["ndp_pkt_seq_fixpoint_reached"] = fix
	res.Info["ndp_pkt_seq_depth"] = depth
	if !fix {
		res.NotExhaustive("ndp seq: depth bound reached before the fixpoint")
	}
	res.Count("traces_validated_against_impl", res.Counters["evaluations"])
}
