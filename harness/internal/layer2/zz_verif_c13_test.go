//go:build verif

package layer2

// C13 - the layer-2 responder answers exactly for the addresses it currently announces.
// Three parts: (seq) explicit-state BFS over announce / re-announce / withdraw histories on the
// real Announce with responder decisions, reference counts and gratuitous emissions checked after
// every operation; (pkt) exhaustive enumeration of request packets through the real
// arpResponder.processRequest over an in-memory packet connection; (conc) all interleavings with
// <= N preemptions of a writer thread, a request thread and the spam-loop effect under the
// controlled scheduler, with a single-writer linearizability oracle. A free-running -race pass of
// the same bodies is a separate part.

import (
	"encoding/json"
	"fmt"
	"io"
	"net"
	"os"
	"sort"
	"strings"
	"sync"
	"testing"
	"time"

	"github.com/go-kit/log"
	"go.universe.tf/metallb/internal/verifrt"
	"k8s.io/apimachinery/pkg/util/sets"
)

// ---- in-memory packet connection ----

type memPC struct {
	onWrite func(b []byte) // harness observer (controlled executions only)
	mu   sync.Mutex
	in   [][]byte
	out  [][]byte
	name string
}

type memAddr struct{}

func (memAddr) Network() string { return "mem" }
func (memAddr) String() string  { return "mem" }

func (p *memPC) ReadFrom(b []byte) (int, net.Addr, error) {
	if s := verifrt.CurSched(); s != nil {
		s.Yield(nil, "packet.Read")
	}
	p.mu.Lock()
	defer p.mu.Unlock()
	if len(p.in) == 0 {
		return 0, nil, io.EOF
	}
	n := copy(b, p.in[0])
	p.in = p.in[1:]
	return n, memAddr{}, nil
}
func (p *memPC) WriteTo(b []byte, addr net.Addr) (int, error) {
	if s := verifrt.CurSched(); s != nil {
		s.Yield(nil, "packet.Write")
	}
	if p.onWrite != nil {
		p.onWrite(b)
	}
	p.mu.Lock()
	defer p.mu.Unlock()
	p.out = append(p.out, append([]byte{}, b...))
	return len(b), nil
}
func (p *memPC) Close() error                       { return nil }
func (p *memPC) LocalAddr() net.Addr                { return memAddr{} }
func (p *memPC) SetDeadline(t time.Time) error      { return nil }
func (p *memPC) SetReadDeadline(t time.Time) error  { return nil }
func (p *memPC) SetWriteDeadline(t time.Time) error { return nil }
func (p *memPC) take() [][]byte {
	p.mu.Lock()
	defer p.mu.Unlock()
	o := p.out
	p.out = nil
	return o
}

var (
	macEth0  = net.HardwareAddr{2, 0, 0, 0, 0, 1}
	macEth1  = net.HardwareAddr{2, 0, 0, 0, 0, 2}
	macOther = net.HardwareAddr{2, 0, 0, 0, 0, 9}
	bcast    = net.HardwareAddr{0xff, 0xff, 0xff, 0xff, 0xff, 0xff}
)

func arpFrame(dst, src net.HardwareAddr, ethertype uint16, op uint16, sha net.HardwareAddr, spa net.IP, tha net.HardwareAddr, tpa net.IP) []byte {
	b := append([]byte{}, dst...)
	b = append(b, src...)
	b = append(b, byte(ethertype>>8), byte(ethertype))
	b = append(b, 0, 1, 8, 0, 6, 4, byte(op>>8), byte(op))
	b = append(b, sha...)
	b = append(b, spa.To4()...)
	b = append(b, tha...)
	b = append(b, tpa.To4()...)
	for len(b) < 60 {
		b = append(b, 0)
	}
	return b
}

type parsedARP struct {
	dst, src net.HardwareAddr
	op       int
	sha      net.HardwareAddr
	spa      net.IP
	tpa      net.IP
}

func parseARP(b []byte) (parsedARP, bool) {
	if len(b) < 42 || b[12] != 0x08 || b[13] != 0x06 {
		return parsedARP{}, false
	}
	return parsedARP{dst: b[0:6], src: b[6:12], op: int(b[20])<<8 | int(b[21]), sha: b[22:28], spa: net.IP(b[28:32]), tpa: net.IP(b[38:42])}, true
}

type c13Fix struct {
	a    *Announce
	pcs  map[string]*memPC
	idxs map[string]int
}

func loIndex() int {
	ifs, err := net.Interfaces()
	if err != nil || len(ifs) == 0 {
		return 1
	}
	for _, i := range ifs {
		if i.Flags&net.FlagLoopback != 0 {
			return i.Index
		}
	}
	return ifs[0].Index
}

func newC13Fix() *c13Fix {
	verifrt.Suppress["interfaceScan"] = true
	verifrt.Suppress["spamLoop"] = true
	a, err := New(log.NewNopLogger(), nil)
	if err != nil {
		panic(err)
	}
	f := &c13Fix{a: a, pcs: map[string]*memPC{}, idxs: map[string]int{"eth0": 100, "eth1": 101}}
	a.VerifSetInterfaces([]string{"eth0", "eth1"})
	lo := loIndex()
	for name, mac := range map[string]net.HardwareAddr{"eth0": macEth0, "eth1": macEth1} {
		pc := &memPC{name: name}
		f.pcs[name] = pc
		if err := a.VerifAddARPResponder(&net.Interface{Index: lo, Name: name, HardwareAddr: mac, MTU: 1500}, f.idxs[name], pc); err != nil {
			panic(err)
		}
	}
	return f
}

// ---- operations and reference model ----

type c13Op struct {
	Kind  string `json:"k"` // set | del
	Svc   int    `json:"svc"`
	IP    int    `json:"ip,omitempty"`
	Scope int    `json:"scope,omitempty"`
}

var c13IPs = []string{"10.0.0.4", "10.0.0.5", "fc00::6"}
var c13Scopes = [][]string{nil /* all */, {"eth0"}, {"eth1"}, {"eth0", "eth1"}}
var c13Svcs = []string{"ns/s1", "ns/s2", "ns/s3"}

func (o c13Op) String() string {
	if o.Kind == "del" {
		return "withdraw " + c13Svcs[o.Svc]
	}
	sc := "all"
	if c13Scopes[o.Scope] != nil {
		sc = strings.Join(c13Scopes[o.Scope], "+")
	}
	return fmt.Sprintf("announce %s %s@%s", c13Svcs[o.Svc], c13IPs[o.IP], sc)
}

func (o c13Op) adv() IPAdvertisement {
	sc := c13Scopes[o.Scope]
	return NewIPAdvertisement(net.ParseIP(c13IPs[o.IP]), sc == nil, sets.New(sc...))
}

// refModel: service -> ip -> scope (the advertisement last announced for that address).
type refModel map[string]map[string][]string

func (m refModel) clone() refModel {
	out := refModel{}
	for s, ips := range m {
		out[s] = map[string][]string{}
		for ip, sc := range ips {
			out[s][ip] = sc
		}
	}
	return out
}

func (m refModel) apply(o c13Op) {
	s := c13Svcs[o.Svc]
	if o.Kind == "del" {
		delete(m, s)
		return
	}
	if m[s] == nil {
		m[s] = map[string][]string{}
	}
	sc := c13Scopes[o.Scope]
	if sc == nil {
		sc = []string{"*"}
	}
	m[s][c13IPs[o.IP]] = sc
}

func (m refModel) holders(ip string) int {
	n := 0
	for _, ips := range m {
		if _, ok := ips[ip]; ok {
			n++
		}
	}
	return n
}

func covers(sc []string, intf string) bool {
	for _, x := range sc {
		if x == "*" || x == intf {
			return true
		}
	}
	return false
}

func (m refModel) answer(ip, intf string) string {
	held := false
	for _, ips := range m {
		if sc, ok := ips[ip]; ok {
			held = true
			if covers(sc, intf) {
				return "answer"
			}
		}
	}
	if held {
		return "held-other-interface"
	}
	return "not-held"
}

type c13Case struct {
	Part     string  `json:"part"`
	Ops      []c13Op `json:"ops,omitempty"`
	Readable []string `json:"readable,omitempty"`
	Packet   *c13Pkt `json:"packet,omitempty"`
	Conc     *c13Conc `json:"conc,omitempty"`
	Schedule []int   `json:"schedule,omitempty"`
}

// ---- part seq: BFS ----

type c13Sys struct {
	f     *c13Fix
	model refModel
	spams []IPAdvertisement
	last  c13Op
}

func (s *c13Sys) Enabled() []verifrt.Event {
	var evs []verifrt.Event
	for svc := range c13Svcs {
		for ip := range c13IPs {
			for sc := range c13Scopes[:3] {
				evs = append(evs, verifrt.Event{Kind: "set", A: svc, B: ip*10 + sc, User: true})
			}
		}
		if _, ok := s.model[c13Svcs[svc]]; ok {
			evs = append(evs, verifrt.Event{Kind: "del", A: svc, User: true})
		}
	}
	return evs
}

func evOp(ev verifrt.Event) c13Op {
	if ev.Kind == "del" {
		return c13Op{Kind: "del", Svc: ev.A}
	}
	return c13Op{Kind: "set", Svc: ev.A, IP: ev.B / 10, Scope: ev.B % 10}
}

func (s *c13Sys) Apply(ev verifrt.Event) {
	o := evOp(ev)
	s.last = o
	if o.Kind == "del" {
		s.f.a.DeleteBalancer(c13Svcs[o.Svc])
	} else {
		s.f.a.SetBalancer(c13Svcs[o.Svc], o.adv())
	}
	s.model.apply(o)
	s.spams = append(s.spams, s.f.a.VerifDrainSpam()...)
}

func (s *c13Sys) Key() string { return s.f.a.VerifDump() }

func c13SeqCheck(res *verifrt.Result, s *c13Sys, hist []verifrt.Event) {
	mk := func() c13Case {
		c := c13Case{Part: "seq"}
		for _, e := range hist {
			c.Ops = append(c.Ops, evOp(e))
			c.Readable = append(c.Readable, evOp(e).String())
		}
		return c
	}
	viol := func(sig, detail string) {
		c := mk()
		res.Violate(sig, detail+"\n  history: "+strings.Join(c.Readable, " ; "), c)
	}
	for _, ip := range c13IPs {
		if got, want := s.f.a.VerifRefcnt(ip), s.model.holders(ip); got != want {
			viol(fmt.Sprintf("C13 use count differs from the number of services holding the address after=%s", s.last.Kind), fmt.Sprintf("%s: count %d, holders %d", ip, got, want))
		}
		for _, intf := range []string{"eth0", "eth1", "eth2"} {
			if got, want := s.f.a.VerifAnswer(net.ParseIP(ip), intf), s.model.answer(ip, intf); got != want {
				viol(fmt.Sprintf("C13 responder decision differs got=%s want=%s after=%s", got, want, s.last.Kind), fmt.Sprintf("%s on %s", ip, intf))
			}
		}
	}
	// the periodic loop's effect: for every advertisement ever queued, gratuitous() emits on an interface
	// only while some service holds the address, and only on interfaces the advertisement covers
	seen := map[string]bool{}
	for _, adv := range s.spams {
		k := VerifAdvString(adv)
		if seen[k] {
			continue
		}
		seen[k] = true
		for _, pc := range s.f.pcs {
			pc.take()
		}
		s.f.a.VerifGratuitous(adv)
		ip := VerifAdvIP(adv).String()
		for name, pc := range s.f.pcs {
			frames := pc.take()
			if len(frames) > 0 && s.model.holders(ip) == 0 {
				viol("C13 unsolicited announcement for an address no service holds", fmt.Sprintf("%s on %s (%d frames)", k, name, len(frames)))
			}
			if len(frames) > 0 && !adv.matchInterface(name) {
				viol("C13 unsolicited announcement on an interface the advertisement does not cover", fmt.Sprintf("%s on %s", k, name))
			}
			if len(frames) == 0 && s.model.holders(ip) > 0 && adv.matchInterface(name) && VerifAdvIP(adv).To4() != nil {
				viol("C13 no unsolicited announcement although the address is held and the interface covered", fmt.Sprintf("%s on %s", k, name))
			}
		}
	}
}

// ---- part pkt ----

type c13Pkt struct {
	Op        int    `json:"arp_operation"`
	Dst       string `json:"ethernet_destination"` // broadcast | own | other | ipv4-multicast | ipv6-multicast | almost-broadcast | other-local-admin | own-but-last-octet
	Target    string `json:"target"`               // held-covered | held-uncovered | not-held
	Malformed string `json:"malformed,omitempty"`  // "", short, ethertype, hwlen16, arp-truncated
	ThenValid bool   `json:"followed_by_a_valid_request,omitempty"`
	Intf      string `json:"interface"`
}

func c13PktCheck(res *verifrt.Result, p c13Pkt) {
	res.Count("evaluations", 1)
	f := newC13Fix()
	// s1 holds 10.0.0.4 on eth0 only; s2 holds 10.0.0.5 on all interfaces
	f.a.SetBalancer("ns/s1", NewIPAdvertisement(net.ParseIP("10.0.0.4"), false, sets.New("eth0")))
	f.a.SetBalancer("ns/s2", NewIPAdvertisement(net.ParseIP("10.0.0.5"), true, sets.New[string]()))
	f.a.VerifDrainSpam()
	own := macEth0
	if p.Intf == "eth1" {
		own = macEth1
	}
	dst := map[string]net.HardwareAddr{"broadcast": bcast, "own": own, "other": macOther,
		// group addresses that are not the broadcast address, an almost-broadcast address, another unicast address with an odd second octet
		"ipv4-multicast": {0x01, 0x00, 0x5e, 0x00, 0x00, 0x01}, "ipv6-multicast": {0x33, 0x33, 0x00, 0x00, 0x00, 0x01}, "almost-broadcast": {0xff, 0xff, 0xff, 0xff, 0xff, 0xfe},
		"other-local-admin": {0x02, 0x01, 0x02, 0x03, 0x04, 0x05}, "own-but-last-octet": {own[0], own[1], own[2], own[3], own[4], own[5] ^ 1}}[p.Dst]
	target := map[string]string{"held-covered": "10.0.0.5", "held-uncovered": "10.0.0.4", "not-held": "10.0.0.77"}[p.Target]
	if p.Intf == "eth0" && p.Target == "held-uncovered" {
		target = "10.0.0.4" // covered on eth0: then it counts as covered
	}
	coveredHere := p.Target == "held-covered" || (p.Target == "held-uncovered" && p.Intf == "eth0")
	frame := arpFrame(dst, macOther, 0x0806, uint16(p.Op), macOther, net.ParseIP("10.0.0.200"), net.HardwareAddr{0, 0, 0, 0, 0, 0}, net.ParseIP(target))
	switch p.Malformed {
	case "short":
		frame = frame[:30]
	case "ethertype":
		frame[12], frame[13] = 0x08, 0x00
	case "hwlen16":
		frame[18] = 16 // hardware address length claims more bytes than the payload has
	case "arp-truncated":
		frame = frame[:14+12]
	}
	pc := f.pcs[p.Intf]
	pc.in = [][]byte{frame}
	if p.ThenValid {
		// a frame the responder cannot decode must not end it: the well-formed request behind it is still answered
		own2 := macEth0
		if p.Intf == "eth1" {
			own2 = macEth1
		}
		_ = own2
		pc.in = append(pc.in, arpFrame(bcast, macOther, 0x0806, 1, macOther, net.ParseIP("10.0.0.200"), net.HardwareAddr{0, 0, 0, 0, 0, 0}, net.ParseIP("10.0.0.5")))
	}
	var results []string
	for i := 0; i < 3; i++ {
		r := f.a.VerifProcessRequest(f.idxs[p.Intf])
		results = append(results, r)
		if r == "closed" {
			break
		}
	}
	out := pc.take()
	wantReply := p.Malformed == "" && p.Op == 1 && (p.Dst == "broadcast" || p.Dst == "own") && coveredHere
	if p.ThenValid {
		n := 0
		if wantReply {
			n = 1
		}
		if len(out) != n+1 {
			res.Violate("C13 a well-formed request behind a frame that is not answered gets no answer first="+p.Malformed, fmt.Sprintf("%+v: %d frames written (want %d), results %v", p, len(out), n+1, results), c13Case{Part: "pkt", Packet: &p})
		}
		return
	}
	res.Outcome(fmt.Sprintf("reply=%v results=%v", len(out) > 0, results))
	c := c13Case{Part: "pkt", Packet: &p}
	switch {
	case wantReply && len(out) != 1:
		res.Violate("C13 ARP request for an announced address is not answered", fmt.Sprintf("%+v: %d frames written, results %v", p, len(out), results), c)
	case !wantReply && len(out) != 0:
		why := "other"
		switch {
		case p.Malformed != "":
			why = "malformed-frame"
		case p.Op != 1:
			why = fmt.Sprintf("arp-operation-%d-is-not-a-request", p.Op)
		case p.Dst != "broadcast" && p.Dst != "own":
			why = "ethernet-destination-is-" + p.Dst
		case !coveredHere:
			why = "address-" + p.Target
		}
		res.Violate("C13 frame answered although it must not be reason="+why, fmt.Sprintf("%+v: %d frames written", p, len(out)), c)
	case wantReply:
		r, ok := parseARP(out[0])
		if !ok || r.op != 2 || r.sha.String() != own.String() || !r.spa.Equal(net.ParseIP(target)) || r.dst.String() != macOther.String() {
			res.Violate("C13 ARP reply content wrong", fmt.Sprintf("%+v: reply %+v", p, r), c)
		}
	}
}

// ---- part conc ----

type c13Conc struct {
	Name    string  `json:"name"`
	Pre     []c13Op `json:"pre"`
	Writer  []c13Op `json:"writer"`
	Queries [][2]string `json:"queries"` // (ip, interface) asked through processRequest
	Spam    bool    `json:"spam_thread"`
	// QueueCap > 0: the queue of gratuitous-announcement requests is shrunk to this capacity and a consumer thread does
	// what the spam loop does with each entry (receive, then announce under the read lock): a full queue is then within
	// the bound
	QueueCap int `json:"spam_queue_capacity,omitempty"`
}

type c13Obs struct {
	writerDoneAtCall, writerStartedAtRet int
	got                                  string
	ip, intf                             string
	kind                                 string
	frames                               map[string]int
	adv                                  IPAdvertisement
}

// c13ConcRun executes the scenario; with a scheduler the three bodies are scheduler threads, without
// one they are plain goroutines (free-running race pass).
func c13ConcRun(sc c13Conc) (f *c13Fix, obs []c13Obs, finalModel refModel, states []refModel) {
	f = newC13Fix()
	model := refModel{}
	for _, o := range sc.Pre {
		if o.Kind == "del" {
			f.a.DeleteBalancer(c13Svcs[o.Svc])
		} else {
			f.a.SetBalancer(c13Svcs[o.Svc], o.adv())
		}
		model.apply(o)
	}
	pre := f.a.VerifDrainSpam()
	if sc.QueueCap > 0 {
		f.a.VerifShrinkSpamQueue(sc.QueueCap)
	}
	states = []refModel{model.clone()}
	m2 := model.clone()
	for _, o := range sc.Writer {
		m2.apply(o)
		states = append(states, m2.clone())
	}
	started, done := 0, 0
	remaining := 0
	var wg sync.WaitGroup
	s := verifrt.CurSched()
	// Under the scheduler exactly one thread runs at a time, so the bookkeeping below needs no lock; the
	// free-running race pass records nothing (no harness synchronisation that could hide a race).
	record := s != nil
	run := func(name string, body func()) {
		if s != nil {
			remaining++
			verifrt.Go(name, func() { body(); remaining-- })
			return
		}
		wg.Add(1)
		go func() { defer wg.Done(); body() }()
	}
	run("writer", func() {
		for _, o := range sc.Writer {
			if record {
				started++
			}
			if o.Kind == "del" {
				f.a.DeleteBalancer(c13Svcs[o.Svc])
			} else {
				f.a.SetBalancer(c13Svcs[o.Svc], o.adv())
			}
			if record {
				done++
			}
		}
	})
	run("requests", func() {
		for _, q := range sc.Queries {
			pc := f.pcs[q[1]]
			own := macEth0
			if q[1] == "eth1" {
				own = macEth1
			}
			pc.mu.Lock()
			pc.in = append(pc.in, arpFrame(own, macOther, 0x0806, 1, macOther, net.ParseIP("10.0.0.200"), net.HardwareAddr{0, 0, 0, 0, 0, 0}, net.ParseIP(q[0])))
			pc.mu.Unlock()
			o := c13Obs{kind: "query", ip: q[0], intf: q[1]}
			if record {
				o.writerDoneAtCall = done
			}
			o.got = f.a.VerifProcessRequest(f.idxs[q[1]])
			if record {
				o.writerStartedAtRet = started
				obs = append(obs, o)
			}
		}
	})
	if sc.Spam {
		spamIP := ""
		if record {
			for name, pc := range f.pcs {
				name := name
				pc.onWrite = func(b []byte) {
					if s.CurName() == "spam" && spamIP != "" {
						// an unsolicited announcement leaves now: judged by what the writer has completed / begun at this very moment
						obs = append(obs, c13Obs{kind: "frame", ip: spamIP, intf: name, writerDoneAtCall: done, writerStartedAtRet: started})
					}
				}
			}
		}
		run("spam", func() {
			for _, adv := range pre {
				spamIP = VerifAdvIP(adv).String()
				f.a.VerifGratuitous(adv)
				spamIP = ""
			}
		})
	}
	if sc.QueueCap > 0 {
		run("spamloop", func() {
			for n := 0; n < len(sc.Writer); {
				if s != nil {
					s.Yield(func() bool { return f.a.VerifSpamQueued() > 0 || done == len(sc.Writer) }, "receive from the spam queue")
				}
				adv, ok := f.a.VerifTakeSpam(s == nil)
				if !ok {
					if s != nil && done == len(sc.Writer) {
						return
					}
					continue
				}
				n++
				f.a.VerifGratuitous(adv)
			}
		})
	}
	if s != nil {
		s.Yield(func() bool { return remaining == 0 }, "join")
	} else {
		wg.Wait()
	}
	return f, obs, states[len(states)-1], states
}

func c13ConcScenarios() []c13Conc {
	set := func(svc, ip, sc int) c13Op { return c13Op{Kind: "set", Svc: svc, IP: ip, Scope: sc} }
	del := func(svc int) c13Op { return c13Op{Kind: "del", Svc: svc} }
	return []c13Conc{
		{Name: "shared-address-different-scopes", Pre: []c13Op{set(0, 0, 1)}, Writer: []c13Op{set(1, 0, 2), del(0)}, Queries: [][2]string{{"10.0.0.4", "eth0"}, {"10.0.0.4", "eth1"}}, Spam: true},
		{Name: "last-holder-withdrawal", Pre: []c13Op{set(0, 0, 0)}, Writer: []c13Op{del(0), set(1, 1, 0)}, Queries: [][2]string{{"10.0.0.4", "eth0"}, {"10.0.0.4", "eth0"}}, Spam: true},
		{Name: "re-announce-with-changed-scope", Pre: []c13Op{set(0, 0, 1)}, Writer: []c13Op{set(0, 0, 2), set(0, 0, 0)}, Queries: [][2]string{{"10.0.0.4", "eth0"}, {"10.0.0.4", "eth1"}}, Spam: true},
		{Name: "withdrawal-of-one-of-two-holders", Pre: []c13Op{set(0, 0, 0), set(1, 0, 0)}, Writer: []c13Op{del(1), del(0)}, Queries: [][2]string{{"10.0.0.4", "eth0"}, {"10.0.0.4", "eth1"}}, Spam: true},
		{Name: "dual-address-service", Pre: []c13Op{set(0, 0, 0), set(1, 0, 0), set(1, 1, 1)}, Writer: []c13Op{del(1), set(2, 1, 0)}, Queries: [][2]string{{"10.0.0.5", "eth0"}, {"10.0.0.5", "eth1"}}, Spam: true},
		{Name: "three-announcements-against-a-full-spam-queue", Pre: nil, Writer: []c13Op{set(0, 0, 0), set(1, 0, 0), set(2, 1, 0)}, Queries: [][2]string{{"10.0.0.4", "eth0"}}, QueueCap: 1},
		{Name: "announce-then-withdraw", Pre: nil, Writer: []c13Op{set(0, 0, 0), del(0), set(0, 0, 1)}, Queries: [][2]string{{"10.0.0.4", "eth0"}, {"10.0.0.4", "eth1"}}, Spam: false},
	}
}

// c13ConcCheck: single-writer linearizability: every read observes the state after j writer operations
// for some j between the operations completed when it was called and those started when it returned.
func c13ConcCheck(res *verifrt.Result, sc c13Conc, f *c13Fix, obs []c13Obs, states []refModel, mk func() c13Case, sched string) {
	viol := func(sig, detail string) {
		res.Violate(sig, detail+"\n  scenario: "+sc.Name+"\n  schedule: "+sched, mk())
	}
	final := states[len(states)-1]
	for _, ip := range c13IPs {
		if got, want := f.a.VerifRefcnt(ip), final.holders(ip); got != want {
			viol("C13 conc: final use count differs from the serial result", fmt.Sprintf("%s: %d vs %d", ip, got, want))
		}
		for _, intf := range []string{"eth0", "eth1"} {
			if got, want := f.a.VerifAnswer(net.ParseIP(ip), intf), final.answer(ip, intf); got != want {
				viol("C13 conc: final responder decision differs from the serial result", fmt.Sprintf("%s@%s: %s vs %s", ip, intf, got, want))
			}
		}
	}
	for _, o := range obs {
		if o.kind == "frame" {
			// an unsolicited announcement may only leave while some state between "the writer's completed operations" and
			// "the operations it has begun" has the address held (the loop sends under the read lock: no announcement for an
			// address leaves after its withdrawal has returned)
			held := false
			for j := o.writerDoneAtCall; j <= o.writerStartedAtRet && j < len(states); j++ {
				held = held || states[j].holders(o.ip) > 0
			}
			if !held {
				viol("C13 conc: unsolicited announcement sent after the withdrawal of the address had returned", fmt.Sprintf("%s on %s, writer had completed %d operations", o.ip, o.intf, o.writerDoneAtCall))
			}
			continue
		}
		if o.kind != "query" {
			continue
		}
		ok := false
		var wants []string
		for j := o.writerDoneAtCall; j <= o.writerStartedAtRet && j < len(states); j++ {
			w := states[j].answer(o.ip, o.intf)
			if w == "answer" {
				w = "answered"
			}
			wants = append(wants, w)
			if w == o.got {
				ok = true
			}
		}
		if !ok {
			viol("C13 conc: request answered inconsistently with every serial order got="+o.got, fmt.Sprintf("%s@%s: got %s, admissible %v", o.ip, o.intf, o.got, wants))
		}
	}
}

func TestVerif_C13(t *testing.T) {
	res := verifrt.NewResult("C13")
	defer res.Write()
	part := os.Getenv("VERIF_C13_PART")
	if raw, ok := verifrt.ReplayCase(); ok {
		var c c13Case
		if err := json.Unmarshal(raw, &c); err != nil {
			t.Fatal(err)
		}
		switch c.Part {
		case "seq":
			sys := &c13Sys{f: newC13Fix(), model: refModel{}}
			var hist []verifrt.Event
			for _, o := range c.Ops {
				ev := verifrt.Event{Kind: o.Kind, A: o.Svc, B: o.IP*10 + o.Scope, User: true}
				sys.Apply(ev)
				hist = append(hist, ev)
				c13SeqCheck(res, sys, hist)
			}
		case "pkt":
			c13PktCheck(res, *c.Packet)
		case "conc":
			for i := 0; i < 5; i++ {
				c13RunConcOnce(res, *c.Conc, c.Schedule)
			}
		}
		res.Replayed = true
		return
	}
	if part == "" || part == "seq" {
		depth := 4
		if verifrt.Thorough() {
			depth = 5
		}
		var roots [][]verifrt.Event
		init := &c13Sys{f: newC13Fix(), model: refModel{}}
		for i, e := range init.Enabled() {
			if verifrt.Mine(i) {
				roots = append(roots, []verifrt.Event{e})
			}
		}
		b := &verifrt.BFS{New: func() verifrt.System { return &c13Sys{f: newC13Fix(), model: refModel{}} }, Roots: roots, MaxUser: depth, Horizon: 50, Res: res,
			Deadline: time.Now().Add(verifrt.Budget()),
			After: func(sys verifrt.System, hist []verifrt.Event, ev verifrt.Event, pre interface{}, isNew bool) {
				c13SeqCheck(res, sys.(*c13Sys), hist)
			}}
		for _, r := range roots {
			b.Replay(r)
		}
		b.Run()
		res.Info["seq_depth"] = depth
	}
	if (part == "" || part == "pkt") && verifrt.Shard() == 0 {
		for op := 0; op <= 10; op++ {
			for _, dst := range []string{"broadcast", "own", "other", "ipv4-multicast", "ipv6-multicast", "almost-broadcast", "other-local-admin", "own-but-last-octet"} {
				for _, tg := range []string{"held-covered", "held-uncovered", "not-held"} {
					for _, mal := range []string{"", "short", "ethertype", "hwlen16", "arp-truncated"} {
						for _, intf := range []string{"eth0", "eth1"} {
							p := c13Pkt{Op: op, Dst: dst, Target: tg, Malformed: mal, Intf: intf}
							res.Sample(p)
							c13PktCheck(res, p)
							if op <= 2 {
								p.ThenValid = true
								c13PktCheck(res, p)
							}
						}
					}
				}
			}
		}
	}
	if part == "" || part == "conc" {
		bound := 2
		if verifrt.Thorough() {
			bound = 3
		}
		for si, sc := range c13ConcScenarios() {
			sc := sc
			var f *c13Fix
			var obs []c13Obs
			var states []refModel
			mkSched := func() *verifrt.Sched {
				return &verifrt.Sched{Horizon: 3000, Daemon: map[string]bool{}}
			}
			for b := 0; b <= bound; b++ {
				st := verifrt.Explore(b, time.Now().Add(verifrt.Budget()), mkSched,
					func(s *verifrt.Sched) { f, obs, _, states = c13ConcRun(sc) },
					func(s *verifrt.Sched) {
						res.Count("executions", 1)
						res.Count("transitions", int64(len(s.Trace)))
						if s.Panic != "" {
							res.Violate("C13 conc: panic", s.Panic, c13Case{Part: "conc", Conc: &sc, Schedule: s.Trace})
							return
						}
						if s.Deadlock {
							res.Violate("C13 conc: deadlock "+strings.Join(s.Blocked, ","), s.Describe(), c13Case{Part: "conc", Conc: &sc, Schedule: s.Trace})
							return
						}
						sort.SliceStable(obs, func(i, j int) bool { return false })
						c13ConcCheck(res, sc, f, obs, states, func() c13Case { return c13Case{Part: "conc", Conc: &sc, Schedule: append([]int{}, s.Trace...)} }, s.Describe())
						res.Outcome(fmt.Sprintf("%s:%v", sc.Name, obsSummary(obs)))
					},
					func(k int) bool { return verifrt.Mine(k + si) })
				if st.Cut {
					res.NotExhaustive("time budget in conc scenario " + sc.Name)
					break
				}
			}
		}
		res.Info["conc_preemption_bound"] = bound
	}
	res.Count("states", res.Counters["executions"])
	res.Count("traces_validated_against_impl", res.Counters["transitions"])
	res.Count("distinct_nontrivial", res.Counters["states"])
}

func obsSummary(obs []c13Obs) string {
	var s []string
	for _, o := range obs {
		if o.kind == "query" {
			s = append(s, o.got)
		}
	}
	return strings.Join(s, ",")
}

func c13RunConcOnce(res *verifrt.Result, sc c13Conc, schedule []int) {
	s := &verifrt.Sched{Horizon: 3000, Prefix: schedule, Daemon: map[string]bool{}}
	var f *c13Fix
	var obs []c13Obs
	var states []refModel
	s.Run(func() { f, obs, _, states = c13ConcRun(sc) })
	if s.Deadlock || s.Panic != "" {
		res.Violate("C13 conc: deadlock or panic", s.Panic+strings.Join(s.Blocked, ","), c13Case{Part: "conc", Conc: &sc, Schedule: schedule})
		return
	}
	c13ConcCheck(res, sc, f, obs, states, func() c13Case { return c13Case{Part: "conc", Conc: &sc, Schedule: schedule} }, s.Describe())
}

// TestVerif_C13race: the same concurrent bodies free-running (plain goroutines, pass-through shims) for the race detector.
func TestVerif_C13race(t *testing.T) {
	res := verifrt.NewResult("C13")
	defer res.Write()
	for i := 0; i < 200; i++ {
		for _, sc := range c13ConcScenarios() {
			c13ConcRun(sc)
			res.Count("evaluations", 1)
		}
	}
	res.Count("distinct_nontrivial", int64(len(c13ConcScenarios())))
}
