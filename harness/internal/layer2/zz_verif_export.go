//go:build verif

package layer2

import (
	"fmt"
	"io"
	"net"
	"sort"
	"strings"
	gosync "sync"

	"github.com/mdlayher/arp"
	"github.com/mdlayher/ndp"
)

// VerifSetInterfaces sets the local interface list (what interfaceScan would have found).
func (a *Announce) VerifSetInterfaces(ifs []string) {
	a.Lock()
	defer a.Unlock()
	a.nodeInterfaces = append([]string{}, ifs...)
}

func advString(adv IPAdvertisement) string {
	if adv.allInterfaces {
		return adv.ip.String() + "@all"
	}
	ifs := adv.interfaces.UnsortedList()
	sort.Strings(ifs)
	return adv.ip.String() + "@" + strings.Join(ifs, "+")
}

// VerifDump is a canonical dump of the announcer's memory.
func (a *Announce) VerifDump() string {
	a.RLock()
	defer a.RUnlock()
	var names []string
	for n := range a.ips {
		names = append(names, n)
	}
	sort.Strings(names)
	var b strings.Builder
	for _, n := range names {
		var advs []string
		for _, adv := range a.ips[n] {
			advs = append(advs, advString(adv))
		}
		fmt.Fprintf(&b, "ips %s %v\n", n, advs)
	}
	var ips []string
	for ip, c := range a.ipRefcnt {
		if c != 0 {
			ips = append(ips, fmt.Sprintf("%s=%d", ip, c))
		}
	}
	sort.Strings(ips)
	fmt.Fprintf(&b, "refcnt %v\n", ips)
	return b.String()
}

// VerifHeld returns service -> advertisement strings.
func (a *Announce) VerifHeld() map[string][]string {
	a.RLock()
	defer a.RUnlock()
	out := map[string][]string{}
	for n, advs := range a.ips {
		for _, adv := range advs {
			out[n] = append(out[n], advString(adv))
		}
		sort.Strings(out[n])
	}
	return out
}

func (a *Announce) VerifRefcnt(ip string) int {
	a.RLock()
	defer a.RUnlock()
	return a.ipRefcnt[ip]
}

// VerifAnswer is the real responder decision for (ip, interface).
func (a *Announce) VerifAnswer(ip net.IP, intf string) string {
	switch a.shouldAnnounce(ip, intf) {
	case dropReasonNone:
		return "answer"
	case dropReasonNotMatchInterface:
		return "held-other-interface"
	case dropReasonAnnounceIP:
		return "not-held"
	}
	return "?"
}

// VerifDrainSpam empties the spam channel (the spam loop is suppressed in sequential harnesses)
// and returns what SetBalancer queued.
func (a *Announce) VerifDrainSpam() []IPAdvertisement {
	var out []IPAdvertisement
	for {
		select {
		case adv := <-a.spamCh:
			out = append(out, adv)
		default:
			return out
		}
	}
}

func (a *Announce) VerifGratuitous(adv IPAdvertisement) { a.gratuitous(adv) }

func VerifAdvString(adv IPAdvertisement) string { return advString(adv) }

// VerifAddARPResponder installs a real arpResponder over an arbitrary packet connection (no raw socket)
// under interface index idx; its run loop is not started: harnesses call VerifProcessRequest.
func (a *Announce) VerifAddARPResponder(ifi *net.Interface, idx int, pc net.PacketConn) error {
	c, err := arp.New(ifi, pc)
	if err != nil {
		return err
	}
	a.Lock()
	defer a.Unlock()
	a.arps[idx] = &arpResponder{logger: a.logger, intf: ifi.Name, hardwareAddr: ifi.HardwareAddr, conn: c, closed: make(chan struct{}), announce: a.shouldAnnounce}
	return nil
}

// VerifProcessRequest runs the real processRequest of the responder under idx once.
func (a *Announce) VerifProcessRequest(idx int) string {
	a.RLock()
	r := a.arps[idx]
	a.RUnlock()
	switch r.processRequest() {
	case dropReasonNone:
		return "answered"
	case dropReasonClosed:
		return "closed"
	case dropReasonError:
		return "error"
	case dropReasonARPReply:
		return "not-a-request"
	case dropReasonEthernetDestination:
		return "other-destination"
	case dropReasonAnnounceIP:
		return "not-held"
	case dropReasonNotMatchInterface:
		return "held-other-interface"
	}
	return "?"
}

// VerifNewAnnounce builds an Announce exactly as New does, minus starting the two background loops
// (used where even the R-go rewrite is not applied).
func VerifAdvIP(adv IPAdvertisement) net.IP { return adv.ip }

// VerifAddNDPResponder opens a real NDP responder (ICMPv6 listener on the interface's link-local address) and
// installs it under interface index idx. The returned function closes it.
func (a *Announce) VerifAddNDPResponder(ifi *net.Interface, idx int) (func(), error) {
	r, err := newNDPResponder(a.logger, ifi, a.shouldAnnounce)
	if err != nil {
		return nil, err
	}
	a.Lock()
	a.ndps[idx] = r
	a.Unlock()
	return func() { _ = r.Close() }, nil
}

// VerifNDPGroups dumps the group bookkeeping of the NDP responder installed under idx.
func (a *Announce) VerifNDPGroups(idx int) string {
	a.RLock()
	defer a.RUnlock()
	r := a.ndps[idx]
	if r == nil {
		return ""
	}
	var gs []string
	for g, n := range r.solicitedNodeGroups {
		gs = append(gs, fmt.Sprintf("%s=%v", g, n))
	}
	sort.Strings(gs)
	return strings.Join(gs, ",")
}

// VerifShrinkSpamQueue replaces the queue of gratuitous-announcement requests by one of capacity n (same type, same
// producer code): "the queue is full" then needs n+1 requests instead of 1025.
func (a *Announce) VerifShrinkSpamQueue(n int) { a.spamCh = make(chan IPAdvertisement, n) }

func (a *Announce) VerifSpamQueued() int { return len(a.spamCh) }

// VerifTakeSpam receives one request from the queue (blocking if asked to, as the spam loop does).
func (a *Announce) VerifTakeSpam(block bool) (IPAdvertisement, bool) {
	if block {
		return <-a.spamCh, true
	}
	select {
	case adv := <-a.spamCh:
		return adv, true
	default:
		return IPAdvertisement{}, false
	}
}

// ---- NDP responder over an in-memory connection -------------------------------------------------------------------
// ndp.Conn is a concrete type over a raw ICMPv6 socket. With the R-call rewrite of ndp.go (n.conn.ReadFrom/WriteTo/
// JoinGroup/LeaveGroup -> the functions below) a responder whose record is registered here reads frames the harness
// queued - raw ICMPv6 bytes, parsed by the library's own ParseMessage exactly as Conn.ReadFrom does, parse errors
// filtered as it does - and its writes are marshalled with the library's MarshalMessage and recorded. Responders that
// are not registered (the ndp-groups part) keep using their real connection.

type VerifNDPFrame struct {
	Raw []byte
	Src net.IP
}

type VerifNDPSent struct {
	Raw []byte
	Dst net.IP
}

type VerifNDPFake struct {
	mu     gosync.Mutex
	In     []VerifNDPFrame
	Out    []VerifNDPSent
	Joined map[string]bool
	Errors []string // group operations the kernel would have refused
	Closed bool
	FailJoins   int
	FailedJoins []string
}

var (
	verifNDPMu    gosync.Mutex
	verifNDPFakes = map[*ndpResponder]*VerifNDPFake{}
)

func verifNDPFakeOf(n *ndpResponder) *VerifNDPFake {
	verifNDPMu.Lock()
	defer verifNDPMu.Unlock()
	if f := verifNDPFakes[n]; f != nil {
		return f
	}
	if n.conn == nil {
		// a responder the real updateInterfaces created on a virtual interface (verifNDPDial returned no connection)
		if f := VerifVirtualNDP[n.intf]; f != nil {
			verifNDPFakes[n] = f
			return f
		}
	}
	return nil
}

// ---- virtual interfaces for the real updateInterfaces -------------------------------------------------------------
// VerifVirtualIfs, when non-nil, is what net.Interfaces() returns to updateInterfaces (R-call rewrite of announcer.go);
// VerifVirtualAddrs gives the addresses of each; VerifVirtualNDP holds the in-memory connection a responder created on
// a virtual interface gets (one per interface name, replaced by the harness before every execution).
var (
	VerifVirtualIfs   []net.Interface
	VerifVirtualAddrs = map[string][]net.Addr{}
	VerifVirtualNDP   = map[string]*VerifNDPFake{}
	VerifNDPDials     int
)

func verifNetInterfaces() ([]net.Interface, error) {
	if VerifVirtualIfs != nil {
		return append([]net.Interface{}, VerifVirtualIfs...), nil
	}
	return net.Interfaces()
}

func verifIfAddrs(ifi net.Interface) ([]net.Addr, error) {
	if VerifVirtualIfs != nil {
		return VerifVirtualAddrs[ifi.Name], nil
	}
	return ifi.Addrs()
}

func verifNDPDial(ifi *net.Interface, addr ndp.Addr) (*ndp.Conn, net.IP, error) {
	if VerifVirtualIfs != nil {
		VerifNDPDials++
		if VerifVirtualNDP[ifi.Name] == nil {
			return nil, nil, fmt.Errorf("verif: no virtual connection for %s", ifi.Name)
		}
		return nil, nil, nil
	}
	return ndp.Dial(ifi, addr)
}

func verifNDPClose(n *ndpResponder) error {
	if f := verifNDPFakeOf(n); f != nil {
		f.mu.Lock()
		f.Closed = true
		f.Joined = map[string]bool{} // closing the socket leaves its groups
		f.mu.Unlock()
		return nil
	}
	return n.conn.Close()
}

// VerifUpdateInterfaces runs the real interface scan once.
func (a *Announce) VerifUpdateInterfaces() { a.updateInterfaces() }

// VerifNDPResponderNames lists the interfaces that have an NDP responder.
func (a *Announce) VerifNDPResponderNames() []string {
	a.RLock()
	defer a.RUnlock()
	var out []string
	for _, r := range a.ndps {
		out = append(out, r.intf)
	}
	sort.Strings(out)
	return out
}

// VerifNDPIndex returns the index under which the responder of interface name is registered (-1: none).
func (a *Announce) VerifNDPIndex(name string) int {
	a.RLock()
	defer a.RUnlock()
	for i, r := range a.ndps {
		if r.intf == name {
			return i
		}
	}
	return -1
}

// (the control message is typed interface{}: naming *ipv6.ControlMessage would make golang.org/x/net a direct dependency
// of the package and "go test -mod=mod" would rewrite /repo/go.mod; processRequest discards it anyway)
func verifNDPReadFrom(n *ndpResponder) (ndp.Message, interface{}, net.IP, error) {
	f := verifNDPFakeOf(n)
	if f == nil {
		m, cm, ip, err := n.conn.ReadFrom()
		return m, cm, ip, err
	}
	for {
		f.mu.Lock()
		if len(f.In) == 0 {
			f.mu.Unlock()
			return nil, nil, nil, io.EOF
		}
		fr := f.In[0]
		f.In = f.In[1:]
		f.mu.Unlock()
		m, err := ndp.ParseMessage(fr.Raw)
		if err != nil {
			continue // Conn.ReadFrom filters parse errors on the caller's behalf
		}
		return m, nil, fr.Src, nil
	}
}

func verifNDPWriteTo(n *ndpResponder, m ndp.Message, cm interface{}, dst net.IP) error {
	f := verifNDPFakeOf(n)
	if f == nil {
		return n.conn.WriteTo(m, nil, dst) // the responder never passes a control message
	}
	b, err := ndp.MarshalMessage(m)
	if err != nil {
		return err
	}
	f.mu.Lock()
	f.Out = append(f.Out, VerifNDPSent{Raw: b, Dst: append(net.IP{}, dst...)})
	f.mu.Unlock()
	return nil
}

func verifNDPJoinGroup(n *ndpResponder, group net.IP) error {
	f := verifNDPFakeOf(n)
	if f == nil {
		return n.conn.JoinGroup(group)
	}
	f.mu.Lock()
	defer f.mu.Unlock()
	if f.FailJoins > 0 {
		// environment fault: the kernel refuses this join (out of memberships, interface flapping ...)
		f.FailJoins--
		f.FailedJoins = append(f.FailedJoins, group.String())
		return fmt.Errorf("verif: injected join failure")
	}
	if f.Joined[group.String()] {
		f.Errors = append(f.Errors, "join of a group already joined: "+group.String())
		return fmt.Errorf("address already in use")
	}
	f.Joined[group.String()] = true
	return nil
}

// FailNextJoin makes the next JoinGroup on this connection fail.
func (f *VerifNDPFake) FailNextJoin() {
	f.mu.Lock()
	f.FailJoins++
	f.mu.Unlock()
}

// TakeFailedJoins returns (and forgets) the groups whose join was refused.
func (f *VerifNDPFake) TakeFailedJoins() []string {
	f.mu.Lock()
	defer f.mu.Unlock()
	out := f.FailedJoins
	f.FailedJoins = nil
	return out
}

// DropGroupErrorsFor forgets recorded group-operation errors that concern group g.
func (f *VerifNDPFake) DropGroupErrorsFor(g string) {
	f.mu.Lock()
	defer f.mu.Unlock()
	var keep []string
	for _, e := range f.Errors {
		if !strings.HasSuffix(e, " "+g) {
			keep = append(keep, e)
		}
	}
	f.Errors = keep
}

func verifNDPLeaveGroup(n *ndpResponder, group net.IP) error {
	f := verifNDPFakeOf(n)
	if f == nil {
		return n.conn.LeaveGroup(group)
	}
	f.mu.Lock()
	defer f.mu.Unlock()
	if !f.Joined[group.String()] {
		f.Errors = append(f.Errors, "leave of a group not joined: "+group.String())
		return fmt.Errorf("cannot assign requested address")
	}
	delete(f.Joined, group.String())
	return nil
}

// VerifAddFakeNDPResponder installs a real ndpResponder (its run loop not started) over an in-memory connection under
// interface index idx.
func (a *Announce) VerifAddFakeNDPResponder(name string, mac net.HardwareAddr, idx int) *VerifNDPFake {
	r := &ndpResponder{logger: a.logger, intf: name, hardwareAddr: mac, closed: make(chan struct{}), announce: a.shouldAnnounce,
		solicitedNodeGroups: map[string]int64{}}
	f := &VerifNDPFake{Joined: map[string]bool{}}
	verifNDPMu.Lock()
	verifNDPFakes[r] = f
	verifNDPMu.Unlock()
	a.Lock()
	a.ndps[idx] = r
	a.Unlock()
	return f
}

// VerifForgetFakeNDP drops the registry entries of this announcer's fake responders (keeps the registry small).
func (a *Announce) VerifForgetFakeNDP() {
	a.RLock()
	defer a.RUnlock()
	verifNDPMu.Lock()
	defer verifNDPMu.Unlock()
	for _, r := range a.ndps {
		delete(verifNDPFakes, r)
	}
}

func NewVerifNDPFake() *VerifNDPFake { return &VerifNDPFake{Joined: map[string]bool{}} }

func (f *VerifNDPFake) Push(raw []byte, src net.IP) {
	f.mu.Lock()
	f.In = append(f.In, VerifNDPFrame{Raw: raw, Src: src})
	f.mu.Unlock()
}

func (f *VerifNDPFake) TakeOut() []VerifNDPSent {
	f.mu.Lock()
	defer f.mu.Unlock()
	out := f.Out
	f.Out = nil
	return out
}

func (f *VerifNDPFake) Pending() int {
	f.mu.Lock()
	defer f.mu.Unlock()
	return len(f.In)
}

func (f *VerifNDPFake) Groups() []string {
	f.mu.Lock()
	defer f.mu.Unlock()
	var gs []string
	for g := range f.Joined {
		gs = append(gs, g)
	}
	sort.Strings(gs)
	return gs
}

func (f *VerifNDPFake) GroupErrors() []string {
	f.mu.Lock()
	defer f.mu.Unlock()
	return append([]string{}, f.Errors...)
}

// VerifProcessNDP runs the real processRequest of the NDP responder under idx once.
func (a *Announce) VerifProcessNDP(idx int) string {
	a.RLock()
	r := a.ndps[idx]
	a.RUnlock()
	switch r.processRequest() {
	case dropReasonNone:
		return "answered"
	case dropReasonClosed:
		return "closed"
	case dropReasonError:
		return "error"
	case dropReasonMessageType:
		return "not-a-solicitation"
	case dropReasonNoSourceLL:
		return "no-source-link-layer-address"
	case dropReasonAnnounceIP:
		return "not-held"
	case dropReasonNotMatchInterface:
		return "held-other-interface"
	}
	return "?"
}
