//go:build verif

package controllers

// C15, resource part: the FRRConfiguration *resource* that ends up in the API store. The real frr-k8s session
// manager is wired to the real FRRK8sReconciler (UpdateConfig -> Reconcile over the in-memory API store) as
// k8s.New wires them; every operation sequence of bounded length over a small alphabet of session operations
// (open, Set with an advertisement set, Close) x reconcile points is executed, and after every reconcile the
// stored resource must carry exactly the specification the session manager handed over last (the meaning of
// that specification is judged by the main part of C15).

import (
	"context"
	"encoding/json"
	"fmt"
	"reflect"
	"strings"
	"testing"
	"time"

	"github.com/go-kit/log"
	frrv1beta1 "github.com/metallb/frr-k8s/api/v1beta1"
	"go.universe.tf/metallb/internal/bgp"
	"go.universe.tf/metallb/internal/bgp/community"
	bgpfrr "go.universe.tf/metallb/internal/bgp/frr"
	frrk8s "go.universe.tf/metallb/internal/bgp/frrk8s"
	"go.universe.tf/metallb/internal/logging"
	"go.universe.tf/metallb/internal/verifenv"
	"go.universe.tf/metallb/internal/verifrt"
	"k8s.io/apimachinery/pkg/types"
	ctrl "sigs.k8s.io/controller-runtime"
	"sigs.k8s.io/controller-runtime/pkg/event"
)

type c15recOp struct {
	Kind    string `json:"kind"` // open, set, close, reconcile
	Session int    `json:"session,omitempty"`
	AdvSet  int    `json:"adv_set,omitempty"`
}

type c15recCase struct {
	Debug    bool       `json:"reconciler_log_level_debug"`
	Ops      []c15recOp `json:"ops"`
	Readable []string   `json:"readable"`
}

// sessions: indexes into the shared session catalogue (plain IPv4, a second IPv4 peer, one with password/timers)
var c15recSessions = []int{0, 1, 4}

// advertisement sets: indexes into the shared advertisement catalogue; chosen so that one set is a tail-removal of
// another, one is empty, and one differs in attributes only
var c15recAdvSets = [][]int{{}, {0}, {0, 1}, {1}, {0, 3}, {2, 5, 6}, {3, 0}}

func c15recExec(res *verifrt.Result, c c15recCase) {
	res.Count("evaluations", 1)
	cat, advs := bgpfrr.VerifSessionCatalogue(), bgpfrr.VerifAdvCatalogue()
	store := verifenv.NewStore()
	r := &FRRK8sReconciler{Client: store, Logger: log.NewNopLogger(), NodeName: "node1", FRRK8sNamespace: "frr-k8s-system"}
	if c.Debug {
		r.LogLevel = logging.LevelDebug // the reconciler then also dumps the applied configuration (with passwords retracted)
	}
	r.configChangedChan = make(chan struct{}, 4096) // the debouncer is C19's subject: here its input is only counted
	r.reconcileChan = make(chan event.GenericEvent, 1)
	sm := frrk8s.NewSessionManager(log.NewNopLogger(), logging.LevelInfo, "node1", "frr-k8s-system")
	var handed *frrv1beta1.FRRConfiguration
	sm.SetEventCallback(func(i interface{}) {
		cfg := i.(frrv1beta1.FRRConfiguration)
		handed = cfg.DeepCopy()
		r.UpdateConfig(i)
	})
	open := map[int]bgp.Session{}
	accepted := map[int][]string{} // per open session: the prefixes of its last accepted Set
	acceptedSet := map[int]int{}   // per open session: index of the advertisement set of its last accepted Set (-1: none yet)
	var openOrder []int
	refusedSeen := false
	// fresh computes what a newly started session manager hands over for the sessions open now with their last accepted
	// requests (the resource is a function of the session set: C15)
	fresh := func() *frrv1beta1.FRRConfiguration {
		sm2 := frrk8s.NewSessionManager(log.NewNopLogger(), logging.LevelInfo, "node1", "frr-k8s-system")
		var h2 *frrv1beta1.FRRConfiguration
		sm2.SetEventCallback(func(i interface{}) {
			cfg := i.(frrv1beta1.FRRConfiguration)
			h2 = cfg.DeepCopy()
		})
		for _, si := range openOrder {
			s2, err := sm2.NewSession(log.NewNopLogger(), cat[c15recSessions[si]].Params)
			if err != nil {
				return nil
			}
			if ai := acceptedSet[si]; ai >= 0 {
				var as []*bgp.Advertisement
				for _, k := range c15recAdvSets[ai] {
					as = append(as, advs[k].Adv())
				}
				if err := s2.Set(as...); err != nil {
					return nil
				}
			}
		}
		return h2
	}
	viol := func(sig, detail string) {
		res.Violate(sig, detail+"\n  operations: "+strings.Join(c.Readable, " ; "), c)
	}
	for i, op := range c.Ops {
		res.Count("transitions", 1)
		switch op.Kind {
		case "open":
			s, err := sm.NewSession(log.NewNopLogger(), cat[c15recSessions[op.Session]].Params)
			if err != nil {
				viol("C15 resource: NewSession failed", err.Error())
				return
			}
			open[op.Session] = s
			openOrder = append(openOrder, op.Session)
			acceptedSet[op.Session] = -1
		case "set":
			var as []*bgp.Advertisement
			for _, ai := range c15recAdvSets[op.AdvSet] {
				as = append(as, advs[ai].Adv())
			}
			if err := open[op.Session].Set(as...); err != nil {
				viol("C15 resource: Set failed", err.Error())
				return
			}
			accepted[op.Session] = nil
			acceptedSet[op.Session] = op.AdvSet
			for _, a := range as {
				accepted[op.Session] = append(accepted[op.Session], a.Prefix.String())
			}
		case "setbad":
			// a request the session must refuse (an advertisement with 64 communities between two good ones): the
			// session keeps what it advertised before
			var as []*bgp.Advertisement
			for j, ai := range c15recAdvSets[op.AdvSet] {
				as = append(as, advs[ai].Adv())
				if j == 0 {
					big := advs[7].Adv()
					for k := 0; k < 64; k++ {
						cc, _ := community.New(fmt.Sprintf("65000:%d", k+100))
						big.Communities = append(big.Communities, cc)
					}
					as = append(as, big)
				}
			}
			if err := open[op.Session].Set(as...); err == nil {
				viol("C15 resource: a Set with an advertisement of 64 communities was accepted", "")
				return
			}
			refusedSeen = true
		case "openbad":
			// a session request that must be refused (a password AND a secret reference): it leaves no trace - every later
			// operation on the other sessions works as before
			bad := cat[c15recSessions[op.Session]].Params
			bad.PeerAddress, bad.SessionName = "10.1.1.99", "refused"
			bad.Password = "both"
			bad.PasswordRef.Name, bad.PasswordRef.Namespace = "bgp-secret", "metallb-system"
			if _, err := sm.NewSession(log.NewNopLogger(), bad); err == nil {
				viol("C15 resource: a session with a password and a secret reference was accepted", "")
				return
			}
		case "close":
			if err := open[op.Session].Close(); err != nil {
				viol("C15 resource: Close failed", err.Error())
				return
			}
			delete(open, op.Session)
			delete(accepted, op.Session)
			delete(acceptedSet, op.Session)
			for k, v := range openOrder {
				if v == op.Session {
					openOrder = append(append([]int{}, openOrder[:k]...), openOrder[k+1:]...)
					break
				}
			}
		}
		if op.Kind != "reconcile" && handed != nil {
			for si := range c15recSessions {
				addr := cat[c15recSessions[si]].Params.PeerAddress
				want := map[string]bool{}
				for _, p := range accepted[si] {
					want[p] = true
				}
				var got []string
				found := false
				for _, rt := range handed.Spec.BGP.Routers {
					for _, nb := range rt.Neighbors {
						if nb.Address == addr {
							found = true
							got = append(got, nb.ToAdvertise.Allowed.Prefixes...)
						}
					}
				}
				_, isOpen := open[si]
				if found != isOpen {
					viol("C15 resource: neighbor list differs from the open sessions", fmt.Sprintf("%s listed=%v open=%v", addr, found, isOpen))
					return
				}
				bad := len(got) != len(want)
				for _, p := range got {
					bad = bad || !want[p]
				}
				if bad {
					after := "accepted-operations-only"
					for _, o := range c.Ops[:i+1] {
						if o.Kind == "setbad" {
							after = "after-a-refused-set"
						}
					}
					viol("C15 resource: allowed prefixes of a neighbor differ from its last accepted request "+after, fmt.Sprintf("%s: allowed %v, last accepted request %v", addr, got, accepted[si]))
					return
				}
			}
		}
		// differential: once a request was refused, everything handed over later must be what a freshly started session
		// manager hands over for the same sessions and their last accepted requests (communities, local preferences,
		// router prefixes and session parameters included)
		if refusedSeen && (op.Kind == "open" || op.Kind == "set" || op.Kind == "close") && handed != nil {
			if f := fresh(); f != nil && !reflect.DeepEqual(f.Spec, handed.Spec) {
				a, _ := json.Marshal(handed.Spec)
				b, _ := json.Marshal(f.Spec)
				viol("C15 resource: configuration handed over after a refused request differs from a freshly started session manager's", fmt.Sprintf("handed %s\nfresh  %s", a, b))
				return
			}
		}
		switch op.Kind {
		case "reconcile":
			if _, err := r.Reconcile(context.Background(), ctrl.Request{NamespacedName: types.NamespacedName{Name: "metallb-node1", Namespace: "frr-k8s-system"}}); err != nil {
				viol("C15 resource: reconcile failed", err.Error())
				return
			}
			// the resource just written comes back as a watch event: a second reconcile follows, and must change nothing
			w0 := store.Writes
			if _, err := r.Reconcile(context.Background(), ctrl.Request{NamespacedName: types.NamespacedName{Name: "metallb-node1", Namespace: "frr-k8s-system"}}); err != nil {
				viol("C15 resource: reconcile failed", err.Error())
				return
			}
			if store.Writes != w0 {
				viol("C15 resource: a reconcile without a new configuration wrote the resource again", fmt.Sprintf("writes %d -> %d", w0, store.Writes))
				return
			}
			cur, _ := store.Peek("FRRConfiguration", "frr-k8s-system", "metallb-node1").(*frrv1beta1.FRRConfiguration)
			switch {
			case handed == nil && cur != nil:
				viol("C15 resource: a resource exists although no configuration was handed over", fmt.Sprintf("%+v", cur.Spec))
			case handed != nil && cur == nil:
				if !reflect.DeepEqual(handed.Spec, frrv1beta1.FRRConfigurationSpec{}) {
					viol("C15 resource: no resource although a configuration was handed over", fmt.Sprintf("after operation %d", i))
				}
			case handed != nil && !reflect.DeepEqual(cur.Spec, handed.Spec):
				a, _ := json.Marshal(cur.Spec)
				b, _ := json.Marshal(handed.Spec)
				kind := "differs"
				if len(a) > len(b) {
					kind = "stale-content-kept"
				}
				viol("C15 resource: stored FRRConfiguration differs from the one handed over last kind="+kind, fmt.Sprintf("stored %s\nhanded %s", a, b))
			}
			if cur != nil {
				res.Outcome(fmt.Sprintf("routers=%d", len(cur.Spec.BGP.Routers)))
			}
		}
	}
}

func TestVerif_C15rec(t *testing.T) {
	res := verifrt.NewResult("C15")
	defer res.Write()
	if raw, ok := verifrt.ReplayCase(); ok {
		var c c15recCase
		if err := json.Unmarshal(raw, &c); err != nil {
			t.Fatal(err)
		}
		c15recExec(res, c)
		res.Replayed = true
		return
	}
	// the bound is iterated: the thorough tier completes 5 operations, then goes for 6 within what is left of its budget
	depths := []int{4}
	if verifrt.Thorough() {
		depths = []int{5, 6}
	}
	depth := depths[0]
	cat := bgpfrr.VerifSessionCatalogue()
	work := 0
	deadline := time.Now().Add(verifrt.Budget())
	cut := false
	var rec func(ops []c15recOp, readable []string, open map[int]bool, sinceRec bool)
	rec = func(ops []c15recOp, readable []string, open map[int]bool, sinceRec bool) {
		if cut || time.Now().After(deadline) {
			if !cut {
				cut = true
				res.NotExhaustive(fmt.Sprintf("resource part: time budget reached inside the enumeration of sequences of %d session operations (all shorter sequences that are prefixes of explored ones were judged)", depth))
			}
			return
		}
		if len(ops) > 0 && !sinceRec {
			// a sequence is executed when it ends in a reconcile (every prefix ending in one is its own sequence)
			c15recExec(res, c15recCase{Ops: ops, Readable: readable})
			c15recExec(res, c15recCase{Ops: ops, Readable: readable, Debug: true})
			res.Count("distinct_nontrivial", 2)
		}
		n := 0
		for _, o := range ops {
			if o.Kind != "reconcile" {
				n++
			}
		}
		if n >= depth && sinceRec {
			// close the sequence
			rec(append(append([]c15recOp{}, ops...), c15recOp{Kind: "reconcile"}), append(append([]string{}, readable...), "reconcile"), open, false)
			return
		}
		if n >= depth {
			return
		}
		next := func(op c15recOp, txt string, open2 map[int]bool) {
			if len(ops) == 2 { // shard on the third operation (the first is always an open)
				work++
				if !verifrt.Mine(work) {
					return
				}
			}
			rec(append(append([]c15recOp{}, ops...), op), append(append([]string{}, readable...), txt), open2, true)
		}
		for si := range c15recSessions {
			name := cat[c15recSessions[si]].Name
			if !open[si] {
				o2 := map[int]bool{si: true}
				for k := range open {
					o2[k] = true
				}
				next(c15recOp{Kind: "open", Session: si}, "open "+name, o2)
				continue
			}
			for ai := range c15recAdvSets {
				next(c15recOp{Kind: "set", Session: si, AdvSet: ai}, fmt.Sprintf("%s.Set(adv set %v)", name, c15recAdvSets[ai]), open)
			}
			for _, bi := range []int{2, 6} {
				next(c15recOp{Kind: "setbad", Session: si, AdvSet: bi}, fmt.Sprintf("%s.Set(adv set %v with a 64-community advertisement in the middle: refused)", name, c15recAdvSets[bi]), open)
			}
			o2 := map[int]bool{}
			for k := range open {
				if k != si {
					o2[k] = true
				}
			}
			next(c15recOp{Kind: "close", Session: si}, "close "+name, o2)
		}
		if len(ops) > 0 && ops[len(ops)-1].Kind != "openbad" {
			next(c15recOp{Kind: "openbad", Session: 0}, "open a session with password and secret reference (refused)", open)
		}
		if sinceRec && len(ops) > 0 {
			rec(append(append([]c15recOp{}, ops...), c15recOp{Kind: "reconcile"}), append(append([]string{}, readable...), "reconcile"), open, false)
		}
	}
	completed := 0
	for _, d := range depths {
		depth, work = d, 0
		rec(nil, nil, map[int]bool{}, false)
		if cut {
			break
		}
		completed = d
	}
	res.Info["max_session_operations_completed"] = completed
	res.Info["max_session_operations"] = depth
	res.Count("traces_validated_against_impl", res.Counters["evaluations"])
}
