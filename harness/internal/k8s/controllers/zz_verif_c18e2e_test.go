//go:build verif

package controllers

// C18 end to end: the real ConfigReconciler and PoolReconciler over the verifenv store. The API
// server lists the objects in every explored order (list-order and map-order choice vectors, <= 2
// deviations): after the first reconcile has applied the configuration, a second reconcile on the
// same snapshot must not call the handler again nor force a reload, whatever the orders.

import (
	"encoding/json"
	"context"
	"fmt"
	"testing"

	"github.com/go-kit/log"
	"go.universe.tf/metallb/internal/config"
	"go.universe.tf/metallb/internal/verifenv"
	"go.universe.tf/metallb/internal/verifrt"
	"k8s.io/apimachinery/pkg/types"
	ctrl "sigs.k8s.io/controller-runtime"
)

type c18e2eCase struct {
	Snapshot string `json:"snapshot"`
	K        int    `json:"k"`
	Kind     string `json:"reconciler"`
	First    []int  `json:"first_reconcile_choices"`
	Second   []int  `json:"second_reconcile_choices"`
	// Result: what the handler answers: "" ReprocessAll, "success", "noretry" (the handler refuses the configuration for
	// good: it is on record all the same, an unrelated event must not hand it over again)
	Result string `json:"handler_result,omitempty"`
}

func c18Store(snap *config.ClusterResources) *verifenv.Store {
	st := verifenv.NewStore()
	for i := range snap.Pools {
		st.Put(snap.Pools[i].DeepCopy())
	}
	for i := range snap.Peers {
		st.Put(snap.Peers[i].DeepCopy())
	}
	for i := range snap.BFDProfiles {
		st.Put(snap.BFDProfiles[i].DeepCopy())
	}
	for i := range snap.L2Advs {
		st.Put(snap.L2Advs[i].DeepCopy())
	}
	for i := range snap.BGPAdvs {
		st.Put(snap.BGPAdvs[i].DeepCopy())
	}
	for i := range snap.Communities {
		st.Put(snap.Communities[i].DeepCopy())
	}
	for i := range snap.Nodes {
		st.Put(snap.Nodes[i].DeepCopy())
	}
	for i := range snap.Namespaces {
		st.Put(snap.Namespaces[i].DeepCopy())
	}
	return st
}

func c18e2eRun(res *verifrt.Result, c c18e2eCase, snap *config.ClusterResources) {
	res.Count("evaluations", 1)
	st := c18Store(snap)
	handlerCalls, reloads := 0, 0
	answer := SyncStateReprocessAll
	switch c.Result {
	case "success":
		answer = SyncStateSuccess
	case "noretry":
		answer = SyncStateErrorNoRetry
	}
	req := ctrl.Request{NamespacedName: types.NamespacedName{Namespace: "metallb-system", Name: "x"}}
	var reconcile func() error
	if c.Kind == "config" {
		r := &ConfigReconciler{Client: st, Logger: log.NewNopLogger(), Namespace: "metallb-system", ValidateConfig: config.DontValidate,
			Handler:     func(log.Logger, *config.Config) SyncState { handlerCalls++; return answer },
			ForceReload: func() { reloads++ }}
		reconcile = func() error { _, err := r.Reconcile(context.Background(), req); return err }
	} else {
		r := &PoolReconciler{Client: st, Logger: log.NewNopLogger(), Namespace: "metallb-system", ValidateConfig: config.DontValidate,
			Handler:     func(log.Logger, *config.Pools) SyncState { handlerCalls++; return answer },
			ForceReload: func() { reloads++ }}
		reconcile = func() error { _, err := r.Reconcile(context.Background(), req); return err }
	}
	kinds := []string{"maporder", "listorder"}
	verifrt.RunWithChoices(c.First, kinds, func(*verifrt.Chooser) { _ = reconcile() })
	h1, r1 := handlerCalls, reloads
	verifrt.RunWithChoices(c.Second, kinds, func(*verifrt.Chooser) { _ = reconcile() })
	res.Outcome(fmt.Sprintf("%s/%s first=%d second=%d", c.Snapshot, c.Kind, h1, handlerCalls-h1))
	if handlerCalls != h1 || reloads != r1 {
		res.Violate("C18 an unchanged snapshot looked like a configuration change to the "+c.Kind+" reconciler",
			fmt.Sprintf("snapshot %s: second reconcile with listing/map order %v (first %v) called the handler %d and forced %d reloads", c.Snapshot, c.Second, c.First, handlerCalls-h1, reloads-r1), c)
	}
}

func TestVerif_C18e2e(t *testing.T) {
	res := verifrt.NewResult("C18")
	defer res.Write()
	k := 3
	if verifrt.Thorough() {
		k = 4
	}
	if raw, ok := verifrt.ReplayCase(); ok {
		var c c18e2eCase
		if err := jsonUnmarshal(raw, &c); err != nil {
			t.Fatal(err)
		}
		c18e2eRun(res, c, c18Snapshots(c.K)[c.Snapshot])
		res.Replayed = true
		return
	}
	snaps := c18Snapshots(k)
	var distinct int64
	work := 0
	for name, snap := range snaps {
		for _, kind := range []string{"config", "pool"} {
			work++
			if !verifrt.Mine(work) {
				continue
			}
			for _, result := range []string{"success", "noretry"} {
				if result == "noretry" && kind == "pool" {
					continue // the pool reconciler records accepted configurations only: a refused one is offered again by design
				}
				c := c18e2eCase{Snapshot: name, K: k, Kind: kind, Result: result}
				c18e2eRun(res, c, snap)
				distinct++
			}
			// second reconcile under every choice vector with <= 2 deviations (first: default order), and the reverse
			for _, firstDefault := range []bool{true, false} {
				verifrt.ExploreChoices(2, []string{"maporder", "listorder"}, func(ch *verifrt.Chooser) {
					// discover the choice points by reconciling once under the explorer's chooser
					st := c18Store(snap)
					if kind == "config" {
						r := &ConfigReconciler{Client: st, Logger: log.NewNopLogger(), Namespace: "metallb-system", ValidateConfig: config.DontValidate,
							Handler: func(log.Logger, *config.Config) SyncState { return SyncStateSuccess }, ForceReload: func() {}}
						_, _ = r.Reconcile(context.Background(), ctrl.Request{})
					} else {
						r := &PoolReconciler{Client: st, Logger: log.NewNopLogger(), Namespace: "metallb-system", ValidateConfig: config.DontValidate,
							Handler: func(log.Logger, *config.Pools) SyncState { return SyncStateSuccess }, ForceReload: func() {}}
						_, _ = r.Reconcile(context.Background(), ctrl.Request{})
					}
					vec := append([]int{}, ch.Trace...)
					for len(vec) > 0 && vec[len(vec)-1] == 0 {
						vec = vec[:len(vec)-1]
					}
					verifrt.SetChooser(nil)
					c := c18e2eCase{Snapshot: name, K: k, Kind: kind}
					if firstDefault {
						c.Second = vec
					} else {
						c.First = vec
					}
					res.Sample(c)
					c18e2eRun(res, c, snap)
					distinct++
					verifrt.SetChooser(ch)
				}, nil)
			}
		}
	}
	res.Count("distinct_nontrivial", distinct)
}

func jsonUnmarshal(b []byte, v interface{}) error { return json.Unmarshal(b, v) }
