//go:build verif

package controllers

// C18 - configuration loading is deterministic and independent of listing order.
//
// ENUM: for every snapshot of a catalogue, every permutation of every listed
// kind (one kind at a time, and the full product for pairs of kinds), every
// explored map iteration order inside internal/config and toConfig (R-map,
// <= maxDev non-default orders) and repetition: real toConfig must return
// reflect.DeepEqual values (the comparison the reconcilers use) and the same
// accept/reject verdict.

import (
	"time"
	"encoding/json"
	"fmt"
	"reflect"
	"sort"
	"testing"

	metallbv1beta1 "go.universe.tf/metallb/api/v1beta1"
	metallbv1beta2 "go.universe.tf/metallb/api/v1beta2"
	"go.universe.tf/metallb/internal/config"
	"go.universe.tf/metallb/internal/verifrt"
	corev1 "k8s.io/api/core/v1"
	metav1 "k8s.io/apimachinery/pkg/apis/meta/v1"
	"k8s.io/utils/ptr"
)

var c18Kinds = []string{"Pools", "Peers", "BFDProfiles", "L2Advs", "BGPAdvs", "Communities", "Nodes", "Namespaces"}

func c18Len(r *config.ClusterResources, kind string) int {
	switch kind {
	case "Pools":
		return len(r.Pools)
	case "Peers":
		return len(r.Peers)
	case "BFDProfiles":
		return len(r.BFDProfiles)
	case "L2Advs":
		return len(r.L2Advs)
	case "BGPAdvs":
		return len(r.BGPAdvs)
	case "Communities":
		return len(r.Communities)
	case "Nodes":
		return len(r.Nodes)
	case "Namespaces":
		return len(r.Namespaces)
	}
	panic(kind)
}

func permuted[T any](in []T, p []int) []T {
	out := make([]T, len(in))
	for i, j := range p {
		out[i] = in[j]
	}
	return out
}

// c18Apply returns a deep copy of base with the kinds listed in perms permuted.
func c18Apply(base *config.ClusterResources, perms map[string][]int) config.ClusterResources {
	b, err := json.Marshal(base)
	if err != nil {
		panic(err)
	}
	var r config.ClusterResources
	if err := json.Unmarshal(b, &r); err != nil {
		panic(err)
	}
	for kind, p := range perms {
		switch kind {
		case "Pools":
			r.Pools = permuted(r.Pools, p)
		case "Peers":
			r.Peers = permuted(r.Peers, p)
		case "BFDProfiles":
			r.BFDProfiles = permuted(r.BFDProfiles, p)
		case "L2Advs":
			r.L2Advs = permuted(r.L2Advs, p)
		case "BGPAdvs":
			r.BGPAdvs = permuted(r.BGPAdvs, p)
		case "Communities":
			r.Communities = permuted(r.Communities, p)
		case "Nodes":
			r.Nodes = permuted(r.Nodes, p)
		case "Namespaces":
			r.Namespaces = permuted(r.Namespaces, p)
		}
	}
	return r
}

func om(name string, lbl map[string]string) metav1.ObjectMeta {
	return metav1.ObjectMeta{Name: name, Namespace: "metallb-system", Labels: lbl}
}

func sel(k, v string) metav1.LabelSelector {
	return metav1.LabelSelector{MatchLabels: map[string]string{k: v}}
}

// c18Snapshots builds the catalogue; k = number of objects per kind.
func c18Snapshots(k int) map[string]*config.ClusterResources {
	names := []string{"c", "a", "d", "b"}[:k] // listing order differs from name order on purpose
	res := map[string]*config.ClusterResources{}

	rich := &config.ClusterResources{}
	for i, n := range names {
		pool := metallbv1beta1.IPAddressPool{ObjectMeta: om("pool-"+n, map[string]string{"grp": fmt.Sprint(i % 2)}),
			Spec: metallbv1beta1.IPAddressPoolSpec{Addresses: []string{fmt.Sprintf("10.0.%d.0/24", i), fmt.Sprintf("fc00:%d::/64", i)}}}
		switch i {
		case 0, 1: // two pools pinned to the same namespaces (H2)
			pool.Spec.AllocateTo = &metallbv1beta1.ServiceAllocation{Priority: 10 + i, Namespaces: []string{"ns-a", "ns-b"}}
		case 2:
			pool.Spec.AllocateTo = &metallbv1beta1.ServiceAllocation{Priority: 5, NamespaceSelectors: []metav1.LabelSelector{sel("team", "x")},
				ServiceSelectors: []metav1.LabelSelector{sel("app", "web")}}
		case 3:
			pool.Spec.AllocateTo = &metallbv1beta1.ServiceAllocation{Namespaces: []string{"ns-a"}, ServiceSelectors: []metav1.LabelSelector{sel("app", "db")}}
		}
		rich.Pools = append(rich.Pools, pool)
		rich.Peers = append(rich.Peers, metallbv1beta2.BGPPeer{ObjectMeta: om("peer-"+n, nil),
			Spec: metallbv1beta2.BGPPeerSpec{MyASN: 64512, ASN: uint32(64600 + i), Address: fmt.Sprintf("192.168.0.%d", i+1),
				BFDProfile: "bfd-" + names[(i+1)%k], NodeSelectors: []metav1.LabelSelector{sel("rack", fmt.Sprint(i%2))}}})
		if i == 1 {
			// a hold time that is not a whole number of seconds, keepalive left to its default
			rich.Peers[i].Spec.HoldTime = &metav1.Duration{Duration: 10500 * time.Millisecond}
		}
		rich.BFDProfiles = append(rich.BFDProfiles, metallbv1beta1.BFDProfile{ObjectMeta: om("bfd-"+n, nil),
			Spec: metallbv1beta1.BFDProfileSpec{ReceiveInterval: ptr.To(uint32(100 + i))}})
		l2 := metallbv1beta1.L2Advertisement{ObjectMeta: om("l2-"+n, nil)}
		switch i {
		case 0: // all pools, all nodes
		case 1:
			l2.Spec.IPAddressPools = []string{"pool-" + names[0], "pool-" + names[k-1]}
			l2.Spec.Interfaces = []string{"eth2", "eth0", "eth1"} // several interfaces, not in sorted order
		case 2:
			l2.Spec.IPAddressPoolSelectors = []metav1.LabelSelector{sel("grp", "0")}
			l2.Spec.NodeSelectors = []metav1.LabelSelector{sel("rack", "0")}
		case 3:
			l2.Spec.NodeSelectors = []metav1.LabelSelector{sel("rack", "1")}
			l2.Spec.Interfaces = []string{"eth1", "eth0"}
		}
		rich.L2Advs = append(rich.L2Advs, l2)
		bgp := metallbv1beta1.BGPAdvertisement{ObjectMeta: om("bgp-"+n, nil),
			Spec: metallbv1beta1.BGPAdvertisementSpec{AggregationLength: ptr.To(int32(32 - i)), AggregationLengthV6: ptr.To(int32(128 - i)),
				LocalPref: uint32(100 * i), Communities: []string{"comm-" + names[i%k]}}}
		switch i {
		case 0: // all pools
		case 1:
			bgp.Spec.IPAddressPools = []string{"pool-" + names[0]}
			bgp.Spec.Peers = []string{"peer-" + names[0]}
		case 2:
			bgp.Spec.IPAddressPoolSelectors = []metav1.LabelSelector{sel("grp", "1")}
			bgp.Spec.NodeSelectors = []metav1.LabelSelector{sel("rack", "1")}
		case 3:
			bgp.Spec.Communities = []string{"65000:7", "comm-" + names[0]}
		}
		rich.BGPAdvs = append(rich.BGPAdvs, bgp)
		rich.Communities = append(rich.Communities, metallbv1beta1.Community{ObjectMeta: om("commcr-"+n, nil),
			Spec: metallbv1beta1.CommunitySpec{Communities: []metallbv1beta1.CommunityAlias{{Name: "comm-" + n, Value: fmt.Sprintf("65000:%d", 100+i)}}}})
		rich.Nodes = append(rich.Nodes, corev1.Node{ObjectMeta: metav1.ObjectMeta{Name: "node-" + n, Labels: map[string]string{"rack": fmt.Sprint(i % 2)}},
			Status: corev1.NodeStatus{Addresses: []corev1.NodeAddress{{Type: corev1.NodeInternalIP, Address: fmt.Sprintf("172.16.0.%d", i+1)}}}})
		rich.Namespaces = append(rich.Namespaces, corev1.Namespace{ObjectMeta: metav1.ObjectMeta{Name: "ns-" + n, Labels: map[string]string{"team": []string{"x", "y"}[i%2]}}})
	}
	rich.BGPExtras = corev1.ConfigMap{ObjectMeta: metav1.ObjectMeta{Name: "bgpextras", Namespace: "metallb-system"},
		Data: map[string]string{"extras": "! base extras", "zz-more": "! z", "aa-more": "! a", "mm": "! m"}}
	res["rich"] = rich

	// every advertisement selects all pools / all nodes: exercises the "all pools" map loops
	allp := c18Apply(rich, nil)
	for i := range allp.L2Advs {
		allp.L2Advs[i].Spec.IPAddressPools = nil
		allp.L2Advs[i].Spec.IPAddressPoolSelectors = nil
		allp.L2Advs[i].Spec.Interfaces = []string{fmt.Sprintf("eth%d", i)}
	}
	for i := range allp.BGPAdvs {
		allp.BGPAdvs[i].Spec.IPAddressPools = nil
		allp.BGPAdvs[i].Spec.IPAddressPoolSelectors = nil
	}
	res["allpools"] = &allp

	// rejected snapshots: the verdict must not depend on the order either
	ov := c18Apply(rich, nil)
	ov.Pools[k-1].Spec.Addresses = []string{"10.0.0.128/25"} // overlaps the first pool
	res["rej-overlap-first-last"] = &ov

	unk := c18Apply(rich, nil)
	unk.BGPAdvs[k-1].Spec.Communities = []string{"comm-unknown"}
	res["rej-unknown-community"] = &unk

	nobfd := c18Apply(rich, nil)
	nobfd.Peers[k-1].Spec.BFDProfile = "bfd-missing"
	res["rej-missing-bfd"] = &nobfd

	dupc := c18Apply(rich, nil)
	dupc.Communities[k-1].Spec.Communities = append(dupc.Communities[k-1].Spec.Communities, metallbv1beta1.CommunityAlias{Name: "comm-" + names[0], Value: "65000:1"})
	res["rej-duplicate-community-alias"] = &dupc

	lp := c18Apply(rich, nil) // conflicting local preference between first and last advertisement
	lp.BGPAdvs[k-1].Spec = metallbv1beta1.BGPAdvertisementSpec{AggregationLength: ptr.To(int32(32)), AggregationLengthV6: ptr.To(int32(128)), LocalPref: 999}
	res["rej-localpref-conflict"] = &lp

	// local-pref conflict visible in one family only, on dual-stack pools (verdict must not depend on any order)
	for _, fam := range []string{"v4", "v6"} {
		lpf := c18Apply(rich, nil)
		l4, l6 := int32(24), int32(128)
		if fam == "v4" {
			l4, l6 = 32, 64
		}
		lpf.BGPAdvs[0].Spec = metallbv1beta1.BGPAdvertisementSpec{AggregationLength: ptr.To(int32(32)), AggregationLengthV6: ptr.To(int32(128)), LocalPref: 100}
		lpf.BGPAdvs[k-1].Spec = metallbv1beta1.BGPAdvertisementSpec{AggregationLength: ptr.To(l4), AggregationLengthV6: ptr.To(l6), LocalPref: 200}
		for i := 1; i < k-1; i++ {
			lpf.BGPAdvs[i].Spec = metallbv1beta1.BGPAdvertisementSpec{AggregationLength: ptr.To(int32(30 - i)), AggregationLengthV6: ptr.To(int32(120 - i)), LocalPref: 100}
		}
		res["rej-localpref-equal-length-only-"+fam] = &lpf
	}

	// two advertisements with different local preferences for the same routes, one for every peer (no peer list) and one
	// naming a single peer: they collide on that peer whichever of the two is looked at first
	{
		lpp := c18Apply(rich, nil)
		for i := range lpp.BGPAdvs {
			lpp.BGPAdvs[i].Spec = metallbv1beta1.BGPAdvertisementSpec{AggregationLength: ptr.To(int32(30 - i)), AggregationLengthV6: ptr.To(int32(120 - i)), LocalPref: 100}
		}
		lpp.BGPAdvs[0].Spec = metallbv1beta1.BGPAdvertisementSpec{AggregationLength: ptr.To(int32(32)), AggregationLengthV6: ptr.To(int32(128)), LocalPref: 100}
		lpp.BGPAdvs[k-1].Spec = metallbv1beta1.BGPAdvertisementSpec{AggregationLength: ptr.To(int32(32)), AggregationLengthV6: ptr.To(int32(128)), LocalPref: 200, Peers: []string{"peer-" + names[0]}}
		res["rej-localpref-conflict-all-peers-against-one-peer"] = &lpp
	}

	// an aggregation length that is too short for one family only, on dual-stack pools: the per-family loop over
	// the pool's CIDRs runs in map order, the verdict must not depend on it
	for _, fam := range []string{"v4", "v6"} {
		ag := c18Apply(rich, nil)
		l4, l6 := int32(16), int32(128)
		if fam == "v6" {
			l4, l6 = 32, 48
		}
		// one pool only: a single non-default map order flips the whole verdict if it can be flipped at all
		ag.BGPAdvs[0].Spec = metallbv1beta1.BGPAdvertisementSpec{AggregationLength: ptr.To(l4), AggregationLengthV6: ptr.To(l6), IPAddressPools: []string{"pool-" + names[k-1]}}
		res["rej-aggregation-too-short-only-"+fam] = &ag
	}

	// several peers with BFD echo mode, IPv6 pools, every advertisement names one of the echo peers only: refused,
	// whichever echo peer a loop over the peers meets first
	echo := c18Apply(rich, nil)
	for i := range echo.BFDProfiles {
		if i != 0 { // profile names[j] is used by peer j-1: peers 0 and 1 (and 2 when k=4) get echo mode
			echo.BFDProfiles[i].Spec.EchoMode = ptr.To(true)
		}
	}
	for i := range echo.BGPAdvs {
		echo.BGPAdvs[i].Spec.Peers = []string{"peer-" + names[0]}
	}
	res["rej-bfd-echo-on-ipv6-pool-one-of-several-echo-peers"] = &echo

	// ties: two pools pinned to the same namespaces with the same non-zero priority, two selector pools likewise
	tie := c18Apply(rich, nil)
	for i := range tie.Pools {
		switch i {
		case 0, 1:
			tie.Pools[i].Spec.AllocateTo = &metallbv1beta1.ServiceAllocation{Priority: 7, Namespaces: []string{"ns-a", "ns-b"}}
		default:
			tie.Pools[i].Spec.AllocateTo = &metallbv1beta1.ServiceAllocation{Priority: 7, ServiceSelectors: []metav1.LabelSelector{sel("app", "web")}}
		}
	}
	res["equal-priorities"] = &tie

	nodeip := c18Apply(rich, nil)
	nodeip.Nodes[k-1].Status.Addresses[0].Address = "10.0.1.7"
	res["rej-node-ip-in-pool"] = &nodeip

	// frr validation per VRF: two peers of one VRF with different local ASNs, other VRFs around them
	vrf := c18Apply(rich, nil)
	for i := range vrf.Peers {
		vrf.Peers[i].Spec.VRFName = "blue"
		vrf.Peers[i].Spec.BFDProfile = ""
	}
	vrf.Peers[0].Spec.VRFName = "red"
	vrf.Peers[k-1].Spec.MyASN = 64999
	res["rej-frr-myasn-differs-inside-second-vrf"] = &vrf

	asn := c18Apply(rich, nil) // frr validation: myASN must be equal
	asn.Peers[k-1].Spec.MyASN = 64999
	res["rej-frr-myasn"] = &asn
	return res
}

// c18Diff names the first part of the configuration in which two results differ.
func c18Diff(a, b *config.Config, ea, eb error) string {
	if (ea == nil) != (eb == nil) {
		return "verdict"
	}
	if ea != nil {
		return ""
	}
	if reflect.DeepEqual(a, b) {
		return ""
	}
	if !reflect.DeepEqual(a.Peers, b.Peers) {
		return "Peers"
	}
	if !reflect.DeepEqual(a.BFDProfiles, b.BFDProfiles) {
		return "BFDProfiles"
	}
	if a.BGPExtras != b.BGPExtras {
		return "BGPExtras"
	}
	if !reflect.DeepEqual(a.Pools.ByNamespace, b.Pools.ByNamespace) {
		return "Pools.ByNamespace"
	}
	if !reflect.DeepEqual(a.Pools.ByServiceSelector, b.Pools.ByServiceSelector) {
		return "Pools.ByServiceSelector"
	}
	var names []string
	for n := range a.Pools.ByName {
		names = append(names, n)
	}
	sort.Strings(names)
	if len(a.Pools.ByName) != len(b.Pools.ByName) {
		return "Pools.ByName.keys"
	}
	for _, n := range names {
		pa, pb := a.Pools.ByName[n], b.Pools.ByName[n]
		if pb == nil {
			return "Pools.ByName.keys"
		}
		if !reflect.DeepEqual(pa.CIDR, pb.CIDR) {
			return "Pool.CIDR"
		}
		if !reflect.DeepEqual(pa.L2Advertisements, pb.L2Advertisements) {
			return "Pool.L2Advertisements"
		}
		if !reflect.DeepEqual(pa.BGPAdvertisements, pb.BGPAdvertisements) {
			return "Pool.BGPAdvertisements"
		}
		if !reflect.DeepEqual(pa.ServiceAllocations, pb.ServiceAllocations) {
			return "Pool.ServiceAllocations"
		}
		if !reflect.DeepEqual(pa, pb) {
			return "Pool.other"
		}
	}
	return "other"
}

type c18Case struct {
	Snapshot string           `json:"snapshot"`
	K        int              `json:"k"`
	Validate string           `json:"validate"`
	Perms    map[string][]int `json:"perms"`
	MapOrder []int            `json:"map_order_choices"`
}

func c18Validator(name string) config.Validate {
	switch name {
	case "frr":
		return config.DiscardNativeOnly
	case "native":
		return config.DiscardFRROnly
	}
	return config.DontValidate
}

func TestVerif_C18(t *testing.T) {
	res := verifrt.NewResult("C18")
	defer res.Write()
	k := 3
	maxDev := 1
	if verifrt.Thorough() {
		k = 4
		maxDev = 2
	}
	distinct := map[string]bool{}

	type refT struct {
		cfg *config.Config
		err error
	}
	refs := map[string]refT{}
	ref := func(snapName string, snap *config.ClusterResources, val string) refT {
		key := snapName + "/" + val
		if r, ok := refs[key]; ok {
			return r
		}
		r0 := c18Apply(snap, nil)
		cfg, err := toConfig(r0, c18Validator(val))
		refs[key] = refT{cfg, err}
		return refs[key]
	}

	// runCase: with ch == nil the case's recorded map-order vector is replayed; with ch != nil
	// (inside ExploreChoices) the explorer's chooser is live and its trace becomes the case's vector.
	runCase := func(c c18Case, snap *config.ClusterResources, ch *verifrt.Chooser) {
		verifrt.SetChooser(nil)
		rf := ref(c.Snapshot, snap, c.Validate)
		in := c18Apply(snap, c.Perms)
		var cfg *config.Config
		var err error
		if ch == nil {
			verifrt.RunWithChoices(c.MapOrder, []string{"maporder"}, func(*verifrt.Chooser) {
				cfg, err = toConfig(in, c18Validator(c.Validate))
			})
		} else {
			verifrt.SetChooser(ch)
			cfg, err = toConfig(in, c18Validator(c.Validate))
			verifrt.SetChooser(nil)
			c.MapOrder = append([]int{}, ch.Trace...)
			for len(c.MapOrder) > 0 && c.MapOrder[len(c.MapOrder)-1] == 0 {
				c.MapOrder = c.MapOrder[:len(c.MapOrder)-1]
			}
		}
		res.Count("evaluations", 1)
		verdict := "accepted"
		if rf.err != nil {
			verdict = "rejected"
		}
		res.Outcome(c.Snapshot + "/" + c.Validate + ":" + verdict)
		if len(c.MapOrder) == 0 && len(c.Perms) == 0 {
			// computing a configuration must not change the listed objects (an informer cache hands out shared objects),
			// and computing it again from the very same objects gives the same result
			before, _ := json.Marshal(c18Apply(snap, c.Perms)) // what was handed in above, before anything was computed from it
			after, _ := json.Marshal(in)
			cfgA, errA := cfg, err
			cfgB, errB := toConfig(in, c18Validator(c.Validate))
			res.Count("evaluations", 1)
			if string(before) != string(after) {
				res.Violate("config-differs cause=input-objects-modified-by-the-computation", fmt.Sprintf("snapshot %s validator %s: the listed objects changed while the configuration was computed", c.Snapshot, c.Validate), c)
			} else if d2 := c18Diff(cfgA, cfgB, errA, errB); d2 != "" {
				res.Violate("config-differs cause=repetition-on-the-same-objects diff="+d2, fmt.Sprintf("snapshot %s validator %s", c.Snapshot, c.Validate), c)
			}
		}
		if ch == nil && len(c.MapOrder) == 0 && len(c.Perms) > 0 {
			// the admission webhooks hand the lists to config.For as they were listed (no sorting in front of it): the
			// verdict must be the same there
			_, werr := config.For(in, c18Validator(c.Validate))
			res.Count("evaluations", 1)
			if (werr == nil) != (rf.err == nil) {
				res.Violate("config-differs cause=listing-order diff=verdict path=config.For-without-sorting",
					fmt.Sprintf("snapshot %s validator %s perms %v: config.For on the lists as listed: err=%v; reference (sorted): err=%v", c.Snapshot, c.Validate, c.Perms, werr, rf.err), c)
			}
		}
		d := c18Diff(rf.cfg, cfg, rf.err, err)
		if d == "" {
			return
		}
		nonIdentity := false
		for _, p := range c.Perms {
			for i, j := range p {
				if i != j {
					nonIdentity = true
				}
			}
		}
		try := func(perms map[string][]int, order []int) string {
			var cfg2 *config.Config
			var err2 error
			in2 := c18Apply(snap, perms)
			verifrt.RunWithChoices(order, []string{"maporder"}, func(*verifrt.Chooser) {
				cfg2, err2 = toConfig(in2, c18Validator(c.Validate))
			})
			return c18Diff(rf.cfg, cfg2, rf.err, err2)
		}
		cause := "repetition"
		switch {
		case nonIdentity && len(c.MapOrder) > 0:
			// attribute to the simpler cause when one alone suffices (those cases are enumerated on their own)
			if try(c.Perms, nil) != "" || try(nil, c.MapOrder) != "" {
				res.Count("compound_cases_explained_by_single_cause", 1)
				return
			}
			cause = "listing+map-order"
		case nonIdentity:
			cause = "listing-order"
		case len(c.MapOrder) > 0:
			cause = "map-order"
		}
		if len(c.MapOrder) > 0 {
			// F1: an explored iteration order must be realisable. Confirm on the runtime's own order:
			// the same input, evaluated repeatedly with pass-through map iteration, must itself disagree.
			verifrt.MapNative = true
			confirmed := false
			var first *config.Config
			var firstErr error
			for i := 0; i < 4096 && !confirmed; i++ {
				cfgN, errN := toConfig(c18Apply(snap, c.Perms), c18Validator(c.Validate))
				if i == 0 {
					first, firstErr = cfgN, errN
				} else if c18Diff(first, cfgN, firstErr, errN) != "" {
					confirmed = true
				}
			}
			verifrt.MapNative = false
			if !confirmed {
				res.Count("unconfirmed_order_candidates", 1)
				return
			}
			res.Count("order_candidates_confirmed_on_native_order", 1)
		}
		sig := fmt.Sprintf("config-differs cause=%s diff=%s", cause, d)
		res.Violate(sig, fmt.Sprintf("toConfig on snapshot %q (validate=%s) with perms %v and map-order choices %v differs from the reference listing in %s (ref err=%v, got err=%v)",
			c.Snapshot, c.Validate, c.Perms, c.MapOrder, d, rf.err, err), c)
	}

	if raw, ok := verifrt.ReplayCase(); ok {
		var c c18Case
		if err := json.Unmarshal(raw, &c); err != nil {
			t.Fatal(err)
		}
		runCase(c, c18Snapshots(c.K)[c.Snapshot], nil)
		res.Replayed = true
		return
	}

	snaps := c18Snapshots(k)
	var snapNames []string
	for n := range snaps {
		snapNames = append(snapNames, n)
	}
	sort.Strings(snapNames)
	item := 0
	for _, sn := range snapNames {
		snap := snaps[sn]
		for _, val := range []string{"none", "frr", "native"} {
			if val == "native" && sn != "rich" {
				continue
			}
			item++
			if !verifrt.Mine(item) {
				continue
			}
			// (1) repetitions and explored map orders on the identity listing
			for rep := 0; rep < 3; rep++ {
				runCase(c18Case{Snapshot: sn, K: k, Validate: val}, snap, nil)
			}
			n := verifrt.ExploreChoices(maxDev, []string{"maporder"}, func(ch *verifrt.Chooser) {
				runCase(c18Case{Snapshot: sn, K: k, Validate: val}, snap, ch)
			}, nil)
			res.Count("map_order_vectors", int64(n))
			// (2) all permutations of one kind at a time
			for _, kind := range c18Kinds {
				kl := c18Len(snap, kind)
				verifrt.Perms(kl, func(p []int) {
					c := c18Case{Snapshot: sn, K: k, Validate: val, Perms: map[string][]int{kind: append([]int{}, p...)}}
					distinct[fmt.Sprint(sn, val, c.Perms)] = true
					res.Sample(c)
					runCase(c, snap, nil)
				})
			}
			// (3) full product for pairs of kinds (k=3: 36 per pair; thorough k=4: 576 per pair)
			for i, k1 := range c18Kinds {
				for _, k2 := range c18Kinds[i+1:] {
					verifrt.Perms(c18Len(snap, k1), func(p1 []int) {
						pp1 := append([]int{}, p1...)
						verifrt.Perms(c18Len(snap, k2), func(p2 []int) {
							c := c18Case{Snapshot: sn, K: k, Validate: val, Perms: map[string][]int{k1: pp1, k2: append([]int{}, p2...)}}
							distinct[fmt.Sprint(sn, val, c.Perms)] = true
							runCase(c, snap, nil)
						})
					})
				}
			}
			// (4) every single-kind permutation combined with every single non-default map order
			for _, kind := range c18Kinds {
				verifrt.Perms(c18Len(snap, kind), func(p []int) {
					pp := append([]int{}, p...)
					verifrt.ExploreChoices(1, []string{"maporder"}, func(ch *verifrt.Chooser) {
						runCase(c18Case{Snapshot: sn, K: k, Validate: val, Perms: map[string][]int{kind: pp}}, snap, ch)
					}, nil)
				})
			}
		}
	}
	res.Count("distinct_nontrivial", int64(len(distinct)))
	res.Info["objects_per_kind"] = k
	res.Info["max_map_order_deviations"] = maxDev
	res.Info["map_sites"] = verifrt.MapSites
}
