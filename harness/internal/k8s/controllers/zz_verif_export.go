//go:build verif

package controllers

import (
	"fmt"
	"sort"
	"strings"

	"go.universe.tf/metallb/internal/config"
)

// VerifInitialLoadPerformed exposes the gate of the ServiceReconciler to harnesses in other packages.
func (r *ServiceReconciler) VerifInitialLoadPerformed() bool { return r.initialLoadPerformed }

// VerifPoolsDump is a canonical content dump of a pool set (no pointers).
func VerifPoolsDump(p *config.Pools) string {
	if p == nil {
		return "nil"
	}
	var names []string
	for n := range p.ByName {
		names = append(names, n)
	}
	sort.Strings(names)
	var b strings.Builder
	for _, n := range names {
		pool := p.ByName[n]
		fmt.Fprintf(&b, "%s cidr=%v buggy=%v auto=%v", n, pool.CIDR, pool.AvoidBuggyIPs, pool.AutoAssign)
		if sa := pool.ServiceAllocations; sa != nil {
			ns := sa.Namespaces.UnsortedList()
			sort.Strings(ns)
			var sels []string
			for _, s := range sa.ServiceSelectors {
				sels = append(sels, s.String())
			}
			fmt.Fprintf(&b, " prio=%d ns=%v sel=%q", sa.Priority, ns, sels)
		}
		fmt.Fprintf(&b, " l2=%d bgp=%d;", len(pool.L2Advertisements), len(pool.BGPAdvertisements))
	}
	fmt.Fprintf(&b, " byNS=%v bySel=%v", p.ByNamespace, p.ByServiceSelector)
	return b.String()
}

// VerifCurrentConfig is a content dump of the PoolReconciler's last applied configuration.
func (r *PoolReconciler) VerifCurrentConfig() string {
	if r.currentConfig == nil {
		return "nil"
	}
	return VerifPoolsDump(r.currentConfig.Pools)
}
