//go:build verif

package controllers

// C19 (frr-k8s variant): the real FRRK8sReconciler.UpdateConfig / debouncer goroutine / Reconcile
// over the verifenv store, driven by the same hand-shake driver as the FRR-mode debouncer.

import (
	"context"
	"encoding/json"
	"errors"
	"fmt"
	"os"
	"reflect"
	"strings"
	"sync"
	"testing"
	"time"

	"github.com/go-kit/log"
	frrv1beta1 "github.com/metallb/frr-k8s/api/v1beta1"
	"go.universe.tf/metallb/internal/verifenv"
	"go.universe.tf/metallb/internal/verifrt"
	"go.universe.tf/metallb/internal/verifrt/vtime"
	metav1 "k8s.io/apimachinery/pkg/apis/meta/v1"
	"k8s.io/apimachinery/pkg/types"
	ctrl "sigs.k8s.io/controller-runtime"
	"sigs.k8s.io/controller-runtime/pkg/event"
)

const dbkFn = "controllers.debouncer.func1"

type c19kCase struct {
	Tokens []string `json:"events"` // uA uB uC uL fire rec-ok rec-fail
}

// The three configurations are related by removal: 2 is 1 with the last neighbor, the last prefixes and the
// password dropped, 3 has no router at all - so that a comparison which ignores unset fields or list tails
// (instead of the reflect.DeepEqual the reconciler is meant to use) cannot tell them apart in one direction.
func c19kConfig(name string) frrv1beta1.FRRConfiguration {
	c := frrv1beta1.FRRConfiguration{ObjectMeta: metav1.ObjectMeta{Name: "metallb-node1", Namespace: "frr-k8s-system"}}
	c.Spec.NodeSelector = metav1.LabelSelector{MatchLabels: map[string]string{"kubernetes.io/hostname": "node1"}} // as the session manager sets it
	nb := func(addr string, prefixes ...string) frrv1beta1.Neighbor {
		return frrv1beta1.Neighbor{ASN: 64600, Address: addr, ToAdvertise: frrv1beta1.Advertise{Allowed: frrv1beta1.AllowedOutPrefixes{Prefixes: prefixes}}}
	}
	switch name {
	case "1":
		n1 := nb("10.2.2.1", "192.168.1.0/24", "192.168.2.0/24")
		n1.Password = "secret"
		c.Spec.BGP.Routers = []frrv1beta1.Router{{ASN: 64512, ID: "10.0.0.1", Neighbors: []frrv1beta1.Neighbor{n1, nb("10.2.2.2", "192.168.1.0/24")},
			Prefixes: []string{"192.168.1.0/24", "192.168.2.0/24"}}}
	case "2":
		c.Spec.BGP.Routers = []frrv1beta1.Router{{ASN: 64512, ID: "10.0.0.1", Neighbors: []frrv1beta1.Neighbor{nb("10.2.2.1", "192.168.1.0/24")},
			Prefixes: []string{"192.168.1.0/24"}}}
	case "3":
	}
	return c
}

func c19kExec(res *verifrt.Result, c c19kCase) {
	res.Count("evaluations", 1)
	viol := func(sig, detail string) {
		res.Violate(sig, detail+"\n  events: "+strings.Join(c.Tokens, " "), c)
	}
	store := verifenv.NewStore()
	var mu sync.Mutex
	var timers []chan time.Time
	fired := 0
	vtime.AfterHook = func(d time.Duration) <-chan time.Time {
		ch := make(chan time.Time, 1)
		mu.Lock()
		timers = append(timers, ch)
		mu.Unlock()
		return ch
	}
	isArmed := func() bool { mu.Lock(); defer mu.Unlock(); return len(timers) > fired }
	r := &FRRK8sReconciler{Client: store, Logger: log.NewNopLogger(), NodeName: "node1", FRRK8sNamespace: "frr-k8s-system"}
	r.configChangedChan = make(chan struct{})
	r.reconcileChan = make(chan event.GenericEvent)
	debouncer(r.configChangedChan, r.reconcileChan, 3*time.Second)
	defer close(r.configChangedChan)
	pending := false // the reconcile key is in the (modelled) work queue
	park := func(what string) bool {
		st, ok := verifrt.WaitParked(dbkFn, 120*time.Second, "select", "chan send")
		if !ok {
			viol("C19 frr-k8s debouncer does not return to waiting after="+what, st)
			return false
		}
		if st == "chan send" {
			// the consumer (controller-runtime's channel source) is always ready: drain into the queue
			<-r.reconcileChan
			pending = true
			return verifrtPark(viol, what)
		}
		return true
	}
	if !park("start") {
		return
	}
	var latest *frrv1beta1.FRRConfiguration
	armed := false
	for _, tok := range append(append([]string{}, c.Tokens...), "closure") {
		res.Count("transitions", 1)
		switch {
		case tok == "uA" || tok == "uB" || tok == "uC" || (tok == "uL" && latest != nil):
			cfg := c19kConfig("1")
			if tok == "uL" {
				cfg = *latest.DeepCopy()
			} else {
				cfg = c19kConfig(map[string]string{"uA": "1", "uB": "2", "uC": "3"}[tok])
			}
			done := make(chan struct{})
			go func() { r.UpdateConfig(cfg); close(done) }()
			select {
			case <-done:
			case <-time.After(120 * time.Second):
				viol("C19 UpdateConfig blocked indefinitely", tok)
				return
			}
			latest = cfg.DeepCopy()
			armed = true
			if !park(tok) {
				return
			}
		case tok == "fire":
			if !isArmed() {
				continue
			}
			mu.Lock()
			ch := timers[len(timers)-1]
			fired = len(timers)
			mu.Unlock()
			ch <- time.Time{}
			armed = false
			if !park(tok) {
				return
			}
			if !pending {
				viol("C19 frr-k8s timer expiry did not request a reconcile", "")
				return
			}
		case tok == "rec-ok" || tok == "rec-fail" || tok == "closure":
			if tok == "closure" {
				for i := 0; isArmed() && i < 5; i++ {
					mu.Lock()
					ch := timers[len(timers)-1]
					fired = len(timers)
					mu.Unlock()
					ch <- time.Time{}
					armed = false
					if !park("closure") {
						return
					}
				}
			}
			if !pending {
				continue
			}
			store.Fail = nil
			if tok == "rec-fail" {
				store.Fail = func(op, kind string) error {
					if op == "create" || op == "update" {
						return errors.New("verif: injected write failure")
					}
					return nil
				}
			}
			pending = false
			_, err := r.Reconcile(context.Background(), ctrl.Request{NamespacedName: types.NamespacedName{Namespace: "metallbreload", Name: "reload"}})
			store.Fail = nil
			if err != nil {
				pending = true // retried by the queue
			}
			if tok == "closure" && pending {
				if _, err := r.Reconcile(context.Background(), ctrl.Request{}); err != nil {
					viol("C19 frr-k8s reconcile keeps failing without injected faults", err.Error())
					return
				}
				pending = false
			}
		}
		if isArmed() != armed {
			viol("C19 frr-k8s timer state differs from the model after="+tok, fmt.Sprintf("model armed=%v observed=%v", armed, isArmed()))
			return
		}
	}
	if latest != nil {
		cur, _ := store.Peek("FRRConfiguration", "frr-k8s-system", "metallb-node1").(*frrv1beta1.FRRConfiguration)
		if cur == nil || !reflect.DeepEqual(cur.Spec, latest.Spec) {
			viol("C19 frr-k8s applied resource is not the latest submitted configuration", fmt.Sprintf("applied %+v\nlatest %+v", cur, latest.Spec))
		}
	}
	res.Outcome(fmt.Sprintf("writes=%d", store.Writes))
}

func verifrtPark(viol func(string, string), what string) bool {
	st, ok := verifrt.WaitParked(dbkFn, 120*time.Second, "select")
	if !ok {
		viol("C19 frr-k8s debouncer does not return to waiting after="+what, st)
	}
	return ok
}

func TestVerif_C19k(t *testing.T) {
	res := verifrt.NewResult("C19")
	defer res.Write()
	if raw, ok := verifrt.ReplayCase(); ok {
		var c c19kCase
		_ = json.Unmarshal(raw, &c)
		c19kExec(res, c)
		res.Replayed = true
		return
	}
	depth := 6
	if verifrt.Thorough() {
		depth = 8
	}
	if d := os.Getenv("VERIF_DEPTH"); d != "" {
		fmt.Sscan(d, &depth)
	}
	alphabet := []string{"uA", "fire", "rec-ok", "uB", "rec-fail", "uL", "uC"}
	var distinct int64
	work := 0
	deadline := time.Now().Add(verifrt.Budget())
	cut := false
	var rec func(prefix []string)
	rec = func(prefix []string) {
		if cut {
			return
		}
		if len(prefix) == 2 {
			work++
			if !verifrt.Mine(work) {
				return
			}
		}
		if len(prefix) >= 2 || (len(prefix) > 0 && verifrt.Shard() == 0) {
			if time.Now().After(deadline) {
				cut = true
				res.NotExhaustive("time budget reached")
				return
			}
			c := c19kCase{Tokens: append([]string{}, prefix...)}
			res.Sample(c)
			c19kExec(res, c)
			distinct++
		}
		if len(prefix) == depth {
			return
		}
		for _, tok := range alphabet {
			rec(append(prefix, tok))
		}
	}
	rec(nil)
	res.Count("distinct_nontrivial", distinct)
	res.Count("states", distinct)
	res.Count("traces_validated_against_impl", distinct)
	res.Info["depth_frrk8s"] = depth
}
