//go:build verif

package allocator

import (
	"fmt"
	"sort"
	"strings"
)

// VerifDump is the canonical textual dump of all allocator memory that can
// influence the future (all seven maps, the counters, the pool set by content).
// Inner maps that are empty are normalised away.
func (a *Allocator) VerifDump() string {
	var b strings.Builder
	var svcs []string
	for s := range a.allocated {
		svcs = append(svcs, s)
	}
	sort.Strings(svcs)
	for _, s := range svcs {
		al := a.allocated[s]
		ports := append([]Port{}, al.ports...)
		sort.Slice(ports, func(i, j int) bool { return ports[i].String() < ports[j].String() })
		fmt.Fprintf(&b, "alloc %s pool=%s ips=%v ports=%v key=%q/%q\n", s, al.pool, al.ips, ports, al.key.sharing, al.key.backend)
	}
	dumpMapKey := func(name string, ks []string, f func(k string) string) {
		sort.Strings(ks)
		for _, k := range ks {
			if v := f(k); v != "" {
				fmt.Fprintf(&b, "%s %s %s\n", name, k, v)
			}
		}
	}
	var ks []string
	for k := range a.sharingKeyForIP {
		ks = append(ks, k)
	}
	dumpMapKey("sharingKeyForIP", ks, func(k string) string {
		// the entry is a pointer into an allocation record: which record it aliases is part of the state
		// (a record that is later mutated in place changes what the gate sees only if it is the aliased one)
		alias := "detached"
		for _, s := range svcs {
			if &a.allocated[s].key == a.sharingKeyForIP[k] {
				alias = s
			}
		}
		return fmt.Sprintf("%q/%q ->%s", a.sharingKeyForIP[k].sharing, a.sharingKeyForIP[k].backend, alias)
	})
	ks = nil
	for k := range a.portsInUse {
		ks = append(ks, k)
	}
	dumpMapKey("portsInUse", ks, func(k string) string {
		var ps []string
		for p, s := range a.portsInUse[k] {
			ps = append(ps, p.String()+"="+s)
		}
		sort.Strings(ps)
		return strings.Join(ps, ",")
	})
	ks = nil
	for k := range a.servicesOnIP {
		ks = append(ks, k)
	}
	dumpMapKey("servicesOnIP", ks, func(k string) string {
		var ss []string
		for s, v := range a.servicesOnIP[k] {
			ss = append(ss, fmt.Sprintf("%s=%v", s, v))
		}
		sort.Strings(ss)
		return strings.Join(ss, ",")
	})
	for _, m := range []struct {
		n string
		m map[string]map[string]int
	}{{"poolIPsInUse", a.poolIPsInUse}, {"poolIPV4InUse", a.poolIPV4InUse}, {"poolIPV6InUse", a.poolIPV6InUse}} {
		ks = nil
		for k := range m.m {
			ks = append(ks, k)
		}
		mm := m.m
		dumpMapKey(m.n, ks, func(k string) string {
			var ss []string
			for ip, n := range mm[k] {
				ss = append(ss, fmt.Sprintf("%s=%d", ip, n))
			}
			sort.Strings(ss)
			return strings.Join(ss, ",")
		})
	}
	ks = nil
	for k := range a.poolToCounters {
		ks = append(ks, k)
	}
	dumpMapKey("counters", ks, func(k string) string { return fmt.Sprintf("%+v", a.poolToCounters[k]) })
	ks = nil
	if a.pools != nil {
		for k := range a.pools.ByName {
			ks = append(ks, k)
		}
	}
	dumpMapKey("pool", ks, func(k string) string {
		p := a.pools.ByName[k]
		return fmt.Sprintf("cidr=%v buggy=%v auto=%v alloc=%v", p.CIDR, p.AvoidBuggyIPs, p.AutoAssign, p.ServiceAllocations)
	})
	return b.String()
}

// VerifContent is VerifDump without the aliasing annotation of sharingKeyForIP: two allocators with equal
// content answer the next request alike as long as records are immutable; comparisons between a live and a
// rebuilt allocator use this form (which record a pointer happens to alias is not observable by itself).
func (a *Allocator) VerifContent() string {
	lines := strings.Split(a.VerifDump(), "\n")
	for i, l := range lines {
		if strings.HasPrefix(l, "sharingKeyForIP ") {
			if j := strings.LastIndex(l, " ->"); j >= 0 {
				lines[i] = l[:j]
			}
		}
	}
	return strings.Join(lines, "\n")
}

// VerifHolders returns address -> sorted service keys, from the allocations.
func (a *Allocator) VerifHolders() map[string][]string {
	out := map[string][]string{}
	for s, al := range a.allocated {
		for _, ip := range al.ips {
			out[ip.String()] = append(out[ip.String()], s)
		}
	}
	for k := range out {
		sort.Strings(out[k])
	}
	return out
}

// VerifCoherence checks that the four bookkeeping maps agree with the allocations.
func (a *Allocator) VerifCoherence() []string {
	var bad []string
	holders := a.VerifHolders()
	for ip, ss := range holders {
		for _, s := range ss {
			if !a.servicesOnIP[ip][s] {
				bad = append(bad, fmt.Sprintf("servicesOnIP[%s] lacks %s", ip, s))
			}
			for _, p := range a.allocated[s].ports {
				if a.portsInUse[ip][p] != s {
					bad = append(bad, fmt.Sprintf("portsInUse[%s][%s]=%q, allocation says %s", ip, p, a.portsInUse[ip][p], s))
				}
			}
		}
		if a.sharingKeyForIP[ip] == nil && len(a.portsInUse[ip]) > 0 {
			bad = append(bad, fmt.Sprintf("sharingKeyForIP[%s] missing while held by %v", ip, ss))
		}
	}
	for ip, m := range a.servicesOnIP {
		for s := range m {
			found := false
			for _, h := range holders[ip] {
				if h == s {
					found = true
				}
			}
			if !found {
				bad = append(bad, fmt.Sprintf("servicesOnIP[%s] has ghost %s", ip, s))
			}
		}
	}
	for ip, m := range a.portsInUse {
		for p, s := range m {
			al := a.allocated[s]
			ok := false
			if al != nil {
				for _, q := range al.ports {
					if q == p {
						for _, x := range al.ips {
							if x.String() == ip {
								ok = true
							}
						}
					}
				}
			}
			if !ok {
				bad = append(bad, fmt.Sprintf("portsInUse[%s][%s]=%s is a ghost", ip, p, s))
			}
		}
	}
	for ip := range a.sharingKeyForIP {
		if len(holders[ip]) == 0 {
			bad = append(bad, fmt.Sprintf("sharingKeyForIP[%s] is a ghost", ip))
		}
	}
	for _, m := range []struct {
		n  string
		m  map[string]map[string]int
		v4 int
	}{{"poolIPsInUse", a.poolIPsInUse, 0}, {"poolIPV4InUse", a.poolIPV4InUse, 1}, {"poolIPV6InUse", a.poolIPV6InUse, 2}} {
		for pool, mm := range m.m {
			for ip, n := range mm {
				want := 0
				for _, s := range holders[ip] {
					if a.allocated[s].pool == pool {
						want++
					}
				}
				if n != want {
					bad = append(bad, fmt.Sprintf("%s[%s][%s]=%d but %d holders recorded in that pool", m.n, pool, ip, n, want))
				}
			}
		}
	}
	for s, al := range a.allocated {
		for _, ip := range al.ips {
			if a.poolIPsInUse[al.pool][ip.String()] == 0 {
				bad = append(bad, fmt.Sprintf("poolIPsInUse[%s][%s] missing for %s", al.pool, ip, s))
			}
		}
	}
	sort.Strings(bad)
	return bad
}
