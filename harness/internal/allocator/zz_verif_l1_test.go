//go:build verif

package allocator_test

// L1 driver of the allocation group: explicit-state BFS to a fixpoint over the exported API of a
// real Allocator (Assign, Allocate, AllocateFromPool, Unassign, SetPools) with service descriptors
// and pool layouts from a closed alphabet. State = the allocator's canonical dump (+ the descriptor
// each service last presented). Oracles after every single operation (C01, C02, C11).

import (
	"encoding/json"
	"fmt"
	"net"
	"os"
	"runtime"
	"sort"
	"strings"
	"testing"
	"time"

	metallbv1beta1 "go.universe.tf/metallb/api/v1beta1"
	"go.universe.tf/metallb/internal/allocator"
	"go.universe.tf/metallb/internal/allocator/k8salloc"
	"go.universe.tf/metallb/internal/config"
	"go.universe.tf/metallb/internal/ipfamily"
	"go.universe.tf/metallb/internal/verifrt"
	"go.universe.tf/metallb/internal/verifrt/refalloc"
	v1 "k8s.io/api/core/v1"
	metav1 "k8s.io/apimachinery/pkg/apis/meta/v1"
)

type l1Universe struct {
	name     string
	layouts  [][]metallbv1beta1.IPAddressPool
	pools    []*config.Pools
	variants []*v1.Service
	vnames   []string
	ipSets   [][]string
	svcs     []string
	fromPool []string
}

func l1Pool(name string, addrs []string, mod func(*metallbv1beta1.IPAddressPool)) metallbv1beta1.IPAddressPool {
	p := metallbv1beta1.IPAddressPool{ObjectMeta: metav1.ObjectMeta{Name: name, Namespace: "metallb-system"}, Spec: metallbv1beta1.IPAddressPoolSpec{Addresses: addrs}}
	if mod != nil {
		mod(&p)
	}
	return p
}

func l1Svc(ports []int32, key string, local map[string]string, dual string) *v1.Service {
	s := &v1.Service{ObjectMeta: metav1.ObjectMeta{Namespace: "ns1"}, Spec: v1.ServiceSpec{Type: v1.ServiceTypeLoadBalancer, ClusterIP: "192.168.0.1", ClusterIPs: []string{"192.168.0.1"},
		ExternalTrafficPolicy: v1.ServiceExternalTrafficPolicyTypeCluster, Selector: map[string]string{"app": "a"}}}
	for _, p := range ports {
		s.Spec.Ports = append(s.Spec.Ports, v1.ServicePort{Protocol: v1.ProtocolTCP, Port: p})
	}
	if key != "" {
		s.Annotations = map[string]string{"metallb.io/allow-shared-ip": key}
	}
	if local != nil {
		s.Spec.ExternalTrafficPolicy = v1.ServiceExternalTrafficPolicyTypeLocal
		s.Spec.Selector = local
	}
	switch dual {
	case "prefer":
		p := v1.IPFamilyPolicyPreferDualStack
		s.Spec.IPFamilyPolicy = &p
		s.Spec.ClusterIPs = []string{"192.168.0.1", "fd00::1"}
		s.Spec.IPFamilies = []v1.IPFamily{v1.IPv4Protocol, v1.IPv6Protocol}
	case "require":
		p := v1.IPFamilyPolicyRequireDualStack
		s.Spec.IPFamilyPolicy = &p
		s.Spec.ClusterIPs = []string{"192.168.0.1", "fd00::1"}
		s.Spec.IPFamilies = []v1.IPFamily{v1.IPv4Protocol, v1.IPv6Protocol}
	}
	return s
}

// l1Layouts is the catalogue of pool layouts; a universe picks a subset by index (index 0 of the subset is the initial one).
func l1Layouts() [][]metallbv1beta1.IPAddressPool {
	f := false
	return [][]metallbv1beta1.IPAddressPool{
		{l1Pool("east", []string{"10.0.0.0/31", "fc00::/127"}, nil), l1Pool("west", []string{"10.0.1.0/32"}, nil)},
		{l1Pool("orient", []string{"10.0.0.0/31", "fc00::/127"}, nil), l1Pool("west", []string{"10.0.1.0/32"}, nil)}, // rename
		{l1Pool("east", []string{"10.0.0.1/32"}, nil), l1Pool("west", []string{"10.0.1.0/32", "10.0.0.0/32"}, nil)},    // a CIDR moves to another pool, east shrinks
		{l1Pool("west", []string{"10.0.1.0/32"}, func(p *metallbv1beta1.IPAddressPool) { p.Spec.AutoAssign = &f })},      // east removed, west no auto-assign
		{l1Pool("east", []string{"10.0.0.0/31", "fc00::/127"}, func(p *metallbv1beta1.IPAddressPool) {
			p.Spec.AllocateTo = &metallbv1beta1.ServiceAllocation{Priority: 5, Namespaces: []string{"ns1"}}
		}), l1Pool("west", []string{"10.0.1.0/32"}, nil)},
		{l1Pool("east", []string{"10.0.0.0/31"}, nil), l1Pool("west", []string{"10.0.1.0/32"}, nil)}, // 5: east loses its IPv6 range
		{l1Pool("east", []string{"10.0.0.0/31", "fc00::/127"}, func(p *metallbv1beta1.IPAddressPool) { // 6: pinned to the namespace AND no auto-assignment
			p.Spec.AutoAssign = &f
			p.Spec.AllocateTo = &metallbv1beta1.ServiceAllocation{Priority: 5, Namespaces: []string{"ns1"}}
		}), l1Pool("west", []string{"10.0.1.0/32"}, nil)},
		{l1Pool("east", []string{"10.0.0.0/31", "fc00::/120"}, func(p *metallbv1beta1.IPAddressPool) { p.Spec.AvoidBuggyIPs = true }), // 7: IPv6 /120 with avoidBuggyIPs (only IPv4 has buggy addresses)
			l1Pool("west", []string{"10.0.1.0/32"}, nil)},
		// 8: one CIDR whose addresses do not sort textually as they sort numerically (.9 < .10)
		{l1Pool("east", []string{"10.0.0.8/30"}, nil)},
	}
}

var l1Variants = map[string]func() *v1.Service{
	"p80":             func() *v1.Service { return l1Svc([]int32{80}, "", nil, "") },
	"p443-k1":         func() *v1.Service { return l1Svc([]int32{443}, "k1", nil, "") },
	"p80-k1":          func() *v1.Service { return l1Svc([]int32{80}, "k1", nil, "") },
	"p443-k2":         func() *v1.Service { return l1Svc([]int32{443}, "k2", nil, "") },
	"p8080-k1-local":  func() *v1.Service { return l1Svc([]int32{8080}, "k1", map[string]string{"app": "a"}, "") },
	"p8081-k1-localb": func() *v1.Service { return l1Svc([]int32{8081}, "k1", map[string]string{"app": "b"}, "") },
	"prefer-k1-8443":  func() *v1.Service { return l1Svc([]int32{8443}, "k1", nil, "prefer") },
	"require-k1-9000": func() *v1.Service { return l1Svc([]int32{9000}, "k1", nil, "require") },
	"p80+443-k1":      func() *v1.Service { return l1Svc([]int32{80, 443}, "k1", nil, "") },
}

func mkL1Universe(name string, layoutIdx []int, svcs int, variants []string, ipSets [][]string, fromPool []string) *l1Universe {
	u := &l1Universe{name: name, fromPool: fromPool, ipSets: ipSets}
	for i := 1; i <= svcs; i++ {
		u.svcs = append(u.svcs, fmt.Sprintf("ns1/s%d", i))
	}
	all := l1Layouts()
	for _, i := range layoutIdx {
		l := all[i]
		u.layouts = append(u.layouts, l)
		cfg, err := config.For(config.ClusterResources{Pools: l, Namespaces: []v1.Namespace{{ObjectMeta: metav1.ObjectMeta{Name: "ns1"}}}}, config.DontValidate)
		if err != nil {
			panic(err)
		}
		u.pools = append(u.pools, cfg.Pools)
	}
	for _, n := range variants {
		u.variants = append(u.variants, l1Variants[n]())
		u.vnames = append(u.vnames, n)
	}
	return u
}

// l1Universes: small closed alphabets, each aimed at one group of shortcuts in the allocator and small enough
// to be explored to a fixpoint (every reachable state, every operation from it); "product" (thorough only) is
// the cross product of everything, explored breadth-first as deep as the budget allows.
func l1Universes(thorough bool) []*l1Universe {
	us := []*l1Universe{
		// sharing keys, ports, backends on two addresses of one pool; re-keying in place
		mkL1Universe("share", []int{0}, 3, []string{"p443-k1", "p80-k1", "p443-k2", "p80", "p8080-k1-local", "p8081-k1-localb"},
			[][]string{{"10.0.0.0"}, {"10.0.0.1"}}, nil),
		// pool reconfiguration, moves between pools, addresses outside every pool, AllocateFromPool
		mkL1Universe("pools", []int{0, 1, 2, 3, 4, 6, 7}, 2, []string{"p80", "p443-k1", "p80-k1"},
			[][]string{{"10.0.0.0"}, {"10.0.0.1"}, {"10.0.1.0"}, {"172.16.0.1"}}, []string{"east", "west"}),
		// dual-stack requests, pairs, families, a pool losing one family
		mkL1Universe("dual", []int{0, 5, 2}, 2, []string{"p80", "prefer-k1-8443", "require-k1-9000", "p443-k1"},
			[][]string{{"10.0.0.0"}, {"10.0.0.0", "fc00::"}, {"10.0.0.1", "fc00::1"}, {"fc00::1"}, {"10.0.0.0", "10.0.0.1"}, {"10.0.0.0", "10.0.1.0"}}, []string{"east"}),
		// a full range whose middle address is released and asked for again: every address order the allocator may keep
		mkL1Universe("digits", []int{8}, 4, []string{"p80"}, [][]string{{"10.0.0.9"}}, []string{"east"}),
	}
	if thorough {
		us = append(us,
			mkL1Universe("pools3", []int{0, 1, 2, 3, 4, 6}, 3, []string{"p80", "p443-k1", "p80-k1", "p443-k2"},
				[][]string{{"10.0.0.0"}, {"10.0.0.1"}, {"10.0.1.0"}, {"172.16.0.1"}}, []string{"east", "west"}),
			mkL1Universe("product", []int{0, 1, 2, 3, 4, 5, 6}, 3, []string{"p80", "p443-k1", "p80-k1", "p443-k2", "p8080-k1-local", "prefer-k1-8443", "require-k1-9000", "p80+443-k1"},
				[][]string{{"10.0.0.0"}, {"10.0.0.1"}, {"10.0.1.0"}, {"10.0.0.0", "fc00::"}, {"172.16.0.1"}, {"fc00::1"}, {"10.0.0.1", "fc00::1"}}, []string{"east", "west"}))
	}
	return us
}

type l1Sys struct {
	u         *l1Universe
	a         *allocator.Allocator
	layout    int
	presented map[string]int // svc -> variant last presented successfully
	lastErr   error
	lastKind  string
	released  map[string][]string
	panicMsg  string
	callbacks int
}

func newL1Sys(u *l1Universe) *l1Sys {
	s := &l1Sys{u: u, presented: map[string]int{}}
	s.a = allocator.New(func(string) { s.callbacks++ })
	s.a.SetPools(u.pools[0])
	return s
}

func (s *l1Sys) svc(i, v int) *v1.Service {
	sv := s.u.variants[v].DeepCopy()
	parts := strings.SplitN(s.u.svcs[i], "/", 2)
	sv.Namespace, sv.Name = parts[0], parts[1]
	return sv
}

func (s *l1Sys) Enabled() []verifrt.Event {
	if s.panicMsg != "" {
		return nil
	}
	var evs []verifrt.Event
	for i := range s.u.svcs {
		if len(s.a.IPs(s.u.svcs[i])) > 0 {
			evs = append(evs, verifrt.Event{Kind: "unassign", A: i, User: true})
		}
		for v := range s.u.variants {
			evs = append(evs, verifrt.Event{Kind: "allocate", A: i, B: v, User: true})
			for k := range s.u.ipSets {
				evs = append(evs, verifrt.Event{Kind: "assign", A: i, B: v*100 + k, User: true})
			}
			for p := range s.u.fromPool {
				evs = append(evs, verifrt.Event{Kind: "frompool", A: i, B: v*100 + p, User: true})
			}
		}
	}
	for j := range s.u.layouts {
		if j != s.layout {
			evs = append(evs, verifrt.Event{Kind: "setpools", A: j, User: true})
		}
	}
	return evs
}

func fam(svc *v1.Service) ipfamily.Family {
	f, err := ipfamily.ForService(svc)
	if err != nil {
		return ipfamily.IPv4
	}
	return f
}

func (s *l1Sys) Apply(ev verifrt.Event) {
	s.lastErr, s.lastKind = nil, ev.Kind
	defer func() {
		if r := recover(); r != nil {
			s.panicMsg = fmt.Sprint(r)
		}
	}()
	key := ""
	if ev.Kind != "setpools" {
		key = s.u.svcs[ev.A]
	}
	switch ev.Kind {
	case "unassign":
		s.a.Unassign(key)
		delete(s.presented, key)
	case "allocate":
		sv := s.svc(ev.A, ev.B)
		_, s.lastErr = s.a.Allocate(key, sv, fam(sv), k8salloc.Ports(sv), refalloc.SharingKey(sv), k8salloc.BackendKey(sv))
		if s.lastErr == nil {
			s.presented[key] = ev.B
		}
	case "assign":
		v, k := ev.B/100, ev.B%100
		sv := s.svc(ev.A, v)
		var ips []net.IP
		for _, x := range s.u.ipSets[k] {
			ips = append(ips, net.ParseIP(x))
		}
		s.lastErr = s.a.Assign(key, sv, ips, k8salloc.Ports(sv), refalloc.SharingKey(sv), k8salloc.BackendKey(sv))
		if s.lastErr == nil {
			s.presented[key] = v
		}
	case "frompool":
		v, p := ev.B/100, ev.B%100
		sv := s.svc(ev.A, v)
		_, s.lastErr = s.a.AllocateFromPool(key, sv, fam(sv), s.u.fromPool[p], k8salloc.Ports(sv), refalloc.SharingKey(sv), k8salloc.BackendKey(sv))
		if s.lastErr == nil {
			s.presented[key] = v
		}
	case "setpools":
		s.a.SetPools(s.u.pools[ev.A])
		s.layout = ev.A
		for k := range s.presented {
			if len(s.a.IPs(k)) == 0 {
				delete(s.presented, k)
			}
		}
	}
}

func (s *l1Sys) Key() string {
	var p []string
	for k, v := range s.presented {
		p = append(p, fmt.Sprintf("%s=%d", k, v))
	}
	sort.Strings(p)
	return fmt.Sprintf("layout=%d presented=%v\n%s%s", s.layout, p, s.a.VerifDump(), s.panicMsg)
}

type l1Case struct {
	Universe string          `json:"universe"`
	Thorough bool            `json:"thorough_universe"`
	History  []verifrt.Event `json:"history"`
	Readable []string        `json:"readable"`
}

type l1Oracle struct {
	prop string
	u    *l1Universe
	res  *verifrt.Result
	thorough bool
}

func (o *l1Oracle) mkCase(hist []verifrt.Event) l1Case {
	c := l1Case{Universe: o.u.name, Thorough: o.thorough, History: hist}
	for _, e := range hist {
		switch e.Kind {
		case "unassign":
			c.Readable = append(c.Readable, "Unassign("+o.u.svcs[e.A]+")")
		case "allocate":
			c.Readable = append(c.Readable, fmt.Sprintf("Allocate(%s as %s)", o.u.svcs[e.A], o.u.vnames[e.B]))
		case "assign":
			c.Readable = append(c.Readable, fmt.Sprintf("Assign(%s as %s, %v)", o.u.svcs[e.A], o.u.vnames[e.B/100], o.u.ipSets[e.B%100]))
		case "frompool":
			c.Readable = append(c.Readable, fmt.Sprintf("AllocateFromPool(%s as %s, %s)", o.u.svcs[e.A], o.u.vnames[e.B/100], o.u.fromPool[e.B%100]))
		case "setpools":
			var ps []string
			for _, p := range o.u.layouts[e.A] {
				ps = append(ps, fmt.Sprintf("%s%v", p.Name, p.Spec.Addresses))
			}
			c.Readable = append(c.Readable, fmt.Sprintf("SetPools(%v)", ps))
		}
	}
	return c
}

func (o *l1Oracle) violate(hist []verifrt.Event, sig, detail string) {
	c := o.mkCase(hist)
	o.res.Violate(sig, detail+"\n  history: "+strings.Join(c.Readable, " ; "), c)
}

type l1Pre struct {
	dump    string
	holders map[string][]string
	ips     map[string][]net.IP
}

func (o *l1Oracle) before(sys verifrt.System, ev verifrt.Event) interface{} {
	s := sys.(*l1Sys)
	p := &l1Pre{holders: s.a.VerifHolders(), ips: map[string][]net.IP{}}
	if o.prop == "C01" {
		p.dump = s.a.VerifContent()
	}
	for _, k := range s.u.svcs {
		p.ips[k] = s.a.IPs(k)
	}
	return p
}

func (o *l1Oracle) after(sys verifrt.System, hist []verifrt.Event, ev verifrt.Event, preI interface{}, isNew bool) {
	s := sys.(*l1Sys)
	pre := preI.(*l1Pre)
	if s.panicMsg != "" {
		cls := "other"
		if strings.Contains(s.panicMsg, "incoherent state") {
			cls = "allocator-incoherent-state"
		}
		o.violate(hist, "L1 panic class="+cls+" in="+ev.Kind, s.panicMsg)
		return
	}
	w := &refalloc.World{Pools: s.u.layouts[s.layout], Namespaces: []v1.Namespace{{ObjectMeta: metav1.ObjectMeta{Name: "ns1"}}}}
	holders := s.a.VerifHolders()
	present := func(k string) *v1.Service {
		v, ok := s.presented[k]
		if !ok {
			return nil
		}
		for i, n := range s.u.svcs {
			if n == k {
				return s.svc(i, v)
			}
		}
		return nil
	}
	if o.prop == "C01" && (isNew || s.lastErr != nil) {
		for ip, hs := range holders {
			for i := range hs {
				for j := i + 1; j < len(hs); j++ {
					a, b := present(hs[i]), present(hs[j])
					if a == nil || b == nil {
						o.violate(hist, "C01 L1: recorded holder without a presented service", fmt.Sprintf("%s held by %v", ip, hs))
						continue
					}
					if ok, why := refalloc.ShareCompatible(a, b); !ok {
						o.violate(hist, "C01 L1: address shared by incompatible services reason="+why, fmt.Sprintf("%s is recorded for %s and %s", ip, hs[i], hs[j]))
					}
				}
			}
		}
		if bad := s.a.VerifCoherence(); len(bad) > 0 {
			o.violate(hist, "C01 L1: bookkeeping maps incoherent kind="+strings.SplitN(strings.Fields(bad[0])[0], "[", 2)[0], strings.Join(bad, "; "))
		}
		if s.lastErr != nil && s.a.VerifContent() != pre.dump {
			// a refused request must leave the books as they were (except that a failed re-Assign inside Allocate may not half-apply)
			o.violate(hist, "C01 L1: refused "+ev.Kind+" changed the allocator's memory", fmt.Sprintf("error %v\nbefore:\n%safter:\n%s", s.lastErr, pre.dump, s.a.VerifContent()))
		}
	}
	if o.prop == "C02" && s.lastErr == nil && (ev.Kind == "allocate" || ev.Kind == "assign" || ev.Kind == "frompool") {
		key := s.u.svcs[ev.A]
		sv := present(key)
		ips := s.a.IPs(key)
		for _, ip := range ips {
			owners := w.Owners(ip)
			switch {
			case len(owners) != 1:
				o.violate(hist, fmt.Sprintf("C02 L1: assigned address lies in %d pools", len(owners)), fmt.Sprintf("%s got %v", key, ips))
			case !w.Usable(owners[0], ip):
				o.violate(hist, "C02 L1: assigned address not usable in its pool", fmt.Sprintf("%s got %v", key, ips))
			case !w.Admits(owners[0], sv):
				o.violate(hist, "C02 L1: pool does not admit the service", fmt.Sprintf("%s got %v from %s", key, ips, owners[0]))
			case s.a.Pool(key) != owners[0]:
				o.violate(hist, "C02 L1: recorded pool is not the owner of the address", fmt.Sprintf("%s got %v, recorded pool %s, owner %s", key, ips, s.a.Pool(key), owners[0]))
			}
			if ev.Kind == "allocate" && len(pre.ips[key]) == 0 && len(owners) == 1 {
				if p := w.Pool(owners[0]); p != nil && !refalloc.AutoAssign(p) {
					o.violate(hist, "C02 L1: automatic allocation from a pool with auto-assignment disabled", fmt.Sprintf("%s got %v from %s", key, ips, owners[0]))
				}
			}
			if ev.Kind == "frompool" && len(pre.ips[key]) == 0 && len(owners) == 1 && owners[0] != s.u.fromPool[ev.B%100] {
				o.violate(hist, "C02 L1: AllocateFromPool served from another pool", fmt.Sprintf("%s asked %s got %v from %s", key, s.u.fromPool[ev.B%100], ips, owners[0]))
			}
		}
		if len(ips) == 2 {
			o1, o2 := w.Owners(ips[0]), w.Owners(ips[1])
			if len(o1) == 1 && len(o2) == 1 && o1[0] != o2[0] {
				o.violate(hist, "C02 L1: dual-stack pair from two pools", fmt.Sprintf("%s got %v", key, ips))
			}
			if (ips[0].To4() == nil) == (ips[1].To4() == nil) {
				o.violate(hist, "C02 L1: two addresses of one family", fmt.Sprintf("%s got %v", key, ips))
			}
		}
		if (ev.Kind == "allocate" || ev.Kind == "frompool") && len(pre.ips[key]) == 0 {
			n4, n6, prefer, ok := refalloc.Families(sv)
			g4, g6 := 0, 0
			for _, ip := range ips {
				if ip.To4() != nil {
					g4++
				} else {
					g6++
				}
			}
			if ok && !prefer && ((g4 == 1) != n4 || (g6 == 1) != n6) {
				o.violate(hist, "C02 L1: allocated families do not match the cluster-IP families", fmt.Sprintf("%s got %v", key, ips))
			}
			if ok && prefer && (g4+g6 == 0 || g4 > 1 || g6 > 1) {
				o.violate(hist, "C02 L1: PreferDualStack allocation without a usable family", fmt.Sprintf("%s got %v", key, ips))
			}
		}
	}
	if o.prop == "C11" && isNew {
		for _, p := range s.u.layouts[s.layout] {
			cnt := s.a.CountersForPool(p.Name)
			var a4, a6 int64
			for ip, hs := range holders {
				if len(hs) == 0 || s.a.Pool(hs[0]) != p.Name {
					continue
				}
				if net.ParseIP(ip).To4() != nil {
					a4++
				} else {
					a6++
				}
			}
			if cnt.AssignedIPv4 != a4 || cnt.AssignedIPv6 != a6 {
				o.violate(hist, "C11 L1: assigned counter differs from the number of distinct addresses in use after="+ev.Kind, fmt.Sprintf("pool %s counters %+v, distinct addresses v4=%d v6=%d", p.Name, cnt, a4, a6))
			}
			const max = int64(^uint64(0) >> 1)
			c4, c6 := w.Capacity(p.Name, max)
			if cnt.AssignedIPv4+cnt.AvailableIPv4 != c4 || cnt.AssignedIPv6+cnt.AvailableIPv6 != c6 {
				o.violate(hist, "C11 L1: assigned+available differs from the usable capacity after="+ev.Kind, fmt.Sprintf("pool %s counters %+v, capacity %d/%d", p.Name, cnt, c4, c6))
			}
			if cnt.AssignedIPv4 < 0 || cnt.AssignedIPv6 < 0 || cnt.AvailableIPv4 < 0 || cnt.AvailableIPv6 < 0 {
				o.violate(hist, "C11 L1: negative counter", fmt.Sprintf("pool %s %+v", p.Name, cnt))
			}
		}
		// rebuild differential
		fresh := allocator.New(func(string) {})
		fresh.SetPools(s.u.pools[s.layout])
		var keys []string
		for k := range s.presented {
			keys = append(keys, k)
		}
		sort.Strings(keys)
		ok := true
		for _, k := range keys {
			sv := present(k)
			if len(s.a.IPs(k)) == 0 {
				continue
			}
			if err := fresh.Assign(k, sv, s.a.IPs(k), k8salloc.Ports(sv), refalloc.SharingKey(sv), k8salloc.BackendKey(sv)); err != nil {
				o.violate(hist, "C11 L1: a recorded assignment is refused by a fresh allocator", fmt.Sprintf("%s %v: %v", k, s.a.IPs(k), err))
				ok = false
			}
		}
		if ok {
			if a, b := s.a.VerifContent(), fresh.VerifContent(); a != b {
				la, lb := strings.Split(a, "\n"), strings.Split(b, "\n")
				first := "length"
				for i := 0; i < len(la) && i < len(lb); i++ {
					if la[i] != lb[i] {
						first = strings.Fields(la[i] + " x")[0]
						break
					}
				}
				o.violate(hist, "C11 L1: memory differs from a rebuild from the recorded assignments first-diff="+first+" after="+ev.Kind, "live:\n"+a+"rebuilt:\n"+b)
			}
		}
	}
	if o.prop == "C11" {
		// released addresses are reusable at once
		for ip, hs := range pre.holders {
			if len(hs) == 0 || len(holders[ip]) > 0 {
				continue
			}
			nip := net.ParseIP(ip)
			owners := w.Owners(nip)
			if len(owners) != 1 || !w.Usable(owners[0], nip) {
				continue
			}
			probe := l1Svc([]int32{80}, "", nil, "")
			probe.Name = "probe"
			if nip.To4() == nil {
				probe.Spec.ClusterIP, probe.Spec.ClusterIPs = "fd00::9", []string{"fd00::9"}
			}
			if !w.Admits(owners[0], probe) {
				continue
			}
			if err := s.a.Assign("ns1/probe", probe, []net.IP{nip}, k8salloc.Ports(probe), "", ""); err != nil {
				o.violate(hist, "C11 L1: released address is not reusable", fmt.Sprintf("%s released by %v: %v", ip, hs, err))
			}
			s.a.Unassign("ns1/probe")
			// ... also for a service that names no address: the pool has at least this free address of the probe's family
			pf := ipfamily.IPv4
			if nip.To4() == nil {
				pf = ipfamily.IPv6
			}
			if _, err := s.a.AllocateFromPool("ns1/probe", probe, pf, owners[0], k8salloc.Ports(probe), "", ""); err != nil {
				o.violate(hist, "C11 L1: released address is not handed out again", fmt.Sprintf("%s released by %v, pool %s: %v", ip, hs, owners[0], err))
			}
			s.a.Unassign("ns1/probe")
		}
	}
}

func runL1(t *testing.T, prop string) {
	res := verifrt.NewResult(prop)
	defer res.Write()
	thorough := verifrt.Thorough()
	if raw, ok := verifrt.ReplayCase(); ok {
		var c l1Case
		if err := json.Unmarshal(raw, &c); err != nil {
			t.Fatal(err)
		}
		for _, u := range l1Universes(true) {
			if u.name != c.Universe {
				continue
			}
			o := &l1Oracle{prop: prop, u: u, res: res, thorough: c.Thorough}
			b := &verifrt.BFS{New: func() verifrt.System { return newL1Sys(u) }, Before: o.before, After: o.after, Res: res}
			b.Replay(c.History)
			res.Replayed = true
			return
		}
		t.Fatalf("unknown universe %q", c.Universe)
	}
	deadline := time.Now().Add(verifrt.Budget())
	for i, u := range l1Universes(thorough) {
		if !verifrt.Mine(i) {
			continue
		}
		u := u
		o := &l1Oracle{prop: prop, u: u, res: res, thorough: thorough}
		depth := 64 // fixpoint: the search stops when no operation leads to a new state
		if d := os.Getenv("VERIF_DEPTH"); d != "" {
			fmt.Sscan(d, &depth)
		}
		b := &verifrt.BFS{New: func() verifrt.System { return newL1Sys(u) }, MaxUser: depth, Horizon: depth, Before: o.before, After: o.after, Res: res, Deadline: deadline}
		before := res.Counters["states"]
		done := b.RunParallel(runtime.GOMAXPROCS(0))
		res.Info["l1_universe_"+u.name] = map[string]interface{}{"fixpoint": done, "states": res.Counters["states"] - before, "levels": res.Info["completed_levels"],
			"events_per_state": len(newL1Sys(u).Enabled())}
		res.Sample(map[string]interface{}{"universe": u.name, "services": u.svcs, "variants": u.vnames, "ip_sets": u.ipSets, "layouts": len(u.layouts), "from_pool": u.fromPool})
	}
	delete(res.Info, "completed_levels")
	res.Count("traces_validated_against_impl", res.Counters["transitions"])
	res.Count("distinct_nontrivial", res.Counters["states"])
}

func TestVerif_L1_C01(t *testing.T) { runL1(t, "C01") }
func TestVerif_L1_C02(t *testing.T) { runL1(t, "C02") }
func TestVerif_L1_C11(t *testing.T) { runL1(t, "C11") }
