// vinstr: mechanical, type-directed source rewrites for the verification overlay.
//
//	vinstr -repo /repo -spec rewrites.json -out DIR
//
// spec: {"map": [files], "sync": [files], "go": [files], "time": [files],
//
//	"hooks": [{"file": f, "func": name, "hook": "HookDialMD5"}]}
//
// Prints a JSON object {original path: rewritten path} on stdout. The rewrites
// are purely additive in meaning (see DESIGN.md 2.1): with the runtime in
// pass-through mode the rewritten code behaves like the original.
package main

import (
	"bytes"
	"encoding/json"
	"flag"
	"fmt"
	"go/ast"
	"go/format"
	"go/token"
	"go/types"
	"os"
	"path/filepath"
	"sort"
	"strconv"
	"strings"

	"golang.org/x/tools/go/ast/astutil"
	"golang.org/x/tools/go/packages"
)

const rtPath = "go.universe.tf/metallb/internal/verifrt"

type hookSpec struct {
	File string `json:"file"`
	Func string `json:"func"`
	Hook string `json:"hook"`
}

// callSpec redirects the method calls `<recv>.<method>(args)` of one file to the package-level function
// `<to>(<pass>, args)` (defined in a tag-guarded export file of the package), e.g. n.conn.ReadFrom() ->
// verifNDPReadFrom(n): an OS boundary behind a concrete type becomes a seam.
type callSpec struct {
	File   string `json:"file"`
	Recv   string `json:"recv"`
	Method string `json:"method"`
	To     string `json:"to"`
	Pass   string `json:"pass"`
}

type spec struct {
	Calls []callSpec `json:"calls"`
	Map   []string   `json:"map"`
	Sync  []string   `json:"sync"`
	Go    []string   `json:"go"`
	Time  []string   `json:"time"`
	Chan  []string   `json:"chan"`
	Hooks []hookSpec `json:"hooks"`
}

func main() {
	repo := flag.String("repo", "/repo", "")
	specPath := flag.String("spec", "", "")
	out := flag.String("out", "", "")
	flag.Parse()
	b, err := os.ReadFile(*specPath)
	check(err)
	var sp spec
	check(json.Unmarshal(b, &sp))

	want := map[string]map[string]bool{} // abs file -> set of rewrites
	add := func(files []string, kind string) {
		for _, f := range files {
			abs := filepath.Join(*repo, f)
			if want[abs] == nil {
				want[abs] = map[string]bool{}
			}
			want[abs][kind] = true
		}
	}
	add(sp.Map, "map")
	add(sp.Sync, "sync")
	add(sp.Go, "go")
	add(sp.Time, "time")
	add(sp.Chan, "chan")
	for _, h := range sp.Hooks {
		add([]string{h.File}, "hook")
	}
	for _, c := range sp.Calls {
		add([]string{c.File}, "call")
	}
	dirs := map[string]bool{}
	for f := range want {
		dirs["./"+mustRel(*repo, filepath.Dir(f))] = true
	}
	var pats []string
	for d := range dirs {
		pats = append(pats, d)
	}
	sort.Strings(pats)
	cfg := &packages.Config{
		Mode: packages.NeedName | packages.NeedFiles | packages.NeedCompiledGoFiles | packages.NeedSyntax | packages.NeedTypes | packages.NeedTypesInfo | packages.NeedImports | packages.NeedDeps,
		Dir:  *repo,
		Env:  append(os.Environ(), "GOFLAGS=-mod=mod", "GOPROXY=off"),
	}
	pkgs, err := packages.Load(cfg, pats...)
	check(err)
	result := map[string]string{}
	done := map[string]bool{}
	for _, p := range pkgs {
		if len(p.Errors) > 0 {
			for _, e := range p.Errors {
				fmt.Fprintln(os.Stderr, "load error:", e)
			}
			os.Exit(2)
		}
		for i, f := range p.Syntax {
			name := p.CompiledGoFiles[i]
			kinds := want[name]
			if kinds == nil {
				continue
			}
			done[name] = true
			rw := &rewriter{fset: p.Fset, info: p.TypesInfo, file: f, rel: mustRel(*repo, name)}
			if kinds["map"] {
				rw.rewriteMaps()
			}
			if kinds["go"] {
				rw.rewriteGo()
			}
			if kinds["time"] {
				rw.rewriteTime()
			}
			if kinds["chan"] {
				rw.rewriteChanSend()
			}
			if kinds["hook"] {
				for _, h := range sp.Hooks {
					if filepath.Join(*repo, h.File) == name {
						rw.insertHook(h)
					}
				}
			}
			if kinds["sync"] {
				rw.rewriteSync()
			}
			if kinds["call"] {
				for _, c := range sp.Calls {
					if filepath.Join(*repo, c.File) == name {
						rw.redirectCalls(c)
					}
				}
				if rw.nCall == 0 {
					fmt.Fprintln(os.Stderr, "vinstr: no call to redirect in", rw.rel)
					os.Exit(2)
				}
				fmt.Fprintf(os.Stderr, "vinstr: %s: %d calls redirected\n", rw.rel, rw.nCall)
			}
			if rw.needRT {
				astutil.AddNamedImport(p.Fset, f, "verifrt", rtPath)
			}
			if rw.needVtime {
				astutil.AddNamedImport(p.Fset, f, "vtime", rtPath+"/vtime")
			}
			var buf bytes.Buffer
			check(format.Node(&buf, p.Fset, f))
			src := buf.Bytes()
			if rw.keepTime {
				src = append(src, []byte("\nvar _ = time.Second\n")...)
			}
			dst := filepath.Join(*out, strings.ReplaceAll(rw.rel, "/", "__"))
			check(os.WriteFile(dst, src, 0o644))
			result[name] = dst
			fmt.Fprintf(os.Stderr, "vinstr: %s: %d map ranges, %d go stmts, %d time calls, %d hooks, sync=%v\n",
				rw.rel, rw.nMap, rw.nGo, rw.nTime, rw.nHook, rw.syncDone)
			if rw.nChan > 0 {
				fmt.Fprintf(os.Stderr, "vinstr: %s: %d channel sends\n", rw.rel, rw.nChan)
			}
		}
	}
	for f := range want {
		if !done[f] {
			fmt.Fprintln(os.Stderr, "vinstr: file not found in loaded packages:", f)
			os.Exit(2)
		}
	}
	enc, _ := json.Marshal(result)
	os.Stdout.Write(enc)
}

func check(err error) {
	if err != nil {
		fmt.Fprintln(os.Stderr, "vinstr:", err)
		os.Exit(2)
	}
}

func mustRel(base, p string) string {
	r, err := filepath.Rel(base, p)
	check(err)
	return r
}

type rewriter struct {
	fset      *token.FileSet
	info      *types.Info
	file      *ast.File
	rel       string
	needRT    bool
	needVtime bool
	keepTime  bool
	nMap      int
	nGo       int
	nTime     int
	nHook     int
	nChan     int
	nCall     int
	syncDone  bool
	tmp       int
}

func (rw *rewriter) site(pos token.Pos) string {
	p := rw.fset.Position(pos)
	return fmt.Sprintf("%s:%d", rw.rel, p.Line)
}

func isMap(t types.Type) bool {
	if t == nil {
		return false
	}
	if tp, ok := t.(*types.TypeParam); ok {
		// core type of the constraint
		if iface, ok := tp.Constraint().Underlying().(*types.Interface); ok {
			var core types.Type
			okc := true
			for i := 0; i < iface.NumEmbeddeds(); i++ {
				et := iface.EmbeddedType(i)
				if u, ok := et.(*types.Union); ok {
					for j := 0; j < u.Len(); j++ {
						ut := u.Term(j).Type().Underlying()
						if core == nil {
							core = ut
						} else if !types.Identical(core, ut) {
							okc = false
						}
					}
				} else {
					core = et.Underlying()
				}
			}
			if okc && core != nil {
				_, m := core.(*types.Map)
				return m
			}
		}
		return false
	}
	_, ok := t.Underlying().(*types.Map)
	return ok
}

// simple reports whether evaluating e twice is harmless (no calls, no channel ops).
func simple(e ast.Expr) bool {
	ok := true
	ast.Inspect(e, func(n ast.Node) bool {
		switch n.(type) {
		case *ast.CallExpr, *ast.UnaryExpr, *ast.FuncLit:
			ok = false
		}
		return ok
	})
	return ok
}

func isBlank(e ast.Expr) bool {
	if e == nil {
		return true
	}
	id, ok := e.(*ast.Ident)
	return ok && id.Name == "_"
}

func (rw *rewriter) rewriteMaps() {
	ast.Inspect(rw.file, func(n ast.Node) bool {
		rs, ok := n.(*ast.RangeStmt)
		if !ok {
			return true
		}
		if !isMap(rw.info.TypeOf(rs.X)) {
			return true
		}
		if isBlank(rs.Key) && isBlank(rs.Value) {
			return true // order unobservable
		}
		rw.nMap++
		rw.needRT = true
		site := &ast.BasicLit{Kind: token.STRING, Value: strconv.Quote(rw.site(rs.Pos()))}
		sel := func(name string) ast.Expr {
			return &ast.SelectorExpr{X: ast.NewIdent("verifrt"), Sel: ast.NewIdent(name)}
		}
		m := rs.X
		if simple(m) {
			// for _, k := range verifrt.Keys(m, site) { v, ok := m[k]; if !ok { continue }; B }
			keyVar := rs.Key
			var pre []ast.Stmt
			tok := rs.Tok
			if isBlank(rs.Key) {
				rw.tmp++
				keyVar = ast.NewIdent(fmt.Sprintf("verifK%d", rw.tmp))
				tok = token.DEFINE
			}
			rw.tmp++
			okVar := ast.NewIdent(fmt.Sprintf("verifOk%d", rw.tmp))
			var valLHS ast.Expr = ast.NewIdent("_")
			vtok := token.ASSIGN
			if !isBlank(rs.Value) {
				valLHS = rs.Value
				vtok = rs.Tok
			}
			lookupKey := keyVar
			if vtok == token.ASSIGN && isBlank(valLHS) {
				// _, ok := m[k]
				pre = append(pre, &ast.AssignStmt{Lhs: []ast.Expr{ast.NewIdent("_"), okVar}, Tok: token.DEFINE,
					Rhs: []ast.Expr{&ast.IndexExpr{X: m, Index: lookupKey}}})
			} else if vtok == token.DEFINE {
				pre = append(pre, &ast.AssignStmt{Lhs: []ast.Expr{valLHS, okVar}, Tok: token.DEFINE,
					Rhs: []ast.Expr{&ast.IndexExpr{X: m, Index: lookupKey}}})
			} else {
				// v, ok = m[k] with ok declared first
				pre = append(pre, &ast.DeclStmt{Decl: &ast.GenDecl{Tok: token.VAR, Specs: []ast.Spec{
					&ast.ValueSpec{Names: []*ast.Ident{okVar}, Type: ast.NewIdent("bool")}}}})
				pre = append(pre, &ast.AssignStmt{Lhs: []ast.Expr{valLHS, okVar}, Tok: token.ASSIGN,
					Rhs: []ast.Expr{&ast.IndexExpr{X: m, Index: lookupKey}}})
			}
			pre = append(pre, &ast.IfStmt{Cond: &ast.UnaryExpr{Op: token.NOT, X: okVar},
				Body: &ast.BlockStmt{List: []ast.Stmt{&ast.BranchStmt{Tok: token.CONTINUE}}}})
			rs.Key = ast.NewIdent("_")
			rs.Value = keyVar
			rs.Tok = tok
			rs.X = &ast.CallExpr{Fun: sel("Keys"), Args: []ast.Expr{m, site}}
			rs.Body.List = append(pre, rs.Body.List...)
		} else {
			// for _, e := range verifrt.Entries(m, site) { k, v := e.K, e.V; B }
			rw.tmp++
			ev := ast.NewIdent(fmt.Sprintf("verifE%d", rw.tmp))
			var lhs, rhs []ast.Expr
			if !isBlank(rs.Key) {
				lhs = append(lhs, rs.Key)
				rhs = append(rhs, &ast.SelectorExpr{X: ev, Sel: ast.NewIdent("K")})
			}
			if !isBlank(rs.Value) {
				lhs = append(lhs, rs.Value)
				rhs = append(rhs, &ast.SelectorExpr{X: ev, Sel: ast.NewIdent("V")})
			}
			pre := []ast.Stmt{&ast.AssignStmt{Lhs: lhs, Tok: rs.Tok, Rhs: rhs}}
			rs.Key = ast.NewIdent("_")
			rs.Value = ev
			rs.Tok = token.DEFINE
			rs.X = &ast.CallExpr{Fun: sel("Entries"), Args: []ast.Expr{m, site}}
			rs.Body.List = append(pre, rs.Body.List...)
		}
		return true
	})
}

func (rw *rewriter) rewriteGo() {
	astutil.Apply(rw.file, func(c *astutil.Cursor) bool {
		gs, ok := c.Node().(*ast.GoStmt)
		if !ok {
			return true
		}
		rw.nGo++
		rw.needRT = true
		call := gs.Call
		var stmts []ast.Stmt
		name := rw.site(gs.Pos())
		var body ast.Expr
		if fl, ok := call.Fun.(*ast.FuncLit); ok && len(call.Args) == 0 {
			body = fl
		} else {
			switch f := call.Fun.(type) {
			case *ast.SelectorExpr:
				name = f.Sel.Name
			case *ast.Ident:
				name = f.Name
			}
			// hoist arguments so they are evaluated at the go statement, as in the original
			var args []ast.Expr
			for _, a := range call.Args {
				if _, lit := a.(*ast.BasicLit); lit {
					args = append(args, a)
					continue
				}
				rw.tmp++
				tv := ast.NewIdent(fmt.Sprintf("verifA%d", rw.tmp))
				stmts = append(stmts, &ast.AssignStmt{Lhs: []ast.Expr{tv}, Tok: token.DEFINE, Rhs: []ast.Expr{a}})
				args = append(args, tv)
			}
			body = &ast.FuncLit{Type: &ast.FuncType{Params: &ast.FieldList{}},
				Body: &ast.BlockStmt{List: []ast.Stmt{&ast.ExprStmt{X: &ast.CallExpr{Fun: call.Fun, Args: args, Ellipsis: call.Ellipsis}}}}}
		}
		stmts = append(stmts, &ast.ExprStmt{X: &ast.CallExpr{
			Fun:  &ast.SelectorExpr{X: ast.NewIdent("verifrt"), Sel: ast.NewIdent("Go")},
			Args: []ast.Expr{&ast.BasicLit{Kind: token.STRING, Value: strconv.Quote(name)}, body}}})
		if len(stmts) == 1 {
			c.Replace(stmts[0])
		} else {
			c.Replace(&ast.BlockStmt{List: stmts})
		}
		return false
	}, nil)
}

// rewriteChanSend (R-chan): a send statement outside a select becomes verifrt.ChanSend(ch, v, site): under the
// controlled scheduler the send is a scheduling point (enabled while the buffer has room); otherwise a plain send.
func (rw *rewriter) rewriteChanSend() {
	astutil.Apply(rw.file, func(c *astutil.Cursor) bool {
		ss, ok := c.Node().(*ast.SendStmt)
		if !ok {
			return true
		}
		if _, inSelect := c.Parent().(*ast.CommClause); inSelect {
			return true
		}
		rw.needRT = true
		rw.nChan++
		c.Replace(&ast.ExprStmt{X: &ast.CallExpr{
			Fun:  &ast.SelectorExpr{X: ast.NewIdent("verifrt"), Sel: ast.NewIdent("ChanSend")},
			Args: []ast.Expr{ss.Chan, ss.Value, &ast.BasicLit{Kind: token.STRING, Value: strconv.Quote(rw.site(ss.Pos()))}}}})
		return false
	}, nil)
}

var timeFuncs = map[string]bool{"Sleep": true, "After": true, "NewTicker": true, "NewTimer": true, "Now": true, "AfterFunc": true, "Since": true, "Tick": true}

func (rw *rewriter) rewriteTime() {
	ast.Inspect(rw.file, func(n ast.Node) bool {
		se, ok := n.(*ast.SelectorExpr)
		if !ok {
			return true
		}
		id, ok := se.X.(*ast.Ident)
		if !ok || id.Name != "time" || !timeFuncs[se.Sel.Name] {
			return true
		}
		if pn, ok := rw.info.Uses[id].(*types.PkgName); !ok || pn.Imported().Path() != "time" {
			return true
		}
		id.Name = "vtime"
		rw.nTime++
		rw.needVtime = true
		rw.keepTime = true
		return true
	})
}

func (rw *rewriter) rewriteSync() {
	for _, im := range rw.file.Imports {
		if im.Path.Value == `"sync"` {
			im.Path.Value = strconv.Quote(rtPath + "/vsync")
			im.Name = ast.NewIdent("sync")
			rw.syncDone = true
		}
	}
}

func (rw *rewriter) insertHook(h hookSpec) {
	for _, d := range rw.file.Decls {
		fd, ok := d.(*ast.FuncDecl)
		if !ok || fd.Name.Name != h.Func || fd.Body == nil {
			continue
		}
		var args []ast.Expr
		for _, f := range fd.Type.Params.List {
			for _, n := range f.Names {
				args = append(args, ast.NewIdent(n.Name))
			}
		}
		hv := &ast.SelectorExpr{X: ast.NewIdent("verifrt"), Sel: ast.NewIdent(h.Hook)}
		call := &ast.CallExpr{Fun: hv, Args: args}
		var ret ast.Stmt
		if fd.Type.Results != nil && len(fd.Type.Results.List) > 0 {
			ret = &ast.ReturnStmt{Results: []ast.Expr{call}}
		} else {
			ret = &ast.BlockStmt{List: []ast.Stmt{&ast.ExprStmt{X: call}, &ast.ReturnStmt{}}}
		}
		ifs := &ast.IfStmt{Cond: &ast.BinaryExpr{X: hv, Op: token.NEQ, Y: ast.NewIdent("nil")},
			Body: &ast.BlockStmt{List: []ast.Stmt{ret}}}
		fd.Body.List = append([]ast.Stmt{ifs}, fd.Body.List...)
		rw.nHook++
		rw.needRT = true
	}
}

func exprString(fset *token.FileSet, e ast.Expr) string {
	var b bytes.Buffer
	_ = format.Node(&b, fset, e)
	return b.String()
}

func (rw *rewriter) redirectCalls(c callSpec) {
	astutil.Apply(rw.file, func(cur *astutil.Cursor) bool {
		ce, ok := cur.Node().(*ast.CallExpr)
		if !ok {
			return true
		}
		se, ok := ce.Fun.(*ast.SelectorExpr)
		if !ok || se.Sel.Name != c.Method || exprString(rw.fset, se.X) != c.Recv {
			return true
		}
		ce.Fun = ast.NewIdent(c.To)
		if c.Pass != "" {
			ce.Args = append([]ast.Expr{ast.NewIdent(c.Pass)}, ce.Args...)
		}
		rw.nCall++
		return true
	}, nil)
}
